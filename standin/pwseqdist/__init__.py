"""Vendored STAND-IN for the optional dependency `pwseqdist`, which is absent from the sandbox.
Only what pyrepseq.nn.nearest_neighbor_tcrdist calls is provided.  The CDR3 distance is a
documented deterministic integer function that is NOT a function of edit distance; it is
implemented identically in coq/model/Tcrdist.v (cdr3_standin)."""
import numpy as np
from . import metrics


def apply_pairwise_sparse(metric, seqs, pairs, **kwargs):
    pairs = np.asarray(pairs)
    out = np.zeros(len(pairs), dtype=np.int64)
    for n, (i, j) in enumerate(pairs):
        out[n] = metric(seqs[int(i)], seqs[int(j)], **kwargs)
    return out
