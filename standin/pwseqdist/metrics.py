def nb_vector_tcrdist(a, b, ntrim=3, ctrim=2, dist_weight=3, gap_penalty=12, use_numba=True, fixed_gappos=False, **kw):
    """trim ntrim / ctrim characters, compare position-wise from the left over the shorter length:
    dist_weight per mismatch, gap_penalty per unit of length difference."""
    ta = a[ntrim:len(a) - ctrim] if len(a) - ctrim > ntrim else ''
    tb = b[ntrim:len(b) - ctrim] if len(b) - ctrim > ntrim else ''
    m = min(len(ta), len(tb))
    mism = sum(1 for x, y in zip(ta[:m], tb[:m]) if x != y)
    return dist_weight * mism + gap_penalty * abs(len(ta) - len(tb))
