"""C03 - two-collection search returns exactly the query/reference pairs within range."""
import itertools
import gens
from gens import all_strings, repertoire, canon_triplets, canon_model
from searchlib import Case, run_cases
from core import call_impl


def run(ctx):
    import pyrepseq.nn as nn
    rng = ctx.rng
    ctx.rule = ('(a) the small-alphabet string universe split into reference / query halves (every split of <= 6 strings, '
                'random splits beyond), k = 1..3, through symdel(seqs, seqs2=), nearest_neighbor(seqs2=), SymdelDB.lookup and '
                'LookupDB.lookup (k <= 2); (b) random repertoire pairs of different sizes with shared content and duplicates; '
                '(c) database histories: one build, 2-6 lookups (reference list itself, empty-hit query, repeated queries), each '
                'answer compared with the model and with a fresh one-shot search. non-trivial := some hit has q = r, some has d = 0, '
                'some is an insertion/deletion')
    cases = []

    def nontriv(refs, qs):
        def f(exp):
            return (any(q == r for q, r, d in exp) and any(d == 0 for q, r, d in exp)
                    and any(len(qs[q]) != len(refs[r]) for q, r, d in exp))
        return f

    def mk(kind, refs, qs, k):
        refs, qs = list(refs), list(qs)
        if kind.endswith('[same object]'):
            # the SAME container object as both collections: still the two-collection search, pairs (i, i, 0) included
            base, qs = kind[:-len('[same object]')], refs
            fn = nn.symdel if base == 'symdel' else nn.nearest_neighbor
            return Case('%s k=%d seqs2 is seqs (%d sequences)' % (base, k, len(refs)), lambda: fn(refs, max_edits=k, seqs2=refs),
                        ('api_brute_cross_lev', [k, refs, refs]), seqs=refs, seqs2=refs, site='nn.symdel[seqs2 is seqs]',
                        nontrivial=lambda exp: any(d > 0 for q, r, d in exp))
        if kind.startswith('symdel[n_cpu='):
            # the worker count is an execution option: the answer is that of the default call (queries not a multiple of n_cpu included)
            ncpu = int(kind[len('symdel[n_cpu='):-1])
            fn = nn.symdel if len(refs) % 2 else nn.nearest_neighbor
            return Case('%s k=%d n_cpu=%d refs=%d queries=%d' % (fn.__name__, k, ncpu, len(refs), len(qs)),
                        lambda: fn(refs, max_edits=k, seqs2=qs, n_cpu=ncpu), ('api_brute_cross_lev', [k, refs, qs]),
                        seqs=refs, seqs2=qs, site='nn.symdel[seqs2,n_cpu=%d]' % ncpu, nontrivial=nontriv(refs, qs))
        if kind == 'symdel':
            th = lambda: nn.symdel(refs, max_edits=k, seqs2=qs)
            model, site = 'api_brute_cross_lev', 'nn.symdel[seqs2]'
        elif kind == 'nearest_neighbor':
            th = lambda: nn.nearest_neighbor(refs, max_edits=k, seqs2=qs)
            model, site = 'api_symdel_lookup_lev' if len(refs) + len(qs) <= 16 and k <= 2 else 'api_brute_cross_lev', 'nn.symdel[seqs2]'
        elif kind == 'SymdelDB':
            th = lambda: nn.SymdelDB(refs, k).lookup(qs)
            model, site = 'api_brute_cross_lev', 'nn.SymdelDB.lookup'
        else:
            th = lambda: nn.LookupDB(refs).lookup(qs, max_edits=k)
            model, site = 'api_lookupdb_lev' if len(refs) + len(qs) <= 8 and k == 1 else 'api_brute_cross_lev', 'nn.LookupDB.lookup'
        return Case('%s k=%d refs=%d queries=%d' % (kind, k, len(refs), len(qs)), th, (model, [k, refs, qs]),
                    seqs=refs, seqs2=qs, site=site, nontrivial=nontriv(refs, qs))

    # (a) splits of a small universe
    uni = all_strings('AC', 2) + ['CAA', 'ACA']
    small = uni[:6]
    for r in range(1, len(small)):
        for refs in itertools.combinations(small, r):
            qs = [s for s in small if s not in refs]
            for kind in ('symdel', 'LookupDB'):
                cases.append(mk(kind, refs, qs + [refs[0]], 1))
    big = all_strings('AC', 3 if ctx.quick else 4) + all_strings('ACD', 2 if ctx.quick else 3, 1)
    for t in range(6 if ctx.quick else 40):
        rng.shuffle(big)
        h = rng.randint(3, len(big) - 3)
        refs, qs = big[:h] + rng.sample(big, 3), big[h:] + rng.sample(big[:h], min(4, h))
        for kind in ('symdel', 'nearest_neighbor', 'SymdelDB'):
            cases.append(mk(kind, refs, qs, 1 + t % 3))
        cases.append(mk('LookupDB', refs, qs, 1 + t % 2))
    # (a2) references of ONE length (or two lengths two apart) queried with their rotations / shifted copies: at k >= 2 the hit is a
    # deletion at one end plus an insertion at the other, through an intermediate whose length no reference has
    rot = lambda s, j: s[j:] + s[:j]
    for t in range(8 if ctx.quick else 60):
        L = rng.choice([3, 4, 5, 6])
        al = rng.choice(['AC', 'ACD', 'ACDEFGHIKLMNPQRSTVWY'])
        refs = list(dict.fromkeys(''.join(rng.choice(al) for _ in range(L)) for _ in range(rng.randint(2, 8))))
        if t % 4 == 3:
            refs += [''.join(rng.choice(al) for _ in range(L + 2)) for _ in range(2)]
        qs = [rot(s, rng.choice([1, L - 1])) for s in refs] + [s[1:] + rng.choice(al) for s in refs[:3]] + [rng.choice(refs)]
        rng.shuffle(qs)
        ctx.count('uniform_length_references_rotated_queries')
        for kind in ('LookupDB', 'symdel', 'SymdelDB'):
            cases.append(mk(kind, refs, qs, 2))
    ctx.exhaustive = True
    # (b) random repertoire pairs
    for t in range(60 if ctx.quick else 1500):
        n1, n2 = rng.randint(1, 40), rng.randint(1, 40)
        pool = repertoire(rng, n1 + n2)
        refs = pool[:n1]
        qs = pool[n1:] + rng.sample(refs, min(len(refs), rng.randint(0, 4)))
        if not qs:
            qs = [refs[0]]
        k = rng.choice([1, 1, 2, 3])
        kind = ['symdel', 'nearest_neighbor', 'SymdelDB', 'LookupDB'][t % 4]
        if t % 10 == 9:
            kind = ['symdel[same object]', 'nearest_neighbor[same object]'][t // 10 % 2]
        if t % 10 == 4:
            kind = 'symdel[n_cpu=%d]' % rng.choice([2, 3, 3, 4])
        if kind == 'LookupDB':
            k = min(k, 2)
            refs = [s for s in refs if len(s) <= 12] or ['CAF']
            qs = [s for s in qs if len(s) <= 12] or ['CAF']
        ctx.count(kind)
        ctx.count('k=%d' % k)
        cases.append(mk(kind, refs, qs, k))
    run_cases(ctx, cases, vm_every=11)

    # (c) histories
    for t in range(12 if ctx.quick else 150):
        refs = repertoire(rng, rng.randint(2, 25))
        k = rng.choice([1, 2])
        use_lookupdb = t % 3 == 2
        if use_lookupdb:
            refs = [s for s in refs if len(s) <= 12] or ['CAF']
        got = call_impl(lambda: nn.LookupDB(refs) if use_lookupdb else nn.SymdelDB(refs, k))
        if got[0] != 'ok':
            ctx.violation('property', 'building the database raised %s' % (got,), dict(refs=refs, k=k), site='nn.db.build')
            continue
        db = got[1]
        hist = []
        for _ in range(rng.randint(2, 6)):
            c = rng.random()
            if c < 0.25:
                qs = list(refs)
            elif c < 0.4:
                qs = ['WWWWWWWWWWWWWWWWWW']
            elif c < 0.6 and hist:
                qs = list(rng.choice(hist))
            else:
                qs = repertoire(rng, rng.randint(1, 10)) + rng.sample(refs, 1)
            if use_lookupdb:
                qs = [s for s in qs if len(s) <= 12] or ['CAF']
            hist.append(qs)
        # LookupDB takes max_edits and the distance mode per lookup: they vary inside one history (an index or cache keyed by the
        # query alone would answer with the radius of an earlier call)
        steps = [(rng.choice([1, 2]), rng.random() < 0.25) if use_lookupdb else (k, False) for _ in hist]
        if use_lookupdb and len(hist) >= 2 and rng.random() < 0.7:
            j = rng.randrange(1, len(hist))
            hist[j] = list(hist[j - 1])                      # same queries again ...
            steps[j] = (3 - steps[j - 1][0], steps[j - 1][1])  # ... at the other radius
        reqs = [('api_brute_cross_ham' if hm else 'api_brute_cross_lev', [kk, refs, qs]) for qs, (kk, hm) in zip(hist, steps)]
        outs = ctx.oracle.run(reqs)
        for step, (qs, exp) in enumerate(zip(hist, outs)):
            kk, hm = steps[step]
            kw = dict(custom_distance='hamming') if hm else {}
            g = call_impl(lambda: db.lookup(qs, max_edits=kk, **kw) if use_lookupdb else db.lookup(qs))
            fresh = call_impl(lambda: nn.LookupDB(refs).lookup(qs, max_edits=kk, **kw) if use_lookupdb
                              else nn.symdel(refs, max_edits=k, seqs2=qs))
            ctx.count('history_lookup_k=%d%s' % (kk, '_hamming' if hm else ''))
            ctx.case(sample=dict(history_step=step, refs=refs[:6], queries=qs[:6], k=kk, hamming=hm) if step == 1 and t < 3 else None,
                     nontrivial_key=('hist', t, step) if exp else None)
            ok = g[0] == 'ok' and canon_triplets(g[1]) == canon_model(exp)
            okf = fresh[0] == 'ok' and g[0] == 'ok' and canon_triplets(fresh[1]) == canon_triplets(g[1])
            if not ok or not okf:
                ctx.violation('property', 'lookup %d (max_edits=%d%s) of a history on one %s differs from %s' %
                              (step, kk, ', hamming' if hm else '', 'LookupDB' if use_lookupdb else 'SymdelDB',
                               'the model' if not ok else 'a fresh one-shot search'),
                              dict(refs=refs, history=hist[:step + 1], steps=steps[:step + 1], k=k, got=str(g)[:400]),
                              site='nn.LookupDB.lookup' if use_lookupdb else 'nn.SymdelDB.lookup')
                break
    ctx.assumptions += ['rapidfuzz distances', 'references of LookupDB are over the amino-acid alphabet (documented domain)']


def replay(ctx, obj):
    import pyrepseq.nn as nn
    r = obj['replay']
    refs, qs = r['seqs'], r['seqs2']
    k = r['request'][1][0]
    site = obj.get('site') or ''
    if 'LookupDB' in site:
        th = lambda: nn.LookupDB(refs).lookup(qs, max_edits=k)
    elif 'n_cpu=' in site:
        ncpu = int(site.split('n_cpu=')[1].rstrip(']'))
        th = lambda: nn.symdel(refs, max_edits=k, seqs2=qs, n_cpu=ncpu)
    else:
        th = lambda: nn.symdel(refs, max_edits=k, seqs2=qs)
    run_cases(ctx, [Case('replay', th, ('api_brute_cross_lev', [k, refs, qs]), seqs=refs, seqs2=qs, site=site)])
