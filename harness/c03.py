"""C03 - two-collection search returns exactly the query/reference pairs within range."""
import contextlib
import io
import itertools
import os
import numpy as np
import pandas as pd
import gens
from gens import all_strings, repertoire, canon_triplets, canon_model, diff_triplets, shrink_list, mutate
from searchlib import Case, run_cases
from core import call_impl, jsonable

# ---------------------------------------------------------------------------------------------------------------------------------
# Option / container variants (audit widening).  A variant is a JSON-able description `v` of ONE two-collection search:
#   entry   'symdel' | 'nearest_neighbor' | 'SymdelDB' | 'LookupDB'       k        max_edits
#   refs, qs  the two collections as lists                                rc, qc   container kind of either (CONTAINERS)
#   same    the reference OBJECT is passed as the queries too              ham      custom_distance='hamming'
#   out     output_type                                                    progress progress=True (not nearest_neighbor)
#   n_cpu, max_returns  (symdel / nearest_neighbor; documented as ignored)  maxc     max_custom_distance with the default distance
#   style   'kw' (non-default options by keyword) | 'pos' (everything positional) | 'kwall' (everything by keyword, seqs=/seqs2=)
#           | 'default_k' (max_edits left to its default 1)
# The expected value is always the model's brute-force cross search of the two collections in POSITIONAL (iteration) order.
CONTAINERS = ['list', 'tuple', 'ndarray', 'ndarray_object', 'series_default', 'series_shifted', 'series_reversed', 'series_string',
              'index', 'dict_keys', 'set']
UNIQUE_ONLY = ('dict_keys', 'set')


class WrongMatrixShape(Exception):
    pass


def container(kind, seqs):
    seqs, n = list(seqs), len(seqs)
    if kind == 'list':
        return seqs
    if kind == 'tuple':
        return tuple(seqs)
    if kind == 'ndarray':
        return np.array(seqs, dtype=str)
    if kind == 'ndarray_object':
        a = np.empty(n, dtype=object)
        a[:] = seqs
        return a
    if kind == 'series_default':
        return pd.Series(seqs, dtype=object)
    if kind == 'series_shifted':
        return pd.Series(seqs, index=range(5, 5 + n))
    if kind == 'series_reversed':
        return pd.Series(seqs, index=range(n - 1, -1, -1))
    if kind == 'series_string':
        return pd.Series(seqs, index=['r%d' % i for i in range(n)])
    if kind == 'index':
        return pd.Index(seqs, dtype=object)
    if kind == 'dict_keys':
        return dict.fromkeys(seqs).keys()
    if kind == 'set':
        return set(seqs)
    raise ValueError(kind)


def prepare(v):
    """-> (reference object, query object, references in positional order, queries in positional order)"""
    refs_c = container(v.get('rc', 'list'), v['refs'])
    qs_c = refs_c if v.get('same') else container(v.get('qc', 'list'), v['qs'])
    return refs_c, qs_c, [str(x) for x in refs_c], [str(x) for x in qs_c]


def as_triplets(res, out, nref, nq):
    """Any output form -> canonical (q, r, d) triplets; the dense form cannot show d = 0 (the caller drops those from the expectation)."""
    if out == 'triplets':
        return canon_triplets(res)
    if tuple(res.shape) != (nref, nq):
        raise WrongMatrixShape('%s instead of %s' % (tuple(res.shape), (nref, nq)))
    if out == 'coo_matrix':
        return canon_triplets(zip(res.col.tolist(), res.row.tolist(), res.data.tolist()))
    r, q = np.nonzero(res)
    return canon_triplets(zip(q.tolist(), r.tolist(), res[r, q].tolist()))


def db_lookup(db, is_lookupdb, qs_c, k, style='kw', ham=False, maxc=None, out='triplets', progress=False, pdist=False):
    cd, mc = ('hamming' if ham else None), (float('inf') if maxc is None else maxc)
    kw = {}
    if ham:
        kw['custom_distance'] = cd
    if maxc is not None:
        kw['max_custom_distance'] = maxc
    if out != 'triplets':
        kw['output_type'] = out
    if progress:
        kw['progress'] = True
    if pdist:
        kw['pdist_mode'] = True
    with contextlib.redirect_stderr(io.StringIO()):      # the progress bar writes to stderr
        if not is_lookupdb:
            if style == 'pos':
                return db.lookup(qs_c, cd, mc, out, progress)
            return db.lookup(seqs2=qs_c, **kw) if style == 'kwall' else db.lookup(qs_c, **kw)
        if style == 'pos':
            return db.lookup(qs_c, k, pdist, cd, mc, out, progress)
        if style == 'kwall':
            kw.setdefault('pdist_mode', False)
            return db.lookup(seqs2=qs_c, max_edits=k, **kw)
        return db.lookup(qs_c, **kw) if style == 'default_k' else db.lookup(qs_c, max_edits=k, **kw)


def invoke(nn, v, refs_c, qs_c, nref, nq):
    e, k, style = v['entry'], v['k'], v.get('style', 'kw')
    ham, maxc, out, progress = bool(v.get('ham')), v.get('maxc'), v.get('out', 'triplets'), bool(v.get('progress'))
    if e in ('symdel', 'nearest_neighbor'):
        fn, n_cpu, mr = getattr(nn, e), v.get('n_cpu') or 1, v.get('max_returns')
        kw = {}
        if ham:
            kw['custom_distance'] = 'hamming'
        if maxc is not None:
            kw['max_custom_distance'] = maxc
        if out != 'triplets':
            kw['output_type'] = out
        if progress:
            kw['progress'] = True
        if n_cpu != 1:
            kw['n_cpu'] = n_cpu
        if mr is not None:
            kw['max_returns'] = mr
        with contextlib.redirect_stderr(io.StringIO()):
            if style == 'pos':
                res = fn(*([refs_c, k, mr, n_cpu, 'hamming' if ham else None, float('inf') if maxc is None else maxc, out, qs_c]
                           + ([progress] if e == 'symdel' else [])))
            elif style == 'kwall':
                res = fn(seqs=refs_c, max_edits=k, seqs2=qs_c, **kw)
            elif style == 'default_k':
                res = fn(refs_c, seqs2=qs_c, **kw)
            else:
                res = fn(refs_c, max_edits=k, seqs2=qs_c, **kw)
    else:
        lk = e == 'LookupDB'
        if style == 'kwall':
            db = nn.LookupDB(seqs=refs_c) if lk else nn.SymdelDB(seqs=refs_c, max_edits=k)
        else:
            db = nn.LookupDB(refs_c) if lk else nn.SymdelDB(refs_c, k)
        res = db_lookup(db, lk, qs_c, k, style, ham, maxc, out, progress)
    return as_triplets(res, out, nref, nq)


def describe(v):
    opts = ['%s=%s' % (a, v[a]) for a in ('rc', 'qc', 'same', 'ham', 'out', 'progress', 'n_cpu', 'max_returns', 'maxc', 'style') if v.get(a)
            or (a == 'maxc' and v.get(a) is not None)]
    return '%s max_edits=%d%s' % (v['entry'], v['k'], (' [' + ', '.join(opts) + ']') if opts else '')


def expect(v, exp):
    e = canon_model(exp)
    return [t for t in e if t[2] != 0] if v.get('out') == 'ndarray' else e


def run_variants(ctx, nn, variants, shrink=True):
    """Each variant against the model (brute-force cross search of the positional contents)."""
    prepared = [prepare(v) for v in variants]
    reqs = [('api_brute_cross_ham' if v.get('ham') else 'api_brute_cross_lev', [v['k'], p[2], p[3]]) for v, p in zip(variants, prepared)]
    keys = [(f, a[0], tuple(a[1]), tuple(a[2])) for f, a in reqs]
    uniq = {}
    for key, rq in zip(keys, reqs):             # several entry points on the same data share one model evaluation
        uniq.setdefault(key, rq)
    order = sorted(uniq, key=lambda key: -(len(key[2]) * len(key[3]) * (1 + max(map(len, key[2] + key[3])) ** 2)))
    from concurrent.futures import ThreadPoolExecutor
    with ThreadPoolExecutor(1) as ex:           # the model (separate processes) works while the implementation is called here
        fut = ex.submit(ctx.oracle.run_parallel, [uniq[key] for key in order])
        gots = [call_impl(invoke, nn, v, p[0], p[1], len(p[2]), len(p[3])) for v, p in zip(variants, prepared)]
        answers = dict(zip(order, fut.result()))
    outs = [answers[key] for key in keys]
    nviol = 0
    for v, (refs_c, qs_c, ro, qo), exp, got in zip(variants, prepared, outs, gots):
        if isinstance(exp, Exception):
            raise exp
        expected = expect(v, exp)
        ctx.case(sample=None, nontrivial_key=('variant', describe(v), tuple(ro[:50]), tuple(qo[:50]), len(ro), len(qo)) if expected else None)
        if got[0] == 'ok' and got[1] == expected:
            continue
        nviol += 1
        if nviol > 3:
            continue
        w = dict(v)
        if shrink and len(ro) + len(qo) <= 120 and not v.get('same'):
            def fails(w2):
                r2, q2, ro2, qo2 = prepare(w2)
                e2 = ctx.oracle.run([('api_brute_cross_ham' if w2.get('ham') else 'api_brute_cross_lev', [w2['k'], ro2, qo2])])[0]
                g2 = call_impl(invoke, nn, w2, r2, q2, len(ro2), len(qo2))
                return not (g2[0] == 'ok' and g2[1] == expect(w2, e2))
            try:
                w['qs'] = shrink_list(w['qs'], lambda x: fails(dict(w, qs=x)), max_steps=80)
                w['refs'] = shrink_list(w['refs'], lambda x: fails(dict(w, refs=x)), max_steps=80)
                r2, q2, ro2, qo2 = prepare(w)
                expected = expect(w, ctx.oracle.run([('api_brute_cross_ham' if w.get('ham') else 'api_brute_cross_lev', [w['k'], ro2, qo2])])[0])
                got = call_impl(invoke, nn, w, r2, q2, len(ro2), len(qo2))
            except Exception:
                w = dict(v)
        detail = got if got[0] != 'ok' else diff_triplets(got[1], expected)
        short = lambda x: x if len(x) <= 12 else x[:12] + ['... (%d)' % len(x)]
        ctx.violation('property', '%s: differs from the pairs within range of references %s / queries %s: %s' %
                      (describe(w), short([s if len(s) <= 40 else s[:40] + '...(%d)' % len(s) for s in w['refs']]),
                       'the same object' if w.get('same') else short([s if len(s) <= 40 else s[:40] + '...(%d)' % len(s) for s in w['qs']]),
                       jsonable(detail)),
                      dict(variant=w, detail=jsonable(detail)), site='nn.%s[variant]' % w['entry'])
    return nviol


# ---------------------------------------------------------------------------------------------------------------------------------
# Scripts: call histories on database objects / module functions, as JSON-able op lists (so that a replay carries the whole history).
#   fill    buf, kind ('list' | 'ndarray' | 'ndarray_object'), values      create a named buffer, or REFILL IT IN PLACE when it exists
#   build   db, cls, k, refs + rc | refs_buf                               build a database object
#   lookup  db, qs + qc | qs_buf | use_refs (the object the database was built from), k (LookupDB), ham, out, progress, pdist, style
#   call    fn ('symdel' | 'nearest_neighbor'), k, refs | refs_buf, qs | qs_buf, ham      a one-shot two-collection search
#   noise   fn ('symdel' | 'nearest_neighbor' | 'hash_based' | 'kdtree'), seqs, k         a one-collection search in between (unchecked)
class Player:
    def __init__(self, nn):
        self.nn, self.bufs, self.dbs = nn, {}, {}

    def obj(self, op, key):
        if op.get(key + '_buf'):
            return self.bufs[op[key + '_buf']]
        return container(op.get('rc' if key == 'refs' else 'qc', 'list'), op[key])

    def step(self, op):
        nn, o = self.nn, op['op']
        if o == 'fill':
            if op['buf'] not in self.bufs:
                self.bufs[op['buf']] = (list(op['values']) if op['kind'] == 'list' else np.array(op['values'], dtype='<U40')
                                        if op['kind'] == 'ndarray' else container('ndarray_object', op['values']))
            else:
                self.bufs[op['buf']][:] = op['values']
            return None
        if o == 'build':
            refs_c = self.obj(op, 'refs')
            lk = op['cls'] == 'LookupDB'
            self.dbs[op['db']] = (nn.LookupDB(refs_c) if lk else nn.SymdelDB(refs_c, op['k']), refs_c, lk, op.get('k'))
            return None
        if o == 'lookup':
            db, refs_c, lk, kb = self.dbs[op['db']]
            qs_c = refs_c if op.get('use_refs') else self.obj(op, 'qs')
            out = op.get('out', 'triplets')
            res = db_lookup(db, lk, qs_c, op.get('k', kb), op.get('style', 'kw'), bool(op.get('ham')), None, out, bool(op.get('progress')),
                            bool(op.get('pdist')))
            return as_triplets(res, out, len(refs_c), len(qs_c))
        if o == 'call':
            kw = dict(custom_distance='hamming') if op.get('ham') else {}
            return canon_triplets(getattr(nn, op['fn'])(self.obj(op, 'refs'), max_edits=op['k'], seqs2=self.obj(op, 'qs'), **kw))
        if o == 'noise':
            getattr(nn, op['fn'])(list(op['seqs']), max_edits=op['k'])
            return None
        raise ValueError(o)


def script_requests(script):
    """Pure simulation of the buffers: for every checked op the oracle request and the post-filter of the model's answer."""
    bufs, dbs, reqs = {}, {}, []

    def cur(op, key):
        if op.get(key + '_buf'):
            return list(bufs[op[key + '_buf']])
        return [str(x) for x in container(op.get('rc' if key == 'refs' else 'qc', 'list'), op[key])]
    for op in script:
        o, rq = op['op'], None
        if o == 'fill':
            bufs[op['buf']] = list(op['values'])
        elif o == 'build':
            dbs[op['db']] = (cur(op, 'refs'), op.get('k'))          # the index is built from the contents at construction
        elif o == 'lookup':
            refs, kb = dbs[op['db']]
            qs = refs if op.get('use_refs') else cur(op, 'qs')
            rq = ('api_brute_cross_ham' if op.get('ham') else 'api_brute_cross_lev', [op.get('k', kb), refs, qs])
        elif o == 'call':
            rq = ('api_brute_cross_ham' if op.get('ham') else 'api_brute_cross_lev', [op['k'], cur(op, 'refs'), cur(op, 'qs')])
        reqs.append(rq)
    return reqs


def op_text(op):
    t = lambda x: x if len(x) <= 8 else x[:8] + ['... (%d)' % len(x)]
    d = {a: (t(b) if isinstance(b, list) else b) for a, b in op.items() if a != 'op'}
    return '%s%s' % (op['op'], d)


def run_script(ctx, nn, script, name):
    """Plays the history; every checked answer must be the model's (= a fresh one-shot search of the same contents)."""
    reqs = script_requests(script)
    outs = iter(ctx.oracle.run([r for r in reqs if r is not None]))
    pl = Player(nn)
    for i, (op, rq) in enumerate(zip(script, reqs)):
        g = call_impl(pl.step, op)
        if rq is None:
            if g[0] != 'ok' and op['op'] != 'noise':
                ctx.violation('property', '%s: step %d (%s) raised %s' % (name, i, op_text(op), g[1]), dict(script=script[:i + 1]),
                              site='nn.history[%s]' % name)
                return 1
            continue
        exp = next(outs)
        if isinstance(exp, Exception):
            raise exp
        expected = canon_model(exp)
        if op.get('pdist'):
            expected = [t for t in expected if t[0] != t[1]]          # documented: seqs2 = seqs assumed, diagonal filtered
        if op.get('out') == 'ndarray':
            expected = [t for t in expected if t[2] != 0]
        ctx.case(nontrivial_key=('script', name, i, repr(script[:i + 1])[:4000]) if expected else None)
        ctx.count('history2_checked_steps')
        if g[0] == 'ok' and g[1] == expected:
            continue
        detail = g if g[0] != 'ok' else diff_triplets(g[1], expected)
        ctx.violation('property', '%s: the answer of step %d differs from a fresh search of the same contents: %s; history: %s' %
                      (name, i, jsonable(detail), ' ; '.join(op_text(x) for x in script[:i + 1])[:1200]),
                      dict(script=script[:i + 1], detail=jsonable(detail)), site='nn.history[%s]' % name)
        return 1
    return 0


def run(ctx):
    import pyrepseq.nn as nn
    rng = ctx.rng
    ctx.rule = ('(a) the small-alphabet string universe split into reference / query halves (every split of <= 6 strings, '
                'random splits beyond), k = 1..3, through symdel(seqs, seqs2=), nearest_neighbor(seqs2=), SymdelDB.lookup and '
                'LookupDB.lookup (k <= 2); (b) random repertoire pairs of different sizes with shared content and duplicates; '
                '(c) database histories: one build, 2-6 lookups (reference list itself, empty-hit query, repeated queries), each '
                'answer compared with the model and with a fresh one-shot search. non-trivial := some hit has q = r, some has d = 0, '
                'some is an insertion/deletion. Audit widening (non-trivial := non-empty expected answer): (d) every non-default option '
                '(Hamming mode, output_type, progress, n_cpu, max_returns, max_custom_distance with the default distance), container kind '
                '(tuple, str / object ndarray, Series with default / shifted / reversed / string index, Index, dict keys, set; the same '
                'object as both collections) and call style (positional, all keywords, max_edits left to its default) with every entry '
                'point, alone and in pairs; (e) sequence lengths around 64 / 128 / 256, collections beyond 255 / 1000 / 2**15 (2**16 '
                'thorough) positions, more than 255 hits of one query, one-sequence collections; (g) case-sensitive, punctuation, '
                'non-ASCII and astral alphabets; (h) max_edits 4..12 and LookupDB at 3; (f) scripted histories: per-lookup options on '
                'one SymdelDB, a query / reference container refilled in place between calls, the reference object itself as the '
                'queries, two live databases interleaved with one-collection searches, pdist_mode steps on a LookupDB')
    cases = []

    def nontriv(refs, qs):
        def f(exp):
            return (any(q == r for q, r, d in exp) and any(d == 0 for q, r, d in exp)
                    and any(len(qs[q]) != len(refs[r]) for q, r, d in exp))
        return f

    def mk(kind, refs, qs, k):
        refs, qs = list(refs), list(qs)
        if kind.endswith('[same object]'):
            # the SAME container object as both collections: still the two-collection search, pairs (i, i, 0) included
            base, qs = kind[:-len('[same object]')], refs
            fn = nn.symdel if base == 'symdel' else nn.nearest_neighbor
            return Case('%s k=%d seqs2 is seqs (%d sequences)' % (base, k, len(refs)), lambda: fn(refs, max_edits=k, seqs2=refs),
                        ('api_brute_cross_lev', [k, refs, refs]), seqs=refs, seqs2=refs, site='nn.symdel[seqs2 is seqs]',
                        nontrivial=lambda exp: any(d > 0 for q, r, d in exp))
        if kind.startswith('symdel[n_cpu='):
            # the worker count is an execution option: the answer is that of the default call (queries not a multiple of n_cpu included)
            ncpu = int(kind[len('symdel[n_cpu='):-1])
            fn = nn.symdel if len(refs) % 2 else nn.nearest_neighbor
            return Case('%s k=%d n_cpu=%d refs=%d queries=%d' % (fn.__name__, k, ncpu, len(refs), len(qs)),
                        lambda: fn(refs, max_edits=k, seqs2=qs, n_cpu=ncpu), ('api_brute_cross_lev', [k, refs, qs]),
                        seqs=refs, seqs2=qs, site='nn.symdel[seqs2,n_cpu=%d]' % ncpu, nontrivial=nontriv(refs, qs))
        if kind == 'symdel':
            th = lambda: nn.symdel(refs, max_edits=k, seqs2=qs)
            model, site = 'api_brute_cross_lev', 'nn.symdel[seqs2]'
        elif kind == 'nearest_neighbor':
            th = lambda: nn.nearest_neighbor(refs, max_edits=k, seqs2=qs)
            model, site = 'api_symdel_lookup_lev' if len(refs) + len(qs) <= 16 and k <= 2 else 'api_brute_cross_lev', 'nn.symdel[seqs2]'
        elif kind == 'SymdelDB':
            th = lambda: nn.SymdelDB(refs, k).lookup(qs)
            model, site = 'api_brute_cross_lev', 'nn.SymdelDB.lookup'
        else:
            th = lambda: nn.LookupDB(refs).lookup(qs, max_edits=k)
            model, site = 'api_lookupdb_lev' if len(refs) + len(qs) <= 8 and k == 1 else 'api_brute_cross_lev', 'nn.LookupDB.lookup'
        return Case('%s k=%d refs=%d queries=%d' % (kind, k, len(refs), len(qs)), th, (model, [k, refs, qs]),
                    seqs=refs, seqs2=qs, site=site, nontrivial=nontriv(refs, qs))

    # (a) splits of a small universe
    uni = all_strings('AC', 2) + ['CAA', 'ACA']
    small = uni[:6]
    for r in range(1, len(small)):
        for refs in itertools.combinations(small, r):
            qs = [s for s in small if s not in refs]
            for kind in ('symdel', 'LookupDB'):
                cases.append(mk(kind, refs, qs + [refs[0]], 1))
    big = all_strings('AC', 3 if ctx.quick else 4) + all_strings('ACD', 2 if ctx.quick else 3, 1)
    for t in range(6 if ctx.quick else 40):
        rng.shuffle(big)
        h = rng.randint(3, len(big) - 3)
        refs, qs = big[:h] + rng.sample(big, 3), big[h:] + rng.sample(big[:h], min(4, h))
        for kind in ('symdel', 'nearest_neighbor', 'SymdelDB'):
            cases.append(mk(kind, refs, qs, 1 + t % 3))
        cases.append(mk('LookupDB', refs, qs, 1 + t % 2))
    # (a2) references of ONE length (or two lengths two apart) queried with their rotations / shifted copies: at k >= 2 the hit is a
    # deletion at one end plus an insertion at the other, through an intermediate whose length no reference has
    rot = lambda s, j: s[j:] + s[:j]
    for t in range(8 if ctx.quick else 60):
        L = rng.choice([3, 4, 5, 6])
        al = rng.choice(['AC', 'ACD', 'ACDEFGHIKLMNPQRSTVWY'])
        refs = list(dict.fromkeys(''.join(rng.choice(al) for _ in range(L)) for _ in range(rng.randint(2, 8))))
        if t % 4 == 3:
            refs += [''.join(rng.choice(al) for _ in range(L + 2)) for _ in range(2)]
        qs = [rot(s, rng.choice([1, L - 1])) for s in refs] + [s[1:] + rng.choice(al) for s in refs[:3]] + [rng.choice(refs)]
        rng.shuffle(qs)
        ctx.count('uniform_length_references_rotated_queries')
        for kind in ('LookupDB', 'symdel', 'SymdelDB'):
            cases.append(mk(kind, refs, qs, 2))
    ctx.exhaustive = True
    # (b) random repertoire pairs
    for t in range(60 if ctx.quick else 1500):
        n1, n2 = rng.randint(1, 40), rng.randint(1, 40)
        pool = repertoire(rng, n1 + n2)
        refs = pool[:n1]
        qs = pool[n1:] + rng.sample(refs, min(len(refs), rng.randint(0, 4)))
        if not qs:
            qs = [refs[0]]
        k = rng.choice([1, 1, 2, 3])
        kind = ['symdel', 'nearest_neighbor', 'SymdelDB', 'LookupDB'][t % 4]
        if t % 10 == 9:
            kind = ['symdel[same object]', 'nearest_neighbor[same object]'][t // 10 % 2]
        if t % 10 == 4:
            kind = 'symdel[n_cpu=%d]' % rng.choice([2, 3, 3, 4])
        if kind == 'LookupDB':
            k = min(k, 2)
            refs = [s for s in refs if len(s) <= 12] or ['CAF']
            qs = [s for s in qs if len(s) <= 12] or ['CAF']
        ctx.count(kind)
        ctx.count('k=%d' % k)
        cases.append(mk(kind, refs, qs, k))
    run_cases(ctx, cases, vm_every=11)

    # (c) histories
    for t in range(12 if ctx.quick else 150):
        refs = repertoire(rng, rng.randint(2, 25))
        k = rng.choice([1, 2])
        use_lookupdb = t % 3 == 2
        if use_lookupdb:
            refs = [s for s in refs if len(s) <= 12] or ['CAF']
        got = call_impl(lambda: nn.LookupDB(refs) if use_lookupdb else nn.SymdelDB(refs, k))
        if got[0] != 'ok':
            ctx.violation('property', 'building the database raised %s' % (got,), dict(refs=refs, k=k), site='nn.db.build')
            continue
        db = got[1]
        hist = []
        for _ in range(rng.randint(2, 6)):
            c = rng.random()
            if c < 0.25:
                qs = list(refs)
            elif c < 0.4:
                qs = ['WWWWWWWWWWWWWWWWWW']
            elif c < 0.6 and hist:
                qs = list(rng.choice(hist))
            else:
                qs = repertoire(rng, rng.randint(1, 10)) + rng.sample(refs, 1)
            if use_lookupdb:
                qs = [s for s in qs if len(s) <= 12] or ['CAF']
            hist.append(qs)
        # LookupDB takes max_edits and the distance mode per lookup: they vary inside one history (an index or cache keyed by the
        # query alone would answer with the radius of an earlier call)
        steps = [(rng.choice([1, 2]), rng.random() < 0.25) if use_lookupdb else (k, False) for _ in hist]
        if use_lookupdb and len(hist) >= 2 and rng.random() < 0.7:
            j = rng.randrange(1, len(hist))
            hist[j] = list(hist[j - 1])                      # same queries again ...
            steps[j] = (3 - steps[j - 1][0], steps[j - 1][1])  # ... at the other radius
        reqs = [('api_brute_cross_ham' if hm else 'api_brute_cross_lev', [kk, refs, qs]) for qs, (kk, hm) in zip(hist, steps)]
        outs = ctx.oracle.run(reqs)
        for step, (qs, exp) in enumerate(zip(hist, outs)):
            kk, hm = steps[step]
            kw = dict(custom_distance='hamming') if hm else {}
            g = call_impl(lambda: db.lookup(qs, max_edits=kk, **kw) if use_lookupdb else db.lookup(qs))
            fresh = call_impl(lambda: nn.LookupDB(refs).lookup(qs, max_edits=kk, **kw) if use_lookupdb
                              else nn.symdel(refs, max_edits=k, seqs2=qs))
            ctx.count('history_lookup_k=%d%s' % (kk, '_hamming' if hm else ''))
            ctx.case(sample=dict(history_step=step, refs=refs[:6], queries=qs[:6], k=kk, hamming=hm) if step == 1 and t < 3 else None,
                     nontrivial_key=('hist', t, step) if exp else None)
            ok = g[0] == 'ok' and canon_triplets(g[1]) == canon_model(exp)
            okf = fresh[0] == 'ok' and g[0] == 'ok' and canon_triplets(fresh[1]) == canon_triplets(g[1])
            if not ok or not okf:
                ctx.violation('property', 'lookup %d (max_edits=%d%s) of a history on one %s differs from %s' %
                              (step, kk, ', hamming' if hm else '', 'LookupDB' if use_lookupdb else 'SymdelDB',
                               'the model' if not ok else 'a fresh one-shot search'),
                              dict(refs=refs, history=hist[:step + 1], steps=steps[:step + 1], k=k, got=str(g)[:400]),
                              site='nn.LookupDB.lookup' if use_lookupdb else 'nn.SymdelDB.lookup')
                break

    # ------------------------------------------------------------------------------------------------------------------------------
    # Audit widening: (d) options / containers / call styles, (e) sizes, (g) alphabets, (h) large radii, (f) further histories
    AAs = gens.AA
    rs = lambda al, L: ''.join(rng.choice(al) for _ in range(L))
    short = lambda xs: [x for x in xs if len(x) <= 12] or ['CAF']
    take = lambda xs, n: [xs[i % len(xs)] for i in range(n)]
    variants = []

    def pool_of(n, lk=False):
        """exactly n repertoire-like sequences (short ones for LookupDB, whose edit ball grows with the length)"""
        out = []
        while len(out) < n:
            out += short(repertoire(rng, n)) if lk else repertoire(rng, n)
        return out[:n]

    def ham_pool(n):
        out = []
        while len(out) < n:
            root = rs(AAs, rng.randint(1, 11))
            for _ in range(rng.randint(1, 5)):
                x = list(root)
                for _ in range(rng.randint(0, 3)):
                    x[rng.randrange(len(x))] = rng.choice(AAs)
                out.append(''.join(x))
            if rng.random() < 0.4:
                out.append(root[1:] or 'A')                        # one deletion away: never a Hamming neighbour
        out = out[:n]
        rng.shuffle(out)
        return out

    # (d) every non-default option / container kind / call style with every entry point, alone and in pairs
    FEATURES = ['rc', 'qc', 'rc+qc', 'same', 'ham', 'coo', 'dense', 'progress', 'n_cpu', 'max_returns', 'maxc', 'pos', 'kwall', 'default_k']
    ENTRIES = ['symdel', 'nearest_neighbor', 'SymdelDB', 'LookupDB']
    kinds_r, kinds_q = list(CONTAINERS[1:]), list(CONTAINERS[1:])
    rng.shuffle(kinds_r)
    rng.shuffle(kinds_q)
    nkind = [0, 0]

    # max_custom_distance is documented as "ignored if custom distance is not supplied": every entry point, LookupDB.lookup included
    # (D21: it applied the radius to the default and Hamming distances; repaired in /repo by ac40883)
    maxc_entries = ENTRIES

    def admissible(f, e):
        return e in {'n_cpu': ('symdel', 'nearest_neighbor'), 'max_returns': ('symdel',), 'progress': ('symdel', 'SymdelDB', 'LookupDB'),
                     'maxc': maxc_entries}.get(f, ENTRIES)

    def apply(v, f):
        if f in ('rc', 'rc+qc', 'same'):
            v['rc'] = kinds_r[nkind[0] % len(kinds_r)]
            nkind[0] += 1
        if f in ('qc', 'rc+qc'):
            v['qc'] = kinds_q[nkind[1] % len(kinds_q)]
            nkind[1] += 1
        if f == 'same':
            v['same'] = True
        elif f == 'ham':
            v['ham'] = True
        elif f in ('coo', 'dense'):
            v['out'] = 'coo_matrix' if f == 'coo' else 'ndarray'
        elif f == 'progress':
            v['progress'] = True
        elif f == 'n_cpu':
            v['n_cpu'] = rng.choice([2, 3, 4, len(v['qs']), len(v['qs']) + 3])
            if v['n_cpu'] < 2:
                v['n_cpu'] = 2
        elif f == 'max_returns':
            v['max_returns'] = rng.choice([1, 1, 2, 5])
        elif f == 'maxc':
            v['maxc'] = rng.choice([0, 0.5, 1, 1.0])
        elif f in ('pos', 'kwall'):
            v['style'] = f
        elif f == 'default_k':
            v['style'], v['k'] = 'default_k', 1

    nfeat = 0
    for t in range(len(FEATURES) * 4 * (1 if ctx.quick else 20)):
        f1 = FEATURES[t % len(FEATURES)]
        e = ENTRIES[(t // len(FEATURES)) % 4]
        if not admissible(f1, e):
            e = 'SymdelDB' if f1 == 'maxc' else ['symdel', 'nearest_neighbor'][t % 2] if admissible(f1, 'nearest_neighbor') else 'symdel'
        fs = [f1]
        if rng.random() < 0.6:
            f2 = rng.choice(FEATURES)
            styles = ('pos', 'kwall', 'default_k')
            clash = (f2 == f1 or not admissible(f2, e) or (f1 in styles and f2 in styles) or {f1, f2} == {'ham', 'maxc'} or {f1, f2} == {'coo', 'dense'}
                     or ({f1, f2} & {'rc', 'qc', 'rc+qc', 'same'} == {f1, f2}))
            if not clash:
                fs.append(f2)
        ham = 'ham' in fs
        n1, n2 = rng.randint(1, 20), rng.randint(1, 20)
        pool = ham_pool(n1 + n2) if ham else repertoire(rng, n1 + n2)
        refs = pool[:n1]
        qs = pool[n1:] + rng.sample(refs, min(len(refs), rng.randint(0, 3))) or [refs[0]]
        k = rng.choice([1, 1, 2, 3])
        if e == 'LookupDB':
            k, refs, qs = min(k, 2), short(refs), short(qs)
            if k == 2:                                   # the ball of a query of length L has about (40 L)^2 members
                qs = [x for x in qs if len(x) <= 9][:8] or ['CAF']
        v = dict(entry=e, k=k, refs=refs, qs=qs)
        for f in fs:
            apply(v, f)
        if v.get('rc') in UNIQUE_ONLY:
            v['refs'] = list(dict.fromkeys(v['refs']))
        if v.get('qc') in UNIQUE_ONLY:
            v['qs'] = list(dict.fromkeys(v['qs']))
        if v.get('same'):
            v['qs'] = v['refs']
        for f in fs:
            ctx.count('option:' + f)
        for a in ('rc', 'qc'):
            if v.get(a):
                ctx.count('container:' + v[a])
        if len(fs) == 2:
            ctx.count('two_options')
        variants.append(v)
        nfeat += 1

    # (e1) long sequences: lengths on both sides of 64, 128, 256 (and 300); hits by identity, one substitution, a shift (deletion at one end,
    # insertion at the other), a deletion and an insertion that cross the length threshold
    def other(c):
        return rng.choice([x for x in AAs if x != c])
    if ctx.quick:
        lengths = [rng.choice([63, 64, 65]), 127, 128, rng.choice([129, 130]), rng.choice([255, 256, 257])]
    else:
        lengths = [63, 64, 65, 127, 128, 129, 255, 256, 257, 300, rng.randint(66, 126), rng.randint(131, 254)]
    for L in lengths:
        big_one = L >= 200
        refs, qs = [], []
        for _ in range(1 if big_one else 2):
            r0 = rs(AAs, L)
            i, j = rng.randrange(L), rng.randrange(L)
            refs += [r0, r0[:j] + other(r0[j]) + r0[j + 1:]] + ([] if big_one else [r0[:L // 2] + rng.choice(AAs) + r0[L // 2:]])
            qs += [r0[:i] + other(r0[i]) + r0[i + 1:], r0[1:] + rng.choice(AAs), r0[:L - 1]] + ([] if big_one else [r0, r0 + 'A'])
        ctx.count('long_sequences_L=%d' % L)
        vs = [dict(entry=e, k=k, refs=refs, qs=qs) for e, k in (('symdel', 2), ('SymdelDB', 2), ('nearest_neighbor', 1), ('LookupDB', 1), ('SymdelDB', 1))]
        vs.append(dict(entry='symdel', k=2, refs=refs, qs=qs, rc='ndarray', qc='series_shifted'))
        variants += rng.sample(vs, 4) if ctx.quick else vs

    # (e2) large collections: reference / query positions beyond 255, 1000 (2**15, 2**16), more than 255 hits of one query, equal positions
    # far from 0 on both sides, collections made of one repeated sequence, the smallest collections
    def many(n, m, lk=False):
        big = pool_of(n, lk)
        few = [big[-1], mutate(rng, big[-2], AAs, 1), big[n // 2], mutate(rng, big[min(n - 1, 256)], AAs, 1), big[min(n - 1, 255)]]
        few += [mutate(rng, rng.choice(big), AAs, rng.randint(0, 2)) for _ in range(max(0, m - len(few)))]
        return big, few[:max(1, m)]
    sizes = [256 + rng.randint(-1, 2), 1000 + rng.randint(0, 200)] + ([] if ctx.quick else [2 ** 12 + 1, 2 ** 15 + rng.randint(0, 9), 2 ** 16 + rng.randint(0, 9)])
    for n in sizes:
        for side in ('refs', 'queries'):
            if n > 40000 and side == 'queries':
                continue
            k = 1 if n > 3000 else rng.choice([1, 2])
            big, few = many(n, 6)
            ctx.count('large_collection_%s>=%d' % (side, 2 ** (n.bit_length() - 1)))
            for e in ENTRIES[:3] if n < 3000 else [rng.choice(ENTRIES[:3])]:
                variants.append(dict(entry=e, k=k, refs=big, qs=few) if side == 'refs' else dict(entry=e, k=k, refs=few, qs=big))
            if side == 'refs' or n < 5000:
                big, few = many(n, 6, True)
                variants.append(dict(entry='LookupDB', k=1, refs=big, qs=short(few)) if side == 'refs' else dict(entry='LookupDB', k=1, refs=short(few), qs=big))
    if ctx.quick:
        big, few = many(2 ** 15 + rng.randint(1, 9), 2)
        ctx.count('large_collection_refs>=32768')
        variants.append(dict(entry=rng.choice(['symdel', 'SymdelDB', 'nearest_neighbor']), k=1, refs=big, qs=few))
    for t in range(2 if ctx.quick else 12):
        x = rs(AAs, rng.randint(4, 9))
        nb = [mutate(rng, x, AAs, 1) for _ in range(6)]
        refs = [x] * rng.randint(257, 300) + nb + [x] * 3
        ctx.count('more_than_255_hits_per_query')
        for e in rng.sample(ENTRIES, 2) if ctx.quick else ENTRIES:
            variants.append(dict(entry=e, k=1 if e == 'LookupDB' else 2, refs=refs, qs=[x, nb[0], 'WWWWWWWWWWWWW', nb[1]]))
        n = rng.randint(260, 330)
        e = ENTRIES[t % 4]
        col = pool_of(n, e == 'LookupDB')
        ctx.count('equal_positions_beyond_255')
        variants.append(dict(entry=e, k=1, refs=col, qs=list(col)))
        variants.append(dict(entry=ENTRIES[(t + 1) % 4], k=1, refs=[x] * rng.randint(1, 9), qs=[x] * rng.randint(1, 9)))
        variants.append(dict(entry=ENTRIES[(t + 2) % 4], k=rng.choice([1, 2]), refs=[x], qs=[rng.choice([x, nb[2], 'W'])]))

    # (g) alphabets beyond the amino acids: case matters, digits / punctuation / blanks, non-ASCII and astral code points are characters like
    # any other (LookupDB: references stay inside its documented alphabet, the queries do not)
    ALPHABETS = {'mixed_case': 'ACacDd', 'digits_punctuation': '019-*_. ', 'latin_greek': 'AÉéΩωß',
                 'astral': 'A\U0001d49c\U0001f600C'}
    for name, al in ALPHABETS.items():
        for t in range(1 if ctx.quick else 10):
            base = [rs(al, rng.randint(0, 6)) for _ in range(rng.randint(4, 10))]
            refs = base + [mutate(rng, x, al, 1) for x in base[:4]]
            qs = [mutate(rng, x, al, rng.randint(0, 2)) for x in base] + base[:2] + [x.swapcase() for x in base[:3]] + [x.upper() for x in base[3:5]]
            rng.shuffle(refs)
            ctx.count('alphabet:' + name)
            for e in ENTRIES[:3]:
                variants.append(dict(entry=e, k=rng.choice([1, 2]), refs=refs, qs=qs, **(dict(rc='ndarray', qc='ndarray') if t % 2 else {})))
    for t in range(3 if ctx.quick else 30):
        refs = short(repertoire(rng, rng.randint(3, 12)))
        foreign = 'acXBZ*-é 1'
        qs = []
        for x in refs:
            i = rng.randrange(len(x) + 1)
            qs += [x[:i] + rng.choice(foreign) + x[i + 1:], x[:i] + rng.choice(foreign) + x[i:], x.lower(), x.capitalize()]
        qs = short(qs)
        ctx.count('alphabet:LookupDB_foreign_queries')
        variants.append(dict(entry='LookupDB', k=rng.choice([1, 2]), refs=refs, qs=qs + [refs[0]]))

    # (h) radii beyond 3 (up to more than every length) and LookupDB at max_edits = 3
    for t in range(3 if ctx.quick else 40):
        refs = [rs('ACD', rng.randint(0, 6)) for _ in range(rng.randint(2, 9))]
        qs = [rs('ACD', rng.randint(0, 6)) for _ in range(rng.randint(2, 9))] + [mutate(rng, rng.choice(refs), 'ACD', rng.randint(0, 5))]
        k = rng.choice([4, 5, 7, 12])
        ctx.count('max_edits=%d' % k)
        for e in ENTRIES[:3]:
            variants.append(dict(entry=e, k=k, refs=refs, qs=qs, **(dict(ham=True) if t % 3 == 2 else {})))
    for t in range(3 if ctx.quick else 30):
        refs = [rs('ACDW', rng.randint(0, 5)) for _ in range(rng.randint(2, 8))]
        qs = [rs('ACDW', rng.randint(0, 2 if ctx.quick else 3)) for _ in range(rng.randint(1, 3))]
        ctx.count('LookupDB_max_edits=3')
        variants.append(dict(entry='LookupDB', k=3, refs=refs, qs=qs, **(dict(ham=True) if t % 3 == 2 else {})))
    variants.append(dict(entry='LookupDB', k=2, refs=['DA'], qs=[''], maxc=0.5))          # the minimal D21 input
    run_variants(ctx, nn, variants)

    # (f) further histories, as scripts
    def pool9(n):
        """n sequences of at most 9 residues (LookupDB at max_edits = 2 stays cheap), families and duplicates as in repertoire()"""
        out = []
        while len(out) < n:
            out += [x for x in repertoire(rng, 2 * n + 4, maxmut=3) if len(x) <= 9]
        return out[:n]

    def qlist(refs, n=None, lk=False):
        n = n or rng.randint(1, 8)
        return (pool9(n) if lk else repertoire(rng, n)) + rng.sample(refs, min(len(refs), 2))

    def scenario(kind, lk):
        n = rng.randint(2, 20)
        refs = pool9(n) if lk else repertoire(rng, n)
        k = rng.choice([1, 2])
        kk = lambda: dict(k=rng.choice([1, 1, 2])) if lk else {}
        cls = 'LookupDB' if lk else 'SymdelDB'
        if kind == 'symdeldb_per_lookup_options':
            # SymdelDB takes the distance mode, the output form and the progress flag per lookup
            sc = [dict(op='build', db='A', cls='SymdelDB', k=k, refs=refs, rc=rng.choice(CONTAINERS[:9]))]
            prev = None
            for step in range(rng.randint(3, 5)):
                # queries one deletion / one shift away from a reference: hits of the default distance that are none in Hamming mode
                near = [x[1:] or 'A' for x in rng.sample(refs, min(len(refs), 2))] + [x[1:] + rng.choice(AAs) for x in rng.sample(refs, 1)]
                q = prev if prev and (step == 1 or rng.random() < 0.4) else qlist(refs) + near
                o = dict(op='lookup', db='A', qs=q, qc=rng.choice(CONTAINERS[:9]), ham=rng.random() < 0.5)
                if prev is q:
                    o['ham'] = not sc[-1].get('ham')                    # the same queries again in the other distance mode
                o.update(rng.choice([{}, {}, dict(out='coo_matrix'), dict(out='ndarray'), dict(progress=True), dict(style='pos')]))
                sc.append(o)
                prev = q
            return sc
        if kind == 'refilled_query_buffer':
            # ONE preallocated query container, refilled in place between the lookups
            n = rng.randint(2, 8)
            bk = rng.choice(['list', 'ndarray', 'ndarray_object'])
            refs = pool9(len(refs))
            sc = [dict(op='build', db='A', cls='SymdelDB', k=k, refs=refs), dict(op='build', db='B', cls='LookupDB', refs=refs)]
            for _ in range(rng.randint(2, 4)):
                sc += [dict(op='fill', buf='Q', kind=bk, values=take(qlist(refs, n, True), n)), dict(op='lookup', db='A', qs_buf='Q'),
                       dict(op='lookup', db='B', qs_buf='Q', k=rng.choice([1, 1, 2]))]
            return sc
        if kind == 'reference_object_as_queries':
            # the very object the database was built from is looked up in it (all (i, i, 0) included), before and after other queries
            sc = [dict(op='build', db='A', cls=cls, k=k, refs=refs, rc=rng.choice(CONTAINERS[:9])), dict(op='lookup', db='A', use_refs=True, **kk()),
                  dict(op='lookup', db='A', qs=qlist(refs, None, lk), **kk()), dict(op='lookup', db='A', use_refs=True, **kk())]
            sc[rng.choice([1, 3])].update(rng.choice([{}, dict(out='coo_matrix'), dict(progress=True), dict(style='kwall')]))
            return sc
        if kind == 'two_databases_interleaved':
            # two live databases (shared sequences, different radii / classes) and one-collection searches in between
            refs_b = repertoire(rng, rng.randint(2, 12)) + rng.sample(refs, min(len(refs), 3))
            lk_b = rng.random() < 0.4
            refs_b = short(refs_b) if lk_b else refs_b
            sc = [dict(op='build', db='A', cls=cls, k=k, refs=refs), dict(op='build', db='B', cls='LookupDB' if lk_b else 'SymdelDB', k=3 - k, refs=refs_b)]
            for _ in range(rng.randint(3, 6)):
                w = rng.choice('AB')
                q = qlist(refs if w == 'A' else refs_b, None, True)
                o = dict(op='lookup', db=w, qs=q)
                if (lk if w == 'A' else lk_b):
                    o['k'] = rng.choice([1, 1, 2])
                sc.append(o)
                c = rng.random()
                if c < 0.5:
                    sc.append(dict(op='noise', fn=rng.choice(['symdel', 'nearest_neighbor', 'hash_based', 'kdtree']), k=rng.choice([1, 2]),
                                   seqs=short(rng.sample(q + refs + refs_b, min(8, len(q))))))
                elif c < 0.75:
                    sc.append(dict(op='call', fn=rng.choice(['symdel', 'nearest_neighbor']), k=rng.choice([1, 2, 3]), refs=refs_b, qs=q))
            return sc
        if kind == 'lookupdb_pdist_step':
            # pdist_mode=True (documented: the queries are the references, diagonal filtered) between ordinary lookups of one LookupDB
            refs = pool9(min(len(refs), 10))
            sc = [dict(op='build', db='A', cls='LookupDB', refs=refs), dict(op='lookup', db='A', use_refs=True, k=k, pdist=True),
                  dict(op='lookup', db='A', use_refs=True, k=k), dict(op='lookup', db='A', qs=qlist(refs, None, True), k=3 - k),
                  dict(op='lookup', db='A', qs=list(refs), k=k, pdist=True, style=rng.choice(['kw', 'pos'])), dict(op='lookup', db='A', qs=list(refs), k=k)]
            return sc
        # 'refilled_reference_buffer': one-shot searches whose reference container is refilled in place between the calls; same call twice
        n = rng.randint(2, 10)
        bk = rng.choice(['list', 'ndarray', 'ndarray_object'])
        q = qlist(refs, None, lk)
        sc = []
        for j in range(rng.randint(2, 3)):
            sc += [dict(op='fill', buf='R', kind=bk, values=take(pool_of(n, lk) + (short(q) if lk else q)[:2] if j else refs, n)),
                   dict(op='call', fn=rng.choice(['symdel', 'nearest_neighbor']), k=k, refs_buf='R', qs=q, ham=rng.random() < 0.2)]
            if rng.random() < 0.5:
                sc.append(dict(sc[-1]))
            if rng.random() < 0.5:
                sc += [dict(op='build', db='D%d' % j, cls=cls, k=k, refs_buf='R'), dict(op='lookup', db='D%d' % j, qs=q, **kk())]
        return sc

    KINDS = ['symdeldb_per_lookup_options', 'refilled_query_buffer', 'reference_object_as_queries', 'two_databases_interleaved',
             'lookupdb_pdist_step', 'refilled_reference_buffer']
    for t in range(len(KINDS) * (2 if ctx.quick else 30)):
        kind = KINDS[t % len(KINDS)]
        ctx.count('history2:' + kind)
        run_script(ctx, nn, scenario(kind, t // len(KINDS) % 2 == 1), kind)      # SymdelDB and LookupDB in turn
    ctx.assumptions += ['rapidfuzz distances', 'references of LookupDB are over the amino-acid alphabet (documented domain)']


def replay(ctx, obj):
    import pyrepseq.nn as nn
    r = obj['replay']
    if 'variant' in r:
        run_variants(ctx, nn, [r['variant']], shrink=False)
        return
    if 'script' in r:
        run_script(ctx, nn, r['script'], 'replay')
        return
    if 'seqs' not in r or 'request' not in r:
        return run(ctx)                               # histories of family (c): no single-call replay; the whole search again
    refs, qs = r['seqs'], r['seqs2']
    k = r['request'][1][0]
    site = obj.get('site') or ''
    if 'LookupDB' in site:
        th = lambda: nn.LookupDB(refs).lookup(qs, max_edits=k)
    elif 'n_cpu=' in site:
        ncpu = int(site.split('n_cpu=')[1].rstrip(']'))
        th = lambda: nn.symdel(refs, max_edits=k, seqs2=qs, n_cpu=ncpu)
    else:
        th = lambda: nn.symdel(refs, max_edits=k, seqs2=qs)
    run_cases(ctx, [Case('replay', th, ('api_brute_cross_lev', [k, refs, qs]), seqs=refs, seqs2=qs, site=site)])
