"""C08 - string metrics return true (weighted) edit distances in SciPy layout."""
import collections
import functools
import itertools
import os
import numpy as np
import pandas as pd
import gens
from gens import all_strings
from core import call_impl

# containers a "collection of strings" may arrive in.  Sized ones are accepted by the metric classes and the functional helpers,
# the one-shot ones only by the functional helpers (documented "iterable of strings", they copy into a list first).
SIZED_KINDS = ['list', 'tuple', 'ndarray', 'ndarray_U', 'series', 'series_shifted', 'series_permuted', 'series_gapped',
               'series_str', 'series_dup', 'index', 'deque',
               # pandas extension dtypes (what read_csv / astype hand out), NumPy's variable-width string dtype, array views, dict views
               'series_string', 'series_infer', 'series_category', 'frame_column', 'pd_array', 'categorical', 'ndarray_T',
               'ndarray_strided', 'ndarray_reversed', 'dict_keys', 'dict']
# containers that can be refilled in place (the same object is handed to several calls with other content)
MUTABLE_KINDS = ['list', 'deque', 'ndarray', 'ndarray_strided', 'series', 'series_permuted', 'series_str', 'series_dup']
ONESHOT_KINDS = ['iterator', 'generator']

# "any alphabet": a string is a sequence of CODE POINTS and one edit changes one code point, whatever its width in some encoding.
# Alphabets that separate code points from UTF-8 bytes / UTF-16 units / truncated code units / normalised or case-folded text:
WIDE_ALPHABETS = {
    'latin_accented': 'e\u00e9\u00e8\u00ea\u00ebE\u00c9\u0301a\u00e0c\u00e7',   # base letter, precomposed, combining mark, upper case (1-2 bytes)
    'greek_cyrillic': '\u03b1\u03b2\u03b3\u03b4\u03b5\u0391\u0392\u03c3\u03c2\u0430\u0431\u0410',   # all 2 bytes
    'cjk_similar': '\u65e5\u672c\u8a9e\u76ee\u6728\u66f0\u672b\u672a',       # 3 bytes each, shared lead bytes
    'cjk_1000': ''.join(chr(0x4e00 + i) for i in range(1000)),
    'emoji_nonbmp': '\U0001F600\U0001F601\U0001F9EC\U00010348\U0002000B\u200d',  # 4 bytes / surrogate pairs, plus the zero-width joiner
    'mixed_width': 'A\u00e9\u65e5\U0001F600z\u03b2',                              # 1, 2, 3 and 4 bytes
    'same_low_bits': 'A\u0141\u0241\u4e41\U00010041\U00020041',                  # equal modulo 256, three of them equal modulo 65536
    'latin1_edge': '~\x7f\x80\u00ff\u0100\ufeff',                                # around the 7-bit / 8-bit borders, byte-order mark
    'whitespace': ' \t\nA\u00a0\u3000',
    'ascii_case': 'aAbB',                                                          # a case-folding processor shows
    'ascii_punct': 'aA-_.,;! 1',                                                   # a processor that drops non-alphanumerics / trims shows
}
ASCII_ALPHABETS = ['A', 'AC', 'ACGT', gens.AA]


def draw_alphabet(rng, ctx, p_wide=0.5):
    if rng.random() < p_wide:
        name = rng.choice(sorted(WIDE_ALPHABETS))
        ctx.count('alphabet=' + name)
        return WIDE_ALPHABETS[name]
    ctx.count('alphabet=ascii')
    return rng.choice(ASCII_ALPHABETS)


def _first_diff(g, rows, cols, exp):
    """(row string, column string, got, expected) of the first entry that differs, for the message"""
    try:
        a = np.asarray(g[1]).astype(np.float64)
        e = np.array(exp, dtype=np.float64).reshape(a.shape)
        for i, j in zip(*np.nonzero(a != e)):
            return dict(a=rows[i], b=cols[j], got=float(a[i, j]), expected=float(e[i, j]))
    except Exception:
        pass
    return None


def cont(rng, kind, xs):
    """-> (container holding xs in this order, printable description). Position decides, never the pandas label."""
    xs = list(xs)
    m = len(xs)
    idx = None
    if kind == 'list':
        c = list(xs)
    elif kind == 'tuple':
        c = tuple(xs)
    elif kind == 'ndarray':
        c = np.empty(m, dtype=object)
        c[:] = xs
    elif kind == 'ndarray_U':
        c = np.array(xs, dtype=str)
    elif kind == 'iterator':
        c = iter(list(xs))
    elif kind == 'generator':
        c = (x for x in list(xs))
    elif kind == 'index':
        c = pd.Index(xs, dtype=object)
    elif kind == 'deque':
        c = collections.deque(xs)
    elif kind == 'pd_array':
        c = pd.array(xs, dtype='string')
    elif kind == 'categorical':
        c = pd.Categorical(xs)
    elif kind == 'ndarray_T':                      # NumPy 2 variable-width strings
        c = np.array(xs, dtype=np.dtypes.StringDType()) if hasattr(np.dtypes, 'StringDType') else np.array(xs, dtype=object).reshape(m)
    elif kind == 'ndarray_strided':                # every second slot of a longer array (a column / slice view)
        base = np.empty(2 * m + 1, dtype=object)
        base[:] = ['#%d' % i for i in range(2 * m + 1)]
        base[1::2] = xs
        c = base[1::2]
    elif kind == 'ndarray_reversed':               # negative stride
        base = np.empty(m, dtype=object)
        base[:] = xs[::-1]
        c = base[::-1]
    elif kind in ('dict_keys', 'dict'):            # ordered and sized, but only for distinct strings
        if len(set(xs)) == m:
            c = dict.fromkeys(xs) if kind == 'dict' else dict.fromkeys(xs).keys()
        else:
            kind, c = 'list', list(xs)
    elif kind in ('series_string', 'series_infer', 'series_category', 'frame_column'):
        lab = list(range(m))
        rng.shuffle(lab)
        if kind == 'series_string':
            c = pd.Series(xs, index=lab, dtype='string')
        elif kind == 'series_infer':               # what pandas 3 infers for strings (its default string dtype)
            c = pd.Series(xs, index=lab) if m else pd.Series(xs, index=lab, dtype=object)
        elif kind == 'series_category':
            c = pd.Series(xs, index=lab, dtype='category')
        else:
            c = pd.DataFrame({'n': list(range(m)), 's': pd.Series(xs, index=lab, dtype=object)}, index=lab)['s']
        return c, '%s(index=%s, dtype=%s)' % (kind, lab, c.dtype)
    elif kind == 'series':
        idx = None
        c = pd.Series(xs, dtype=object)
    elif kind == 'series_shifted':
        k = rng.randint(1, 9)
        idx = list(range(k, k + m))
    elif kind == 'series_permuted':                # labels are a permutation of 0..m-1 (after sort_values / sample)
        idx = list(range(m))
        for _ in range(8):
            rng.shuffle(idx)
            if m < 2 or idx != list(range(m)):
                break
    elif kind == 'series_gapped':                  # after row filtering: gaps, any order, negative labels
        idx = rng.sample(range(-4, 3 * m + 6), m)
        if rng.random() < 0.5:
            idx.sort()
    elif kind == 'series_str':
        idx = ['k%d' % i for i in range(m)]
        rng.shuffle(idx)
    elif kind == 'series_dup':                     # after concat: repeated labels
        idx = [i // 2 for i in range(m)] if rng.random() < 0.5 else [0] * m
    else:
        raise ValueError(kind)
    if idx is not None:
        c = pd.Series(xs, index=idx, dtype=object)
    return c, (kind if idx is None else '%s(index=%s)' % (kind, idx))


def _show(xs, n=14):
    """strings for a message: long ones cut, with their length (the replay file holds them in full)"""
    return [x if len(x) <= n else '%s...<len %d>' % (x[:n], len(x)) for x in xs]


def _shape_eq(g, exp_shape, exp):
    if g[0] != 'ok':
        return False
    a = np.asarray(g[1])
    return a.shape == exp_shape and np.array_equal(a.astype(np.float64).reshape(exp_shape), np.array(exp, dtype=np.float64).reshape(exp_shape))


# ====================================================================== widened families (coverage audit, design_notes/C08_audit.md)
SPECIAL_WEIGHTS = [(1, 1, 2), (1, 1, 3), (1, 1, 5), (1, 2, 1), (1, 7, 1), (2, 1, 1), (11, 1, 1), (1, 2, 3), (2, 1, 3), (2, 3, 1), (1, 2, 11), (3, 3, 1)]
W_ALL = [1, 2, 3, 5, 7, 11]


def draw_weights(rng):
    """weight triples incl. the ones in which only some weights differ from the default 1 and the ones with substitution > insertion + deletion"""
    r = rng.random()
    if r < 0.2:
        return (1, 1, 1)
    if r < 0.6:
        return rng.choice(SPECIAL_WEIGHTS)
    return tuple(rng.choice(W_ALL) for _ in range(3))


def build_metric(rng, w, Levenshtein, WeightedLevenshtein, ctx=None):
    """a metric object with the weights w through one of the spellings of the constructor -> (object, spelling)"""
    names = ['insertion_weight', 'deletion_weight', 'substitution_weight']
    if w == (1, 1, 1) and rng.random() < 0.6:
        how = rng.choice(['Levenshtein()', 'WeightedLevenshtein()'])
        if ctx is not None:
            ctx.count('constructor=' + how)
        return (Levenshtein() if how == 'Levenshtein()' else WeightedLevenshtein()), how
    how = rng.choice(['positional', 'keywords', 'keywords_shuffled', 'non_default_keywords', 'mixed', 'numpy_ints', 'positional_prefix'])
    if ctx is not None:
        ctx.count('constructor=' + how)
        if 1 in w and w != (1, 1, 1):
            ctx.count('weights_with_some_defaults')
    if how == 'positional':
        return WeightedLevenshtein(*w), 'WeightedLevenshtein(%d, %d, %d)' % w
    if how == 'numpy_ints':
        return WeightedLevenshtein(np.int64(w[0]), np.int64(w[1]), np.int64(w[2])), 'WeightedLevenshtein(np.int64(%d), np.int64(%d), np.int64(%d))' % w
    if how == 'mixed':
        return (WeightedLevenshtein(w[0], substitution_weight=w[2], deletion_weight=w[1]),
                'WeightedLevenshtein(%d, substitution_weight=%d, deletion_weight=%d)' % (w[0], w[2], w[1]))
    if how == 'positional_prefix':
        args = list(w)
        while args and args[-1] == 1:
            args.pop()
        return WeightedLevenshtein(*args), 'WeightedLevenshtein(%s)' % ', '.join(map(str, args))
    items = list(zip(names, w))
    if how == 'non_default_keywords':
        items = [(k, v) for k, v in items if v != 1]
    if how != 'keywords':
        rng.shuffle(items)
    return WeightedLevenshtein(**dict(items)), 'WeightedLevenshtein(%s)' % ', '.join('%s=%d' % kv for kv in items)


def refill(c, kind, vals):
    """overwrite the container IN PLACE so that it holds vals afterwards (the same object; list / deque may change their length)"""
    if kind == 'list':
        c[:] = vals
    elif kind == 'deque':
        c.clear()
        c.extend(vals)
    elif kind.startswith('series'):
        assert len(c) == len(vals)
        for k, v in enumerate(vals):
            c.iloc[k] = v
    else:
        assert len(c) == len(vals)
        for k, v in enumerate(vals):
            c[k] = v


class _Method(object):
    def __init__(self, spec):
        self.spec = spec

    def dist(self, a, b, **kw):
        return self.spec(a, b, **kw)


class _CallableObject(object):
    def __init__(self, spec):
        self.spec = spec

    def __call__(self, a, b, **kw):
        return self.spec(a, b, **kw)


class _EmptyCallable(_CallableObject):
    """a callable that is falsy (a callable collection / registry with no entries): `metric is None` is the documented test"""
    def __len__(self):
        return 0


CALLABLE_FLAVOURS = ['function', 'lambda', 'partial_positional', 'partial_keyword', 'bound_method', 'callable_object', 'falsy_callable_object']
VALUE_TYPES = ['int', 'int', 'float', 'bigint', 'small', 'mixed']
FALSY = dict(mode=None, flag=False, k=0, tag='', opts=())
TRUTHY = dict(mode='y', flag=True, k=2, tag='u', opts=(2, 3))


def make_callable(rng, ident):
    """a metric callable of some kind whose value identifies both arguments and every keyword argument (also falsy ones)
    -> (callable, value type, admissible dtypes, description)"""
    p, q, r = rng.choice([(1000, 1, 0), (1, 1000, 5), (-1000, 3, -7), (37, -1000, 11)])
    vt = rng.choice(VALUE_TYPES)

    def spec(a, b, offset=0, scale=1, mode='x', flag=True, k=3, tag='t', opts=(1,), table=None, grid=None, **more):
        v = scale * (p * ident[str(a)] + q * ident[str(b)]) + r + offset + 100000 * sum(more.values())
        # keyword arguments with falsy values count: None / False / 0 / '' / () are not the defaults
        v += 1000000 * ((mode is None) + 2 * (flag is False) + 4 * (k == 0) + 8 * (tag == '') + 16 * (opts == ()) +
                        32 * (mode == 'y') + 64 * (k == 2) + 128 * (tag == 'u') + 256 * (opts == (2, 3)) +
                        512 * (table == {'A': 1}) + 1024 * (grid == [1, 2]))
        if vt == 'float':
            return v / 8.0 + 0.375
        if vt == 'mixed':
            # a Python int for equal arguments, a float otherwise (a normalised distance that returns 0 for identical strings): the
            # result dtype is the caller's, not that of the first pair evaluated
            return int(v) if str(a) == str(b) else v / 8.0 + 0.375
        if vt == 'bigint':
            return v * 2 ** 20 + (2 ** 53 + 1)
        if vt == 'small':
            return v % 251
        return v
    fl = rng.choice(CALLABLE_FLAVOURS)
    if fl == 'function':
        def f(a, b, **kw):
            return spec(a, b, **kw)
    elif fl == 'lambda':
        f = lambda a, b, **kw: spec(a, b, **kw)                                   # noqa: E731
    elif fl == 'partial_positional':
        f = functools.partial(lambda bound, a, b, **kw: spec(a, b, **kw), 'bound')
    elif fl == 'partial_keyword':
        f = functools.partial(spec, offset=rng.randint(1, 9))
    elif fl == 'bound_method':
        f = _Method(spec).dist
    elif fl == 'callable_object':
        f = _CallableObject(spec)
    else:
        f = _EmptyCallable(spec)
    dts = {'int': [np.int64, np.dtype(np.int64), int], 'float': [np.float64, np.dtype('float64'), float], 'mixed': [np.float64, float],
           'bigint': [np.int64, np.dtype('int64')],
           'small': [None, None, np.uint8, np.int16, np.dtype('uint8')]}[vt]
    return f, vt, dts, '%s returning %s values, (p, q, r) = %s' % (fl, vt, (p, q, r))


def draw_kwargs(rng):
    """keyword arguments for a callable of make_callable: numbers, values that are falsy, names a helper might interpret itself"""
    kw = {}
    r = rng.random()
    if r < 0.3:
        return kw
    for name in ('mode', 'flag', 'k', 'tag', 'opts'):
        x = rng.random()
        if x < 0.3:
            kw[name] = FALSY[name]
        elif x < 0.4:
            kw[name] = TRUTHY[name]
    for name, lo, hi in [('offset', 0, 5), ('scale', 1, 3), ('gap', 0, 4), ('weights', 0, 4), ('score_cutoff', 0, 4), ('dm', 1, 3), ('i', 1, 3)]:
        if rng.random() < 0.25:
            kw[name] = rng.randint(lo, hi)
    # values that cannot be hashed (a substitution table, a grid): forwarded like any other keyword (seeded change C08-r6m2)
    if rng.random() < 0.2:
        kw['table'] = {'A': 1}
    if rng.random() < 0.2:
        kw['grid'] = [1, 2]
    return kw


def _diff(g, exp, exact_ints=False):
    """None when the call returned exactly exp (an ndarray: shape and every value), else a short description of the first difference"""
    if g[0] != 'ok':
        return 'raised %s' % (g[1],)
    try:
        a = np.asarray(g[1])
        if a.shape != exp.shape:
            return 'shape %s, expected %s' % (a.shape, exp.shape)
        if a.size == 0:
            return None
        if exact_ints:
            bad = [k for k, (u, v) in enumerate(zip(a.ravel().tolist(), exp.ravel().tolist())) if u != v]
        else:
            bad = np.flatnonzero(a.astype(np.float64).ravel() != exp.astype(np.float64).ravel()).tolist()
        if not bad:
            return None
        pos = np.unravel_index(bad[0], a.shape)
        return 'entry %s is %s, expected %s (%d of %d entries differ)' % (tuple(int(x) for x in pos), a[pos], exp[pos], len(bad), a.size)
    except Exception as e:                                                       # an object that is no array of numbers
        return 'result not comparable (%s): %s' % (type(e).__name__, str(g[1])[:80])


def condensed(sq):
    """the condensed vector of a square matrix by the FORMULA of the property: entry m*i + j - (i+2)(i+1)/2 for i < j"""
    sq = np.asarray(sq)
    m = sq.shape[0]
    out = np.zeros((m * (m - 1)) // 2, dtype=sq.dtype)
    if m >= 2:
        i, j = np.triu_indices(m, 1)
        out[m * i + j - ((i + 2) * (i + 1)) // 2] = sq[i, j]
    return out


def _arr(x, shape):
    return np.array(x, dtype=np.int64).reshape(shape)


def part_sessions(ctx, env):
    """(d) sessions: one pair of collections, several metric objects (every constructor spelling), the functional helpers with the default
    metric and with callables of every kind - all interleaved, on containers that are RE-USED between the calls and refilled in place."""
    rng, ds, pkg = ctx.rng, env['ds'], env['pkg']
    Lev, WLev, RL, PL, hc, ssd = env['Levenshtein'], env['WeightedLevenshtein'], env['RL'], env['PL'], env['hc'], env['ssd']
    plans, reqs = [], []
    for sno in range(60 if ctx.quick else 600):
        al = draw_alphabet(rng, ctx, 0.5)
        m, mb = rng.randint(0, 9), rng.randint(0, 6)

        def rs(hi):
            return ''.join(rng.choice(al) for _ in range(rng.randint(0, hi)))
        xs = [rs(10) for _ in range(m)]
        if m >= 2 and rng.random() < 0.5:                       # equal strings inside the collection
            ctx.count('session_duplicates_in_A')
            for _ in range(rng.randint(1, 3)):
                xs[rng.randrange(m)] = xs[rng.randrange(m)]
        ys = []
        for _ in range(mb):
            r = rng.random()
            ys.append(rng.choice(xs) if xs and r < 0.35 else (gens.mutate(rng, rng.choice(xs), al, rng.randint(1, 3)) if xs and r < 0.7 else rs(9)))
        kx, ky = rng.choice(MUTABLE_KINDS), rng.choice(MUTABLE_KINDS)
        versions = [(list(xs), list(ys), 'initial')]
        for _ in range(rng.randint(1, 3)):
            x2, y2 = list(versions[-1][0]), list(versions[-1][1])
            side = rng.choice('AAAB') if x2 else 'B'
            tgt, kind = (x2, kx) if side == 'A' else (y2, ky)
            how = rng.choice(['replace', 'replace', 'swap', 'reverse', 'rotate'] + (['append', 'pop', 'insert_front'] if kind in ('list', 'deque') else []))
            if how == 'replace' and tgt:
                k = rng.randrange(len(tgt))
                tgt[k] = gens.mutate(rng, tgt[k], al, rng.randint(1, 3))
            elif how == 'swap' and len(tgt) >= 2:
                i, j = rng.sample(range(len(tgt)), 2)
                tgt[i], tgt[j] = tgt[j], tgt[i]
            elif how == 'reverse':
                tgt.reverse()
            elif how == 'rotate' and tgt:
                tgt.append(tgt.pop(0))
            elif how == 'append':
                tgt.append(rs(9))
            elif how == 'pop' and tgt:
                tgt.pop()
            elif how == 'insert_front':
                tgt.insert(0, rs(9))
            ctx.count('session_inplace_' + how)
            versions.append((x2, y2, '%s of %s in place' % (how, side)))
        ws = list(dict.fromkeys(draw_weights(rng) for _ in range(rng.randint(2, 3))))
        if rng.random() < 0.3 and ws[0] != (ws[0][1], ws[0][0], ws[0][2]):
            ws.append((ws[0][1], ws[0][0], ws[0][2]))
            ws = list(dict.fromkeys(ws))
        steps = []
        ops = (['m_cdist', 'm_cdist_swapped', 'm_cdist_self_same', 'm_cdist_self_copy', 'm_pdist', 'm_pdist'] +
               ['h_pdist_default', 'h_cdist_default', 'h_cdist_default_self_same', 'h_pdist_callable', 'h_cdist_callable',
                'h_cdist_callable_self_same', 'h_cdist_callable_self_copy', 'h_cdist_callable_swapped'])
        # the "anchor": one call (same metric object / callable, same container OBJECTS) made in every version of the collections, so that
        # whatever an object or the module remembers about its last arguments (their identity, length, first element ...) is stale at the next one
        anchor = dict(op=rng.choice(['m_pdist', 'm_pdist', 'm_cdist', 'm_cdist_self_same', 'h_pdist_default', 'h_pdist_callable', 'h_cdist_callable',
                                     'h_cdist_default', 'h_cdist_callable_self_same']), k=rng.randrange(len(ws)), c=rng.randrange(2), persistent=True)
        ctx.count('session_anchor=' + anchor['op'])
        for v in range(len(versions)):
            here = [dict(v=v, op=rng.choice(ops), k=rng.randrange(len(ws)), c=rng.randrange(2), persistent=rng.random() < 0.7) for _ in range(rng.randint(1, 4))]
            if rng.random() < 0.5:
                here.append(dict(here[0]))                          # the same call again after the others
            here.insert(rng.choice([0, 0, len(here)]), dict(anchor, v=v))
            if rng.random() < 0.3:
                here.append(dict(anchor, v=v))
            steps += here
        base = len(reqs)
        for v, (vx, vy, _) in enumerate(versions):
            for w in ws:
                reqs += [('api_cdist_wlev', [w[0], w[1], w[2], vx, vy]), ('api_cdist_wlev', [w[0], w[1], w[2], vy, vx]),
                         ('api_cdist_wlev', [w[0], w[1], w[2], vx, vx]), ('api_pdist_wlev', [w[0], w[1], w[2], vx])]
        plans.append(dict(al=al, versions=versions, kx=kx, ky=ky, ws=ws, steps=steps, base=base))
    outs = ctx.oracle.run_parallel(reqs, nproc=12)
    for sno, P in enumerate(plans):
        versions, ws, kx, ky = P['versions'], P['ws'], P['kx'], P['ky']
        objs = [build_metric(rng, w, Lev, WLev, ctx) for w in ws]
        universe = sorted(set(s for vx, vy, _ in versions for s in vx + vy))
        ident = {s: i for i, s in enumerate(universe)}
        cals = [make_callable(rng, ident) for _ in range(2)]
        (cx, dx), (cy, dy) = cont(rng, kx, versions[0][0]), cont(rng, ky, versions[0][1])
        cur, history = 0, []
        nt = len(versions[0][0]) >= 2 and len(set(versions[0][0])) >= 2
        ctx.case(sample=dict(session=[s['op'] for s in P['steps']], metrics=[d for _, d in objs], A=versions[0][0][:4], B=versions[0][1][:4],
                             in_place=[v[2] for v in versions[1:]]) if nt and sno % 12 == 1 else None,
                 nontrivial_key=('session', tuple(versions[0][0]), tuple(versions[0][1]), tuple(ws), tuple(s['op'] for s in P['steps'])) if nt else None)
        for st in P['steps']:
            while cur < st['v']:
                cur += 1
                refill(cx, kx, versions[cur][0])
                refill(cy, ky, versions[cur][1])
                history.append('<%s>' % versions[cur][2])
            xs, ys, _ = versions[cur]
            w, (metric, spelling) = ws[st['k']], objs[st['k']]
            o = P['base'] + 4 * (cur * len(ws) + st['k'])
            cd_xy, cd_yx, cd_xx, pd_x = outs[o], outs[o + 1], outs[o + 2], outs[o + 3]
            op = st['op']
            ctx.count('session_op=' + op)

            def arg(which):
                """the persistent container of that side, or a fresh one of any kind"""
                data, pc, pk, pdsc = (xs, cx, kx, dx) if which == 'A' else (ys, cy, ky, dy)
                if st['persistent']:
                    return pc, 'persistent ' + pk
                knd = rng.choice(SIZED_KINDS)
                return cont(rng, knd, data)[0], knd
            exact = False
            if op.startswith('m_'):
                label = spelling
                if op == 'm_cdist':
                    (a, da), (b, db) = arg('A'), arg('B')
                    g, exp, call = call_impl(metric.calc_cdist_matrix, a, b), _arr(cd_xy, (len(xs), len(ys))), 'calc_cdist_matrix(A as %s, B as %s)' % (da, db)
                elif op == 'm_cdist_swapped':
                    (a, da), (b, db) = arg('A'), arg('B')
                    g, exp, call = call_impl(metric.calc_cdist_matrix, b, a), _arr(cd_yx, (len(ys), len(xs))), 'calc_cdist_matrix(B as %s, A as %s)' % (db, da)
                elif op == 'm_cdist_self_same':
                    a, da = arg('A')
                    g, exp, call = call_impl(metric.calc_cdist_matrix, a, a), _arr(cd_xx, (len(xs), len(xs))), 'calc_cdist_matrix(A, A) with the same %s object twice' % da
                elif op == 'm_cdist_self_copy':
                    a, da = arg('A')
                    k2 = rng.choice(SIZED_KINDS)
                    g, exp, call = (call_impl(metric.calc_cdist_matrix, a, cont(rng, k2, xs)[0]), _arr(cd_xx, (len(xs), len(xs))),
                                    'calc_cdist_matrix(A as %s, an equal copy of A as %s)' % (da, k2))
                else:
                    a, da = arg('A')
                    g, exp, call = call_impl(metric.calc_pdist_vector, a), _arr(pd_x, (len(pd_x),)), 'calc_pdist_vector(A as %s)' % da
                    if g[0] == 'ok' and len(xs) >= 2 and _diff(g, exp) is None:
                        # "a valid input for linkage / squareform": both accept it and squareform puts entry (i, j) back
                        v = np.asarray(g[1])
                        lk = call_impl(lambda: (ssd.is_valid_y(v.astype(np.float64)), hc.linkage(v, 'single').shape, ssd.squareform(v)))
                        ctx.count('linkage_squareform_accept')
                        if lk[0] != 'ok' or not lk[1][0] or lk[1][1] != (len(xs) - 1, 4) or \
                                not np.array_equal(np.triu(lk[1][2], 1), np.triu(_arr(cd_xx, (len(xs), len(xs))), 1)):
                            ctx.violation('property', '%s.calc_pdist_vector(%s) = %s is not accepted by scipy linkage / squareform as the condensed matrix: %s' %
                                          (label, xs, v.tolist(), str(lk)[:200]), dict(X=xs, weights=w, constructor=spelling), site='metric.calc_pdist_vector')
                site = 'metric.calc_pdist_vector' if op == 'm_pdist' else 'metric.calc_cdist_matrix'
                kwshow, dtshow = None, None
            else:
                use_default = 'default' in op
                if use_default:
                    kw = {} if (w == (1, 1, 1) and rng.random() < 0.5) else dict(weights=w)
                    mname = rng.choice(['omitted', 'None', 'python-Levenshtein distance', 'rapidfuzz Levenshtein.distance'])
                    mfun = {'omitted': None, 'None': None, 'python-Levenshtein distance': PL.distance, 'rapidfuzz Levenshtein.distance': RL.distance}[mname]
                    label = 'default metric (%s)' % mname if mfun is None else mname
                    tables = dict(pdist=_arr(pd_x, (len(pd_x),)), cdist=_arr(cd_xy, (len(xs), len(ys))), self=_arr(cd_xx, (len(xs), len(xs))),
                                  swapped=_arr(cd_yx, (len(ys), len(xs))))
                    top = max([0] + [int(t.max()) for t in tables.values() if t.size])
                    dts = [np.uint16, np.int64, np.float64, np.dtype('int32'), float] if top > 255 else \
                        [None, None, np.uint8, np.int32, np.int64, np.float64, np.dtype('uint8'), int]
                else:
                    mfun, vt, dts, cdesc = cals[st['c']]
                    kw = draw_kwargs(rng)
                    label, exact = 'callable #%d (%s)' % (st['c'], cdesc), vt == 'bigint'

                    def table(R, C, pairs=None):
                        if pairs is not None:
                            vals = [mfun(R[i], R[j], **kw) for i in range(len(R)) for j in range(i + 1, len(R))]
                            return np.array(vals, dtype=object if exact else np.float64).reshape(len(vals))
                        return np.array([[mfun(a_, b_, **kw) for b_ in C] for a_ in R], dtype=object if exact else np.float64).reshape(len(R), len(C))
                    tables = dict(pdist=table(xs, None, True), cdist=table(xs, ys), self=table(xs, xs), swapped=table(ys, xs))
                dtype = rng.choice(dts)
                kwshow, dtshow = dict(kw), getattr(dtype, '__name__', str(dtype))
                extra = dict(kw)
                if dtype is not None:
                    extra['dtype'] = dtype
                if mfun is not None or (use_default and mname == 'None'):
                    extra['metric'] = mfun
                fp, fc = rng.choice([(ds.pdist, ds.cdist), (pkg.pdist, pkg.cdist)])
                if op.startswith('h_pdist'):
                    a, da = arg('A')
                    g, exp, call, site = call_impl(lambda: fp(a, **extra)), tables['pdist'], 'pdist(A as %s' % da, 'distance.pdist'
                elif op.endswith('self_same'):
                    a, da = arg('A')
                    g, exp, call, site = call_impl(lambda: fc(a, a, **extra)), tables['self'], 'cdist(A, A: the same %s object twice' % da, 'distance.cdist'
                elif op.endswith('self_copy'):
                    a, da = arg('A')
                    k2 = rng.choice(SIZED_KINDS + ONESHOT_KINDS)
                    g, exp, call, site = (call_impl(lambda: fc(a, cont(rng, k2, xs)[0], **extra)), tables['self'],
                                          'cdist(A as %s, an equal copy of A as %s' % (da, k2), 'distance.cdist')
                elif op.endswith('swapped'):
                    (a, da), (b, db) = arg('A'), arg('B')
                    g, exp, call, site = call_impl(lambda: fc(b, a, **extra)), tables['swapped'], 'cdist(B as %s, A as %s' % (db, da), 'distance.cdist'
                else:
                    (a, da), (b, db) = arg('A'), arg('B')
                    g, exp, call, site = call_impl(lambda: fc(a, b, **extra)), tables['cdist'], 'cdist(A as %s, B as %s' % (da, db), 'distance.cdist'
                call += ', metric=%s, dtype=%s, **%s)' % (label, dtshow, kwshow)
                if use_default:
                    site += '[default metric]'
                ctx.count('helper_metric_kind=' + (label if use_default else cdesc.split(' returning ')[0]))
                if not use_default:
                    ctx.count('helper_value_type=' + vt)
                    if any(k_ in kw and kw[k_] == FALSY[k_] for k_ in FALSY):
                        ctx.count('helper_kwargs_with_falsy_value')
            d = _diff(g, exp, exact)
            if d is not None:
                what = ('optimal alignment costs with weights %s' % (w,)) if (op.startswith('m_') or 'default' in op) else 'values metric(u, v, **kwargs) of the callable'
                ctx.violation('property', '%s: %s  %s; A = %s, B = %s; expected the %s: %s; got %s; earlier in this session (same container objects, refilled in place where '
                              'marked <>): %s' % (label if op.startswith('m_') else 'helper', call, d, _show(xs), _show(ys), what, str(exp.tolist())[:200], str(g)[:200],
                                                  history or 'none'),
                              dict(A=xs, B=ys, weights=w, constructor=spelling if op.startswith('m_') else None, call=call, kwargs=str(kwshow), dtype=dtshow,
                                   containerA=dx if st['persistent'] else 'fresh', containerB=dy if st['persistent'] else 'fresh',
                                   earlier_calls=list(history), expected=str(exp.tolist())[:2000], difference=d), site=site)
            history.append('%s %s' % (label.split(' returning ')[0] if not op.startswith('m_') else spelling, call.split('(')[0] + ('' if op.startswith('m_') else '[%s]' % op)))
            if len(ctx.violations) > 6:
                return


def part_large(ctx, env):
    """(e) collections of 13 .. 2**15+ strings (a few distinct strings at many positions, so that the model stays cheap): sizes around
    64 / 128 / 256 / 1000 / 1024 and one cdist with more than 2**15 rows; expected = the model's matrix of the distinct strings, looked up."""
    rng, ds = ctx.rng, env['ds']
    Lev, WLev = env['Levenshtein'], env['WeightedLevenshtein']
    if ctx.quick:
        sizes = [rng.randint(13, 40), rng.choice([63, 64, 65, 100, 127, 128, 129]), rng.choice([255, 256, 257]), rng.choice([1000, 1024, 1025]), 2 ** 15 + rng.randint(0, 3)]
    else:
        sizes = [rng.randint(13, 60) for _ in range(12)] + [63, 64, 65, 100, 127, 128, 129, 200, 255, 256, 257, 300, 511, 512, 513, 1000, 1024, 1025, 2000] + \
                [2 ** 15 - 1, 2 ** 15, 2 ** 15 + 1, 2 ** 16 + 1]
    plans, reqs = [], []
    for m in sizes:
        al = draw_alphabet(rng, ctx, 0.4)
        D = []
        for _ in range(200):
            s = ''.join(rng.choice(al) for _ in range(rng.randint(0, 9)))
            if s not in D:
                D.append(s)
            if len(D) >= rng.randint(3, 12):
                break
        w = draw_weights(rng)
        rows_only = m >= 2 ** 15 - 1
        mb = rng.choice([1, 2, 3]) if rows_only else rng.choice([1, 2, 7, m, m + 1] if m <= 300 else ([1, 3, 40] if ctx.quick else [1, 3, 40, m]))
        ix = [rng.randrange(len(D)) for _ in range(m)]
        iy = [rng.randrange(len(D)) for _ in range(mb)]
        reqs.append(('api_cdist_wlev', [w[0], w[1], w[2], D, D]))
        plans.append(dict(m=m, mb=mb, D=D, w=w, ix=ix, iy=iy, rows_only=rows_only))
    outs = ctx.oracle.run_parallel(reqs, nproc=4)
    for P, M in zip(plans, outs):
        D, w, ix, iy, m, mb = P['D'], P['w'], P['ix'], P['iy'], P['m'], P['mb']
        M = _arr(M, (len(D), len(D)))
        xs, ys = [D[i] for i in ix], [D[j] for j in iy]
        exp_cd = M[np.ix_(ix, iy)]
        ctx.count('large_collection_size=%s' % ('>=2**15-1 rows' if P['rows_only'] else ('13..60' if m <= 60 else ('61..300' if m <= 300 else '301..2000'))))
        ctx.case(nontrivial_key=('large', m, mb, tuple(D), w))
        metric, spelling = build_metric(rng, w, Lev, WLev)
        kinds = [k for k in SIZED_KINDS if k not in ('dict', 'dict_keys')]
        runs = []
        ka, kb = rng.choice(kinds), rng.choice(kinds)
        runs.append(('%s.calc_cdist_matrix(A as %s, B as %s)' % (spelling, ka, kb), 'metric.calc_cdist_matrix',
                     lambda: metric.calc_cdist_matrix(cont(rng, ka, xs)[0], cont(rng, kb, ys)[0]), exp_cd))
        kw = {} if w == (1, 1, 1) else dict(weights=w)
        kc, kd = rng.choice(kinds + ONESHOT_KINDS), rng.choice(kinds + ONESHOT_KINDS)
        runs.append(('cdist(A as %s, B as %s, dtype=int64, **%s)' % (kc, kd, kw), 'distance.cdist[default metric]',
                     lambda: ds.cdist(cont(rng, kc, xs)[0], cont(rng, kd, ys)[0], dtype=np.int64, **kw), exp_cd))
        # an injective callable on (string, string): positions of equal strings are interchangeable, everything else shows
        f = lambda a, b, shift=0: 1000 * D.index(str(a)) + D.index(str(b)) + shift                    # noqa: E731
        F = np.array([[f(a, b, shift=3) for b in D] for a in D], dtype=np.int64)
        runs.append(('cdist(A, B, metric=f, dtype=int64, shift=3) with f(a, b) = 1000*id(a)+id(b)+shift', 'distance.cdist',
                     lambda: ds.cdist(iter(xs), tuple(ys), f, np.int64, shift=3), F[np.ix_(ix, iy)]))
        if not P['rows_only']:
            exp_pd = condensed(M[np.ix_(ix, ix)])
            ke, kf = rng.choice(kinds), rng.choice(kinds + ONESHOT_KINDS)
            runs.append(('%s.calc_pdist_vector(A as %s)' % (spelling, ke), 'metric.calc_pdist_vector', lambda: metric.calc_pdist_vector(cont(rng, ke, xs)[0]), exp_pd))
            runs.append(('pdist(A as %s, dtype=int64, **%s)' % (kf, kw), 'distance.pdist[default metric]',
                         lambda: ds.pdist(cont(rng, kf, xs)[0], dtype=np.int64, **kw), exp_pd))
            runs.append(('pdist(A, metric=f, dtype=int64, shift=3) with f(a, b) = 1000*id(a)+id(b)+shift', 'distance.pdist',
                         lambda: ds.pdist(cont(rng, rng.choice(kinds), xs)[0], metric=f, dtype=np.int64, shift=3), condensed(F[np.ix_(ix, ix)])))
        for call, site, thunk, exp in runs:
            d = _diff(call_impl(thunk), exp)
            if d is not None:
                ctx.violation('property', '%s on a collection of %d strings (B: %d) drawn from the %d distinct strings %s, weights %s: %s; positions of A: %s..., of B: %s...' %
                              (call, m, mb, len(D), D, w, d, ix[:20], iy[:20]),
                              dict(distinct=D, positions_A=ix, positions_B=iy, weights=w, call=call, difference=d), site=site)
        if len(ctx.violations) > 6:
            return


def part_scaled(ctx, env):
    """(f) values far above 2**16 without long strings: weights c*(wi, wd, ws); by C08_scale the optimal cost is c times the model's cost
    for (wi, wd, ws).  Metric classes up to 2**24 (float32 storage of rapidfuzz for a weighted scorer, C08_bounded), helpers (int64) beyond 2**32."""
    rng, ds = ctx.rng, env['ds']
    plans, reqs = [], []
    for _ in range(16 if ctx.quick else 200):
        al = draw_alphabet(rng, ctx, 0.4)
        m, mb = rng.randint(2, 8), rng.randint(1, 5)
        xs = [''.join(rng.choice(al) for _ in range(rng.randint(0, 12))) for _ in range(m)]
        ys = [gens.mutate(rng, rng.choice(xs), al, rng.randint(0, 3)) if rng.random() < 0.5 else ''.join(rng.choice(al) for _ in range(rng.randint(0, 9))) for _ in range(mb)]
        w = draw_weights(rng)
        bound = max(w[1] * len(a) + w[0] * len(b) for a in xs + ys for b in xs + ys)
        cs = [c for c in (251, 1000, 4099, 60013) if c * bound < 2 ** 24]
        plans.append(dict(xs=xs, ys=ys, w=w, c=max(cs) if rng.random() < 0.6 else rng.choice(cs), chuge=rng.choice([2 ** 32 + 1, 10 ** 9 + 7, 3 * 10 ** 12])))
        reqs += [('api_cdist_wlev', [w[0], w[1], w[2], xs, ys]), ('api_pdist_wlev', [w[0], w[1], w[2], xs])]
    outs = ctx.oracle.run_parallel(reqs, nproc=4)
    for n, P in enumerate(plans):
        xs, ys, w, c = P['xs'], P['ys'], P['w'], P['c']
        cd, pd_ = _arr(outs[2 * n], (len(xs), len(ys))), _arr(outs[2 * n + 1], (len(outs[2 * n + 1]),))
        top = int(max([0] + cd.ravel().tolist() + pd_.tolist())) * c
        ctx.count('scaled_weights_top_value=%s' % ('>2**20' if top > 2 ** 20 else ('>65535' if top > 65535 else ('>255' if top > 255 else '<=255'))))
        ctx.case(nontrivial_key=('scaled', tuple(xs), tuple(ys), w, c) if top > 0 else None)
        wc = tuple(c * v for v in w)
        metric, spelling = build_metric(rng, wc, env['Levenshtein'], env['WeightedLevenshtein'])
        kinds = SIZED_KINDS
        runs = [('%s.calc_cdist_matrix' % spelling, 'metric.calc_cdist_matrix', lambda: metric.calc_cdist_matrix(cont(rng, rng.choice(kinds), xs)[0], cont(rng, rng.choice(kinds), ys)[0]), c * cd),
                ('%s.calc_pdist_vector' % spelling, 'metric.calc_pdist_vector', lambda: metric.calc_pdist_vector(cont(rng, rng.choice(kinds), xs)[0]), c * pd_)]
        dt = rng.choice([np.int64, np.uint32, np.float64, np.int32])
        runs += [('cdist(A, B, dtype=%s, weights=%s)' % (dt.__name__, wc), 'distance.cdist[default metric]', lambda: ds.cdist(xs, ys, dtype=dt, weights=wc), c * cd),
                 ('pdist(A, dtype=%s, weights=%s)' % (dt.__name__, wc), 'distance.pdist[default metric]', lambda: ds.pdist(xs, dtype=dt, weights=wc), c * pd_)]
        ch = P['chuge']
        wh = tuple(ch * v for v in w)
        runs += [('cdist(A, B, dtype=int64, weights=%s)' % (wh,), 'distance.cdist[default metric]', lambda: ds.cdist(xs, ys, None, np.int64, weights=wh), ch * cd),
                 ('pdist(A, dtype=int64, weights=%s)' % (wh,), 'distance.pdist[default metric]', lambda: ds.pdist(xs, None, np.int64, weights=wh), ch * pd_)]
        for call, site, thunk, exp in runs:
            d = _diff(call_impl(thunk), exp)                       # all values below 2**53: the float64 comparison is exact
            if d is not None:
                ctx.violation('property', '%s on A = %s, B = %s: %s; the weights are %d resp. %d times %s, so the optimal alignment costs are that multiple of the '
                              'model\'s costs %s / %s (C08_scale)' % (call, xs, ys, d, c, ch, w, cd.tolist(), pd_.tolist()),
                              dict(A=xs, B=ys, base_weights=w, factor=c, huge_factor=ch, call=call, difference=d), site=site)
        if len(ctx.violations) > 6:
            return


def part_long(ctx, env):
    """(g) long strings.  (g1) lengths around 64 / 128 / 256 against the model (exact).  (g2) one string of more than 65 535 code points:
    exact against the empty string and against itself (C08_empty_and_self), two-sided bound against short strings (C08_length_lower,
    C08_bounded) - a value wrapped modulo 2**16, clamped at 65 535 or computed on a truncated string meets neither."""
    rng, ds, RL = ctx.rng, env['ds'], env['RL']
    Lev, WLev = env['Levenshtein'], env['WeightedLevenshtein']
    # ---- (g1)
    bs = [rng.choice([64, 128, 256])] if ctx.quick else [64, 128, 256]
    for b in bs:
        def rnd(al, n):
            return ''.join(rng.choice(al) for _ in range(n))
        v = rnd('AC', b)
        xs = [rnd('AC', b - 1), v, rnd('GT', b), rnd('GT', b + 1), '', gens.mutate(rng, v, 'AC', 2), rnd('GT', 3)]
        rng.shuffle(xs)
        w = (1, 1, 1) if b > 64 or rng.random() < 0.5 else draw_weights(rng)
        prs = [(i, j) for i in range(len(xs)) for j in range(i + 1, len(xs))]
        outs = ctx.oracle.run_parallel([('api_wlev', [w[0], w[1], w[2], xs[i], xs[j]]) for i, j in prs], nproc=4)
        sq = np.zeros((len(xs), len(xs)), dtype=np.int64)
        for (i, j), o in zip(prs, outs):
            sq[i, j] = o
        ctx.count('boundary_length=%d' % b)
        ctx.case(nontrivial_key=('boundary', b, tuple(xs), w))
        metric, spelling = build_metric(rng, w, Lev, WLev)
        k = rng.randint(1, len(xs) - 1)
        kw = {} if w == (1, 1, 1) else dict(weights=w)
        kinds = SIZED_KINDS
        runs = [('%s.calc_pdist_vector' % spelling, 'metric.calc_pdist_vector', lambda: metric.calc_pdist_vector(cont(rng, rng.choice(kinds), xs)[0]), condensed(sq)),
                ('%s.calc_cdist_matrix(X[:%d], X[%d:])' % (spelling, k, k), 'metric.calc_cdist_matrix',
                 lambda: metric.calc_cdist_matrix(cont(rng, rng.choice(kinds), xs[:k])[0], cont(rng, rng.choice(kinds), xs[k:])[0]), sq[:k, k:]),
                ('pdist(X, dtype=int64, **%s)' % kw, 'distance.pdist[default metric]', lambda: ds.pdist(cont(rng, rng.choice(kinds), xs)[0], dtype=np.int64, **kw), condensed(sq)),
                ('cdist(X[:%d], X[%d:], dtype=uint16, **%s)' % (k, k, kw), 'distance.cdist[default metric]',
                 lambda: ds.cdist(xs[:k], xs[k:], dtype=np.uint16, **kw), sq[:k, k:])]
        for call, site, thunk, exp in runs:
            d = _diff(call_impl(thunk), exp)
            if d is not None:
                ctx.violation('property', '%s on strings of lengths %s (weights %s): %s; X = %s' % (call, [len(x) for x in xs], w, d, _show(xs)),
                              dict(X=xs, weights=w, call=call, difference=d), site=site)
    # ---- (g2)
    Ls = [65535 + rng.choice([1, 2]), 2 ** 17 + rng.choice([1, 2, 3])] if ctx.quick else [65535, 65536, 65537, 70001, 2 ** 17 - 1, 2 ** 17 + 1, 2 ** 18 + 5]
    longs = {}
    for L, unit in [(L_, u_) for L_ in Ls for u_ in (True, False)]:
        if L not in longs:
            al = rng.choice(['ACGT', gens.AA, WIDE_ALPHABETS['mixed_width'], WIDE_ALPHABETS['same_low_bits']])
            longs[L] = (al, ''.join(rng.choices(al, k=L)))
        al, x = longs[L]
        shorts = [''.join(rng.choice(al) for _ in range(rng.randint(1, 9))) for _ in range(3)]
        # (the unit-weight scorer of rapidfuzz.process.cdist runs the full bit-parallel pass on a pair of equal strings: L*L/64 word
        # operations; above 2**17 the long string therefore occurs once, and only on one side)
        xs = [x, '', shorts[0], x, shorts[1]] if L <= 70001 else [x, '', shorts[0], shorts[1]]
        rng.shuffle(xs)
        ys = ['', x, shorts[2]] if L <= 70001 else ['', shorts[2]]
        rng.shuffle(ys)
        w = (1, 1, 1) if unit else rng.choice(SPECIAL_WEIGHTS + [tuple(rng.choice(W_ALL) for _ in range(3))])
        ctx.count('very_long_string_length=%s%s' % ('65535..65537' if L <= 65537 else '>=70001', ', unit weights' if unit else ', weighted'))
        ctx.count('very_long_string_length>2**17', int(L > 2 ** 17))
        ctx.case(nontrivial_key=('very_long', L, w, tuple(shorts)))
        sh = sorted(set(shorts))
        small = _arr(ctx.oracle.run([('api_cdist_wlev', [w[0], w[1], w[2], sh, sh])])[0], (len(sh), len(sh)))

        def bounds(a, b):
            """(lo, hi): equal where a theorem gives the value, else the two-sided bound"""
            if a == b:
                return 0, 0
            if a == '':
                return w[0] * len(b), w[0] * len(b)
            if b == '':
                return w[1] * len(a), w[1] * len(a)
            if len(a) < 20 and len(b) < 20:
                v = int(small[sh.index(a), sh.index(b)])
                return v, v
            return max(w[1] * (len(a) - len(b)), w[0] * (len(b) - len(a)), 0), w[1] * len(a) + w[0] * len(b)
        metric, spelling = build_metric(rng, w, Lev, WLev)
        kw = {} if w == (1, 1, 1) else dict(weights=w)
        kinds = [k_ for k_ in SIZED_KINDS if k_ not in ('dict', 'dict_keys')]
        prs = [(a, b) for i, a in enumerate(xs) for b in xs[i + 1:]]
        runs = [('%s.calc_cdist_matrix(A, B)' % spelling, 'metric.calc_cdist_matrix',
                 lambda: metric.calc_cdist_matrix(cont(rng, rng.choice(kinds), xs)[0], cont(rng, rng.choice(kinds), ys)[0]), [(a, b) for a in xs for b in ys], (len(xs), len(ys))),
                ('%s.calc_pdist_vector(A)' % spelling, 'metric.calc_pdist_vector', lambda: metric.calc_pdist_vector(cont(rng, rng.choice(kinds), xs)[0]), prs, (len(prs),)),
                ('cdist(A, B, dtype=int64, **%s)' % kw, 'distance.cdist[default metric]',
                 lambda: ds.cdist(cont(rng, rng.choice(kinds), xs)[0], cont(rng, rng.choice(kinds), ys)[0], dtype=np.int64, **kw), [(a, b) for a in xs for b in ys], (len(xs), len(ys))),
                ('pdist(A, dtype=float64, **%s)' % kw, 'distance.pdist[default metric]', lambda: ds.pdist(cont(rng, rng.choice(kinds), xs)[0], dtype=np.float64, **kw), prs, (len(prs),)),
                ('pdist(A, metric=rapidfuzz Levenshtein.distance, dtype=uint32, **%s)' % kw, 'distance.pdist',
                 lambda: ds.pdist(xs, RL.distance, np.uint32, **kw), prs, (len(prs),))]
        for call, site, thunk, pairs, shape in runs:
            g = call_impl(thunk)
            bad = None
            if g[0] != 'ok' or np.asarray(g[1]).shape != shape:
                bad = 'returned %s, expected an array of shape %s' % (str(g)[:100], shape)
            else:
                for (a, b), val in zip(pairs, np.asarray(g[1]).astype(np.float64).ravel().tolist()):
                    lo, hi = bounds(a, b)
                    if not (lo <= val <= hi and val == int(val)):
                        bad = 'd(%s -> %s) = %s, but the optimal alignment cost is %s' % (_show([a])[0] or "''", _show([b])[0] or "''", val,
                                                                                            lo if lo == hi else 'between %d and %d' % (lo, hi))
                        break
            if bad is not None:
                ctx.violation('property', '%s with one string of %d code points, weights %s: %s; A = %s, B = %s' % (call, L, w, bad, _show(xs), _show(ys)),
                              dict(long_length=L, alphabet=al, A=_show(xs, 40), B=_show(ys, 40), weights=w, call=call, difference=bad), site=site)
        if len(ctx.violations) > 6:
            return



def part_reuse(ctx, env):
    """(h) a metric OBJECT the caller keeps: after other library calls that took it as an argument - pcDelta with explicit and with default bins,
    also a pcDelta call that RAISED half-way (a None among the sequences) - its matrices are still the true weighted edit distances, also
    beyond 24 (the last default bin edge of pcDelta) (seeded change C08-r8m3: a cut-off set on the caller's metric and not taken back)."""
    rng, ds = ctx.rng, env['ds']
    plans, reqs = [], []
    for t in range(6 if ctx.quick else 60):
        w = (1, 1, 1) if t % 2 == 0 else draw_weights(rng)
        xs = [''.join(rng.choice('ACD') for _ in range(rng.randint(0, 6))) for _ in range(4)] + ['A' * rng.randint(30, 45), 'C' * rng.randint(30, 45)]
        ys = ['D' * rng.randint(28, 50), '', 'ACD', 'A' * 33]
        rng.shuffle(xs)
        plans.append(dict(xs=xs, ys=ys, w=w))
        reqs += [('api_cdist_wlev', [w[0], w[1], w[2], xs, ys]), ('api_pdist_wlev', [w[0], w[1], w[2], xs])]
    outs = ctx.oracle.run_parallel(reqs, nproc=4)
    for n, P in enumerate(plans):
        xs, ys, w = P['xs'], P['ys'], P['w']
        cd, pd_ = _arr(outs[2 * n], (len(xs), len(ys))), _arr(outs[2 * n + 1], (len(outs[2 * n + 1]),))
        metric = env['Levenshtein']() if (w == (1, 1, 1) and n % 4 == 0) else env['WeightedLevenshtein'](*w)
        before = [('pcDelta(A, metric=m)', lambda: ds.pcDelta(list(xs), metric=metric)),
                  ('pcDelta(A, B, metric=m, bins=range(5))', lambda: ds.pcDelta(list(xs), list(ys), metric=metric, bins=np.arange(5))),
                  ('pcDelta(A + [None], metric=m) [raises]', lambda: ds.pcDelta(list(xs) + [None], metric=metric)),
                  ('pcDelta(A, [None, 3], metric=m) [raises]', lambda: ds.pcDelta(list(xs), [None, 3], metric=metric))]
        rng.shuffle(before)
        done = []
        for name, thunk in before[:rng.randint(1, 4)]:
            call_impl(thunk)
            done.append(name)
        ctx.count('metric object reused after %d other calls' % len(done))
        if any('raises' in d for d in done):
            ctx.count('metric object reused after a call that raised')
        ctx.case(nontrivial_key=('reuse', tuple(xs), tuple(ys), w, tuple(done)))
        for call, site, thunk, exp in (('m.calc_cdist_matrix(A, B)', 'metric.calc_cdist_matrix', lambda: metric.calc_cdist_matrix(list(xs), list(ys)), cd),
                                       ('m.calc_pdist_vector(A)', 'metric.calc_pdist_vector', lambda: metric.calc_pdist_vector(list(xs)), pd_)):
            d = _diff(call_impl(thunk), exp)
            if d is not None:
                ctx.violation('property', '%s with m = %s%s AFTER %s on A = %s, B = %s: %s' % (call, type(metric).__name__, w, done, xs, ys, d),
                              dict(A=xs, B=ys, weights=w, after=done, call=call, difference=d), site=site)
        if len(ctx.violations) > 6:
            return


def run_balanced(ctx, reqs, nproc):
    """ctx.oracle.run_parallel with the requests dealt out by decreasing cost (the model's cost grows with the product of the string
    lengths and, on unary nat, with the values): the few long collections no longer end up in one chunk.  Same requests, same answers."""
    def cost(r):
        name, args = r
        size = [float(len(a)) if isinstance(a, str) else sum(len(x) for x in a) for a in args if isinstance(a, (list, str))]
        return size[0] * size[-1] * max([a for a in args if isinstance(a, int)] + [1]) if size else 0
    order = sorted(range(len(reqs)), key=lambda k: -cost(reqs[k]))
    got = ctx.oracle.run_parallel([reqs[k] for k in order], nproc=nproc)
    outs = [None] * len(reqs)
    for k, o in zip(order, got):
        outs[k] = o
    return outs


def run(ctx):
    import pyrepseq.distance as ds
    from pyrepseq.metric import Levenshtein, WeightedLevenshtein
    from rapidfuzz.distance import Levenshtein as RL, Hamming as RH
    import Levenshtein as PL
    import scipy.spatial.distance as ssd
    rng = ctx.rng
    ctx.rule = ('(a) foundation tie: rapidfuzz Levenshtein.distance (plain / weights / score_cutoff), Hamming.distance, python-Levenshtein '
                'distance (plain / weights / score_cutoff) against the proved DP for ALL pairs of strings of length <= L on 2 letters and '
                '<= L-2 on 3 letters, plus random pairs of length 0..400 on 1-, 2-, 4-, 20-, 1000-letter alphabets incl. non-BMP code points; '
                '(b) Levenshtein / WeightedLevenshtein calc_cdist_matrix and calc_pdist_vector on collections of 0..12 strings over ASCII and non-ASCII alphabets '
                '(accented Latin with combining marks, Greek / Cyrillic, CJK, emoji / non-BMP, mixed UTF-8 widths, code points equal modulo 256 / 65536, whitespace); every '
                'collection is evaluated by SEVERAL metric objects (fresh and re-used ones, different weight triples incl. the ins/del swap, '
                'asymmetric triples from {1,2,3,5,7,11}) in shuffled order with repeats, followed by permuted / edited variants of the same '
                'collection, each call with its own container (list / tuple / ndarray object+str / Series with default, shifted, permuted, '
                'gapped, string, repeated index / pandas Index / deque); (c) functional pdist / cdist, for every container above plus '
                'iterator / generator on either argument: metric callables that encode their two arguments injectively and take extra '
                'keyword arguments, and the DEFAULT metric with the keyword arguments its scorer accepts (weights, score_cutoff, score_hint, '
                'processor) against api_pdist_wlev / api_cdist_wlev; (d) sessions: one pair of collections held in container OBJECTS that are re-used and '
                'refilled in place between the calls, evaluated in random order by metric objects built through every constructor spelling (keywords, '
                'partial defaults, NumPy integers; weight triples in which only some weights differ from 1) - calc_cdist_matrix(A, B) / (B, A) / (A, A) with the '
                'same object or an equal copy, calc_pdist_vector (+ scipy linkage / squareform / is_valid_y accept it) - and by pdist / cdist (module and package '
                'level names) with the default metric, the rapidfuzz / python-Levenshtein C functions and callables of every kind (function, lambda, partial, bound '
                'method, callable object, falsy callable object) returning int / float / negative / above-2**53 values, with keyword arguments that are falsy; '
                '(e) collections of 13 .. 2**16+1 strings (sizes around 64 / 128 / 256 / 512 / 1000 / 1024, more than 2**15 rows); (f) weights c*(wi, wd, ws) with '
                'values up to 2**24 (classes) and beyond 2**32 (helpers), expected c * model (C08_scale); (g) strings of 63..257 code points (exact) and of more than '
                '65 535 / 2**17 code points (exact against the empty string and itself: C08_empty_and_self; two-sided bound otherwise: C08_length_lower, C08_bounded); '
                'pandas string / category dtypes, NumPy StringDType, strided / reversed views and dict views as containers everywhere. '
                'non-trivial := distance > 0 and (weights asymmetric or lengths differ)')
    L = 4 if ctx.quick else 6
    univ = all_strings('AC', L) + all_strings('ACD', L - 2)
    pairs = list(itertools.product(univ, univ))
    if ctx.quick:
        pairs = rng.sample(pairs, 1500)
    ctx.exhaustive = not ctx.quick
    alphas = ASCII_ALPHABETS + [''.join(chr(0x4e00 + i) for i in range(1000)), 'A\U0001F600\U00010348é'] + [WIDE_ALPHABETS[k] for k in sorted(WIDE_ALPHABETS)]
    for _ in range(60 if ctx.quick else 600):
        al = rng.choice(alphas)
        n1, n2 = rng.choice([0, 1, 5, 30, 120, 400]), rng.choice([0, 1, 5, 30, 120, 400])
        a = ''.join(rng.choice(al) for _ in range(n1))
        b = gens.mutate(rng, a, al, rng.randint(0, 30)) if rng.random() < 0.5 else ''.join(rng.choice(al) for _ in range(n2))
        pairs.append((a, b))
    border = [63, 64, 65, 127, 128, 129, 255, 256, 257]      # word-size borders of the bit-parallel implementations, 8-bit borders of the values
    for _ in range(6 if ctx.quick else 60):
        al = rng.choice(alphas)
        a = ''.join(rng.choice(al) for _ in range(rng.choice(border)))
        b = gens.mutate(rng, a, al, rng.randint(0, 5)) if rng.random() < 0.5 else ''.join(rng.choice(rng.choice([al, 'xy'])) for _ in range(rng.choice(border)))
        ctx.count('foundation_border_length_pair')
        pairs.append((a, b))
    W = [1, 2, 3, 5, 7, 11]
    reqs, meta = [], []
    for a, b in pairs:
        w = (1, 1, 1) if (len(a) > 150 or len(b) > 150 or rng.random() < 0.4) else tuple(rng.choice(W) for _ in range(3))
        reqs.append(('api_wlev', [w[0], w[1], w[2], a, b]))
        meta.append(w)
    outs = run_balanced(ctx, reqs, nproc=12)
    hreq = [('api_ham', [a, b]) for a, b in pairs[:400]]
    houts = ctx.oracle.run_parallel(hreq)
    for n, ((a, b), w, o) in enumerate(zip(pairs, meta, outs)):
        nt = o > 0 and (len(set(w)) > 1 or len(a) != len(b))
        ctx.case(sample=dict(a=a[:20], b=b[:20], weights=w, model=o) if nt and n % 400 == 0 else None,
                 nontrivial_key=('wlev', a, b, w) if nt else None)
        ctx.count('len<=6' if max(len(a), len(b)) <= 6 else ('len<=150' if max(len(a), len(b)) <= 150 else 'len>150'))
        vals, aux = {}, {}
        c = rng.randint(0, 6) if w == (1, 1, 1) else rng.randint(0, 40)
        clamp = o if o <= c else c + 1
        if w == (1, 1, 1):
            vals['rapidfuzz'] = call_impl(RL.distance, a, b)
            vals['python-Levenshtein'] = call_impl(PL.distance, a, b)
            vals['rapidfuzz[cutoff=%d]' % c] = call_impl(lambda: (lambda v: v if v <= c else o)(RL.distance(a, b, score_cutoff=c)))
            aux['python-Levenshtein[score_cutoff=%d]' % c] = call_impl(PL.distance, a, b, score_cutoff=c)
        else:
            vals['rapidfuzz[weights]'] = call_impl(RL.distance, a, b, weights=w)
            vals['python-Levenshtein[weights]'] = call_impl(PL.distance, a, b, weights=w)
            aux['python-Levenshtein[weights,score_cutoff=%d]' % c] = call_impl(PL.distance, a, b, weights=w, score_cutoff=c)
        for name, g in vals.items():
            if g[0] != 'ok' or int(g[1]) != o:
                ctx.violation('property', '%s distance(%r, %r, weights=%s) = %s but the optimal alignment cost is %d' % (name, a[:30], b[:30], w, g, o),
                              dict(a=a, b=b, weights=w, impl=str(g), expected=o), site='metric.foundation[%s]' % name.split('[')[0])
        for name, g in aux.items():
            # contract of the default scorer of the functional helpers: distances above score_cutoff are reported as score_cutoff + 1
            if g[0] != 'ok' or int(g[1]) != clamp:
                ctx.violation('correspondence', '%s distance(%r, %r, weights=%s) = %s, the documented clamp of the optimal cost %d is %d' %
                              (name, a[:30], b[:30], w, g, o, clamp), dict(a=a, b=b, weights=w, score_cutoff=c, impl=str(g), expected=clamp),
                              site='metric.foundation[python-Levenshtein.score_cutoff]')
        if n < 400:
            h = houts[n]
            if len(a) == len(b):
                g = call_impl(RH.distance, a, b)
                if g[0] != 'ok' or int(g[1]) != h:
                    ctx.violation('property', 'rapidfuzz Hamming.distance(%r, %r) = %s, expected %s' % (a, b, g, h), dict(a=a, b=b), site='metric.foundation[hamming]')
        if n % 60 == 0 and len(a) + len(b) < 20:
            ctx.add_vm('api_wlev', reqs[n][1], o)
        if len(ctx.violations) > 6:
            return

    # ------------------------------------------------------------------ (b) metric classes
    def extra_weights(w):
        """further weight triples for the same collection (cheap for the model: short strings only)"""
        out = []
        for _ in range(rng.randint(1, 3)):
            r = rng.random()
            if r < 0.3:
                out.append((1, 1, 1))
            elif r < 0.5:
                out.append((w[1], w[0], w[2]))            # insertion / deletion swapped
            elif r < 0.6:
                out.append(tuple(rng.sample(w, 3)))      # same multiset of weights
            else:
                out.append(tuple(rng.choice(W) for _ in range(3)))
        return out

    colls = []
    for _ in range(40 if ctx.quick else 500):
        m = rng.randint(0, 12)
        al = draw_alphabet(rng, ctx)
        big = rng.random() < 0.15
        mid = (not big) and rng.random() < 0.12       # weighted distances above 255 between strings shorter than 256 (a narrowed dtype shows)
        if mid:
            m = max(m, 3)
        xs = [''.join(rng.choice(al) for _ in range(rng.choice([300, 350, 400]) if big and i < 2 else
                                                    (rng.choice([120, 150, 200, 250]) if mid and i < 3 else rng.randint(0, 12)))) for i in range(m)]
        ys = [gens.mutate(rng, rng.choice(xs), al, rng.randint(0, 3)) if xs and rng.random() < 0.6 else ''.join(rng.choice(al) for _ in range(rng.randint(0, 9)))
              for _ in range(rng.randint(0, 8))]
        w = (1, 1, 1) if (big or (rng.random() < 0.4 and not mid)) else tuple(rng.choice(W) for _ in range(3))
        if mid and max(w) == 1:
            w = (2, 2, 3)
        tag = 'collection_long_weighted' if mid else ('collection_long_unit' if big else 'collection_short')
        ctx.count(tag)
        # the model is slow on long strings (unary nat): long collections get the unit weights as the only other triple
        ws = [w] + ([(1, 1, 1)] if (big or mid) else extra_weights(w))
        colls.append(dict(xs=xs, ys=ys, ws=ws, tag=tag, derived=None))
        if not (big or mid):
            # variants of the same collection right afterwards (same strings in another order / one string edited / other partner)
            for _ in range(rng.choice([0, 0, 1, 1, 2])):
                how = rng.choice(['permuted', 'edited', 'other_B', 'other_A', 'prefix'])
                xs2, ys2 = list(xs), list(ys)
                if how == 'permuted':
                    rng.shuffle(xs2)
                    rng.shuffle(ys2)
                elif how == 'edited' and xs2:
                    k = rng.randrange(len(xs2))
                    xs2[k] = gens.mutate(rng, xs2[k], al, rng.randint(1, 3))
                elif how == 'other_B':
                    ys2 = [''.join(rng.choice(al) for _ in range(rng.randint(0, 9))) for _ in range(len(ys))]
                elif how == 'other_A':
                    xs2 = [''.join(rng.choice(al) for _ in range(rng.randint(0, 12))) for _ in range(len(xs))]
                elif how == 'prefix':
                    xs2 = xs2[:rng.randint(0, len(xs2))]
                ctx.count('collection_variant_' + how)
                colls.append(dict(xs=xs2, ys=ys2, ws=list(ws) if rng.random() < 0.7 else [ws[0]] + extra_weights(ws[0]), tag=tag, derived=how))
    reqs, where = [], {}
    for n, c in enumerate(colls):
        for w in dict.fromkeys(c['ws']):
            if c['tag'] == 'collection_short':
                where[(n, w)] = (len(reqs), None)
                reqs += [('api_cdist_wlev', [w[0], w[1], w[2], c['xs'], c['ys']]), ('api_pdist_wlev', [w[0], w[1], w[2], c['xs']])]
            else:
                # long strings: one request per distinct pair (a single 250 x 250 weighted pair takes the model seconds; as one request per
                # collection the whole batch waited for the slowest collection); the tables are put together below in the order of the statement
                xs_, ys_ = c['xs'], c['ys']
                prs = list(dict.fromkeys([(a, b) for a in xs_ for b in ys_] + [(xs_[i], xs_[j]) for i in range(len(xs_)) for j in range(i + 1, len(xs_))]))
                where[(n, w)] = (len(reqs), prs)
                reqs += [('api_wlev', [w[0], w[1], w[2], a, b]) for a, b in prs]
    outs = run_balanced(ctx, reqs, nproc=12)
    tab = {}
    for (n, w), (k0, prs) in where.items():
        if prs is None:
            tab[(n, w)] = (outs[k0], outs[k0 + 1])
        else:
            dv = {pr: outs[k0 + k] for k, pr in enumerate(prs)}
            xs_, ys_ = colls[n]['xs'], colls[n]['ys']
            tab[(n, w)] = ([[dv[(a, b)] for b in ys_] for a in xs_], [dv[(xs_[i], xs_[j])] for i in range(len(xs_)) for j in range(i + 1, len(xs_))])

    pool = {}

    def get_metric(w):
        """a metric object with these weights: a re-used one (state carried over from other collections) or a fresh one"""
        if w in pool and rng.random() < 0.5:
            return pool[w]
        if w == (1, 1, 1):
            obj = rng.choice([Levenshtein, WeightedLevenshtein, lambda: WeightedLevenshtein(1, 1, 1)])()
        else:
            obj = WeightedLevenshtein(*w)
        pool[w] = obj
        return obj

    kinds_b = list(SIZED_KINDS)
    for n, c in enumerate(colls):
        xs, ys = c['xs'], c['ys']
        objs = [(w, get_metric(w)) for w in c['ws']]
        calls = [(k, op) for k in range(len(objs)) for op in ('pdist', 'cdist')]
        rng.shuffle(calls)
        calls += [rng.choice(calls) for _ in range(rng.randint(1, 3))]        # ... A B A: an earlier object again after the others
        cd0 = tab[(n, c['ws'][0])][0]
        nt = any(v > 0 for row in cd0 for v in row) and len(xs) >= 2
        ctx.case(sample=dict(metrics=['%s%s' % (type(o).__name__, w) for w, o in objs], A=[x[:10] for x in xs[:4]], B=[y[:10] for y in ys[:4]],
                             variant_of_previous=c['derived']) if nt and n % 20 == 0 else None,
                 nontrivial_key=('cdist', tuple(xs), tuple(ys), tuple(c['ws'])) if nt else None)
        ctx.count('metric_objects_per_collection=%d' % len(objs))
        history = []
        for k, op in calls:
            w, metric = objs[k]
            cd, pd_ = tab[(n, w)]
            label = '%s%s#%d' % (type(metric).__name__, w, k)
            kx, ky = rng.choice(kinds_b), rng.choice(kinds_b)
            ctx.count('container=' + kx)
            if op == 'cdist':
                (ca, da), (cb, db) = cont(rng, kx, xs), cont(rng, ky, ys)
                g = call_impl(metric.calc_cdist_matrix, ca, cb)
                if not _shape_eq(g, (len(xs), len(ys)), cd):
                    fd = _first_diff(g, xs, ys, cd)
                    ctx.violation('property', '%s%s.calc_cdist_matrix(%s, %s) differs from the optimal alignment costs on A=%s B=%s: %s (expected %s); earlier calls on '
                                  'this collection: %s' % ('' if fd is None else 'd(%r -> %r) = %s but the optimal alignment cost (one edit = one code point) is %s; in '
                                                           % (_show([fd['a']])[0], _show([fd['b']])[0], fd['got'], fd['expected']),
                                                           label, da, db, _show(xs), _show(ys), str(g)[:300], str(cd)[:200], history or 'none'),
                                  dict(A=xs, B=ys, weights=w, containerA=da, containerB=db, earlier_calls=list(history), variant_of_previous=c['derived'], first_difference=fd),
                                  site='metric.calc_cdist_matrix')
                history.append('%s.calc_cdist_matrix(%s, %s)' % (label, kx, ky))
            else:
                ca, da = cont(rng, kx, xs)
                g = call_impl(metric.calc_pdist_vector, ca)
                if not _shape_eq(g, (len(pd_),), pd_):
                    fd = None
                    if g[0] == 'ok' and np.asarray(g[1]).shape == (len(pd_),):
                        prs = [(i, j) for i in range(len(xs)) for j in range(i + 1, len(xs))]
                        for (i, j), u, v in zip(prs, np.asarray(g[1]).tolist(), pd_):
                            if float(u) != float(v):
                                fd = dict(i=i, j=j, a=xs[i], b=xs[j], got=float(u), expected=float(v))
                                break
                    ctx.violation('property', '%s%s.calc_pdist_vector(%s) is not the condensed upper triangle of the optimal alignment costs on %s: %s (expected %s); '
                                  'earlier calls on this collection: %s' % ('' if fd is None else 'entry for (i, j) = (%d, %d) is %s but d(%r -> %r) = %s (one edit = one code point); in '
                                                                           % (fd['i'], fd['j'], fd['got'], _show([fd['a']])[0], _show([fd['b']])[0], fd['expected']),
                                                                           label, da, _show(xs), str(g)[:300], str(pd_)[:200], history or 'none'),
                                  dict(X=xs, weights=w, container=da, earlier_calls=list(history), variant_of_previous=c['derived'], first_difference=fd),
                                  site='metric.calc_pdist_vector')
                if g[0] == 'ok' and len(xs) >= 2:
                    sq = call_impl(ssd.squareform, np.asarray(g[1]))
                    if sq[0] != 'ok' or np.asarray(sq[1]).shape != (len(xs), len(xs)):
                        ctx.violation('property', 'calc_pdist_vector output is not a valid squareform input', dict(X=xs), site='metric.calc_pdist_vector')
                history.append('%s.calc_pdist_vector(%s)' % (label, kx))
            if len(ctx.violations) > 6:
                return

    # ------------------------------------------------------------------ (c) functional helpers
    kinds_c = SIZED_KINDS + ONESHOT_KINDS

    def call_helper(fn, args, metric, dtype, kw):
        """the same call in one of its spellings (metric / dtype positional or by keyword or left out)"""
        style = rng.choice(['kw', 'pos', 'omit']) if metric is None and dtype is None else rng.choice(['kw', 'pos'])
        if style == 'omit':
            return call_impl(lambda: fn(*args, **kw))
        if style == 'pos' and dtype is not None:
            return call_impl(lambda: fn(*args, metric, dtype, **kw))
        extra = {} if dtype is None else dict(dtype=dtype)
        return call_impl(lambda: fn(*args, metric=metric, **extra, **kw))

    # (c1) injective metric callables: any index permutation / label lookup / dropped keyword argument is visible
    for t in range(120 if ctx.quick else 1500):
        m, mb = rng.randint(0, 9), rng.randint(0, 6)
        pa, pb = rng.choice([('s', 't'), ('s', 't'), ('\u00e9', 'e\u0301'), ('\u65e5', '\u672c'), ('\U0001F600', '\U0001F601'), ('\u0141', 'A')])
        xs = ['%s%d' % (pa, i) for i in range(m)]
        ys = ['%s%d' % (pb, i) for i in range(mb)]
        rng.shuffle(xs)
        ident = {s: i for i, s in enumerate(sorted(xs) + sorted(ys))}

        def f(a, b, offset=0, scale=1, **more):
            return scale * (1000 * ident[str(a)] + ident[str(b)]) + offset + 100000 * sum(more.values())
        kw = {}
        if t % 2:
            for name, lo, hi in [('offset', 0, 5), ('scale', 1, 3), ('gap', 1, 4), ('weights', 1, 4), ('score_cutoff', 1, 4)]:
                if rng.random() < 0.4:
                    kw[name] = rng.randint(lo, hi)
        kx, ka, kb = rng.choice(kinds_c), rng.choice(kinds_c), rng.choice(kinds_c)
        ctx.count('helper_container=' + kx)
        ctx.count('helper_container=' + ka)
        ctx.count('helper_container=' + kb)
        cx, dx = cont(rng, kx, xs)
        g = call_helper(ds.pdist, (cx,), f, np.int64, kw)
        exp = [f(xs[i], xs[j], **kw) for i in range(m) for j in range(i + 1, m)]
        ctx.case(nontrivial_key=('pdist', m, mb, tuple(sorted(kw.items())), kx, ka, kb) if m >= 3 else None)
        ok = g[0] == 'ok' and np.asarray(g[1]).shape == (len(exp),) and [int(v) for v in g[1]] == exp
        if ok and m >= 2:
            # the documented index formula, via the model
            i = rng.randrange(m - 1)
            j = rng.randrange(i + 1, m)
            k = ctx.oracle.run([('api_cidx', [m, i, j])])[0]
            ok = int(g[1][k]) == f(xs[i], xs[j], **kw)
        if not ok:
            ctx.violation('property', 'pdist(%s of %s, metric=f, dtype=int64, **%s) with the injective callable f(a, b) = scale*(1000*id(a)+id(b))+offset+1e5*sum(other kwargs) '
                          '(id = rank of the string) is not the condensed layout / does not forward the keyword arguments: %s, expected %s' %
                          (dx, xs, kw, str(g)[:200], exp[:12]), dict(X=xs, container=dx, kwargs=kw), site='distance.pdist')
        (ca, da), (cb, db) = cont(rng, ka, xs), cont(rng, kb, ys)
        g = call_helper(ds.cdist, (ca, cb), f, np.int64, kw)
        exp2 = [[f(a, b, **kw) for b in ys] for a in xs]
        if g[0] != 'ok' or np.asarray(g[1]).shape != (m, mb) or (m * mb > 0 and np.asarray(g[1]).tolist() != exp2):
            ctx.violation('property', 'cdist(%s of %s, %s of %s, metric=f, dtype=int64, **%s) with the injective callable f is not [[f(a, b) for b in B] for a in A] '
                          '/ does not forward the keyword arguments: %s, expected %s' % (da, xs, db, ys, kw, str(g)[:200], str(exp2)[:200]),
                          dict(A=xs, B=ys, containerA=da, containerB=db, kwargs=kw), site='distance.cdist')
        if len(ctx.violations) > 6:
            return

    # (c2) the default metric (python-Levenshtein distance) with the keyword arguments it accepts; model: api_pdist_wlev / api_cdist_wlev
    procs = {'reverse': lambda s: s[::-1], 'drop_first': lambda s: s[1:], 'upper': lambda s: s.upper()}

    def shrink_default(which, xs, ys, kw, procname, g, exp):
        """cheap shrink of a failing default-metric call: one pair of strings in plain lists, one keyword argument if that suffices"""
        if which == 'cdist':
            cand = [(a, b) for a in xs for b in ys]
            flat = [v for row in exp for v in row]
        else:
            cand = [(xs[i], xs[j]) for i in range(len(xs)) for j in range(i + 1, len(xs))]
            flat = list(exp)
        got = [float(v) for v in np.asarray(g[1]).ravel()] if g[0] == 'ok' and np.asarray(g[1]).size == len(flat) else None
        if got is not None:
            cand = [c_ for c_, u, v in zip(cand, got, flat) if u != v] + cand
        subsets = [{k: kw[k]} for k in kw if len(kw) > 1] + [dict(kw)]
        for a, b in cand[:6]:
            for sub in subsets:
                p = (procs.get(procname) if 'processor' in sub else None) or (lambda s_: s_)
                w = sub.get('weights') or (1, 1, 1)
                cut = sub.get('score_cutoff')
                v = ctx.oracle.run([('api_wlev', [w[0], w[1], w[2], p(a), p(b)])])[0]
                v = v if cut is None or v <= cut else cut + 1
                if which == 'cdist':
                    r = call_impl(lambda: ds.cdist([a], [b], dtype=np.int64, **sub))
                    ok = _shape_eq(r, (1, 1), [[v]])
                else:
                    r = call_impl(lambda: ds.pdist([a, b], dtype=np.int64, **sub))
                    ok = _shape_eq(r, (1,), [v])
                if not ok:
                    show = {k: (procname if k == 'processor' else x) for k, x in sub.items()}
                    call = ('cdist([%r], [%r], dtype=int64, **%s)' if which == 'cdist' else 'pdist([%r, %r], dtype=int64, **%s)') % (a, b, show)
                    return dict(call=call, got=str(r)[:120], expected=v, a=a, b=b, kwargs=show)
        return None

    cases = []
    for t in range(70 if ctx.quick else 900):
        al = rng.choice(['AC', 'ACGT', gens.AA, 'aAcCgG']) if rng.random() < 0.6 else draw_alphabet(rng, ctx, 1.0)
        m, mb = rng.randint(0, 8), rng.randint(0, 6)
        wide = rng.random() < 0.12                  # distances above 255: a dtype wider than the default uint8 is requested
        xs = [''.join(rng.choice(al) for _ in range(rng.randint(36, 50) if wide and i < 2 else rng.randint(0, 10))) for i in range(m)]
        short = [x for x in xs if len(x) <= 10]
        ys = [gens.mutate(rng, rng.choice(short), al, rng.randint(0, 3)) if short and rng.random() < 0.6 else ''.join(rng.choice(al) for _ in range(rng.randint(0, 9)))
              for _ in range(mb)]
        if wide and ys:
            ys[0] = ''.join(rng.choice(al) for _ in range(rng.randint(36, 50)))
        kw, w, cut, proc = {}, (1, 1, 1), None, None
        variant = rng.choice(['none', 'weights', 'weights', 'weights', 'score_cutoff', 'weights+score_cutoff', 'weights+score_hint', 'processor', 'weights+processor',
                              'weights=None'])
        if wide:
            variant = 'weights'
        if 'weights' in variant and variant != 'weights=None':
            w = tuple(rng.choice([7, 11]) for _ in range(3)) if wide else tuple(rng.choice(W) for _ in range(3))
            if w == (1, 1, 1):
                w = (1, 2, 1)
            kw['weights'] = w
        if variant == 'weights=None':
            kw['weights'] = None
        if 'score_cutoff' in variant:
            cut = rng.randint(0, 4 * max(w))
            kw['score_cutoff'] = cut
        if 'score_hint' in variant:
            kw['score_hint'] = rng.randint(0, 10)
        if 'processor' in variant:
            proc = rng.choice(sorted(procs) + ['None'])
            kw['processor'] = procs.get(proc)
        ctx.count('default_metric_kwargs=' + variant)
        cases.append(dict(xs=xs, ys=ys, kw=kw, w=w, cut=cut, proc=proc, variant=variant))
    reqs = []
    for c in cases:
        p = procs.get(c['proc']) or (lambda s: s)
        w = c['w']
        reqs += [('api_cdist_wlev', [w[0], w[1], w[2], [p(x) for x in c['xs']], [p(y) for y in c['ys']]]),
                 ('api_pdist_wlev', [w[0], w[1], w[2], [p(x) for x in c['xs']]])]
    outs = ctx.oracle.run_parallel(reqs, nproc=12)
    for n, c in enumerate(cases):
        xs, ys, kw, cut = c['xs'], c['ys'], c['kw'], c['cut']
        clamp = (lambda v: v) if cut is None else (lambda v: v if v <= cut else cut + 1)
        cd = [[clamp(v) for v in row] for row in outs[2 * n]]
        pd_ = [clamp(v) for v in outs[2 * n + 1]]
        top = max([0] + pd_ + [v for row in cd for v in row])
        dtype = rng.choice([np.uint16, np.int64, np.float64]) if top > 255 else rng.choice([None, None, np.uint8, np.int32, np.int64, np.float64])
        kwshow = {k: (c['proc'] if k == 'processor' else v) for k, v in kw.items()}
        kx, ka, kb = rng.choice(kinds_c), rng.choice(kinds_c), rng.choice(kinds_c)
        for k_ in (kx, ka, kb):
            ctx.count('helper_container=' + k_)
        nt = any(v > 0 for v in pd_) and len(xs) >= 2 and bool(kw)
        ctx.case(sample=dict(A=xs[:4], B=ys[:4], kwargs=kwshow, pdist_model=pd_[:6]) if nt and n % 25 == 0 else None,
                 nontrivial_key=('default', tuple(xs), tuple(ys), str(kwshow)) if nt else None)
        cx, dx = cont(rng, kx, xs)
        g = call_helper(ds.pdist, (cx,), None, dtype, kw)
        if not _shape_eq(g, (len(pd_),), pd_):
            sh = shrink_default('pdist', xs, ys, kw, c['proc'], g, pd_)
            ctx.violation('property', '%spdist(%s of %s, dtype=%s, **%s) with the default metric: the keyword arguments must reach the Levenshtein scorer / condensed layout; '
                          'got %s, the optimal alignment costs (weights %s%s) are %s' %
                          ('' if sh is None else '%s = %s but the optimal alignment cost is %s; found as ' % (sh['call'], sh['got'], sh['expected']),
                           dx, xs, getattr(dtype, '__name__', dtype), kwshow, str(g)[:300], c['w'], '' if cut is None else ', reported as cutoff+1 above %d' % cut, pd_),
                          dict(X=xs, container=dx, kwargs=kwshow, dtype=str(dtype), expected=pd_, smallest=sh), site='distance.pdist[default metric]')
        (ca, da), (cb, db) = cont(rng, ka, xs), cont(rng, kb, ys)
        g = call_helper(ds.cdist, (ca, cb), None, dtype, kw)
        if not _shape_eq(g, (len(xs), len(ys)), cd):
            sh = shrink_default('cdist', xs, ys, kw, c['proc'], g, cd)
            ctx.violation('property', '%scdist(%s of %s, %s of %s, dtype=%s, **%s) with the default metric: the keyword arguments must reach the Levenshtein scorer; got %s, '
                          'the optimal alignment costs (weights %s%s) are %s' %
                          ('' if sh is None else '%s = %s but the optimal alignment cost is %s; found as ' % (sh['call'], sh['got'], sh['expected']),
                           da, xs, db, ys, getattr(dtype, '__name__', dtype), kwshow, str(g)[:300], c['w'], '' if cut is None else ', reported as cutoff+1 above %d' % cut, cd),
                          dict(A=xs, B=ys, containerA=da, containerB=db, kwargs=kwshow, dtype=str(dtype), expected=cd, smallest=sh),
                          site='distance.cdist[default metric]')
        if n % 12 == 0 and c['proc'] in (None, 'None') and sum(map(len, xs)) < 60:
            ctx.add_vm('api_pdist_wlev', [c['w'][0], c['w'][1], c['w'][2], xs], outs[2 * n + 1])
        if len(ctx.violations) > 6:
            return
    # default metric of the helpers, fixed example
    xs = ['CASSF', 'CASF', 'CAWSF', '']
    o = ctx.oracle.run([('api_pdist_wlev', [1, 1, 1, xs])])[0]
    g = call_impl(ds.pdist, xs)
    if g[0] != 'ok' or [int(v) for v in g[1]] != o:
        ctx.violation('property', 'pdist default metric is not Levenshtein: %s vs %s' % (g, o), dict(X=xs), site='distance.pdist')
    # ------------------------------------------------------------------ (d)-(g) widened families
    import pyrepseq as pkg
    import scipy.cluster.hierarchy as hc
    env = dict(ds=ds, pkg=pkg, Levenshtein=Levenshtein, WeightedLevenshtein=WeightedLevenshtein, RL=RL, PL=PL, hc=hc, ssd=ssd)
    for part in (part_sessions, part_large, part_scaled, part_long, part_reuse):
        part(ctx, env)
        if len(ctx.violations) > 6:
            return
    ctx.assumptions += ['result dtypes of rapidfuzz process.cdist (uint32 for the C scorer, float32 for a Python-lambda scorer): exact below 2^32 / 2^24 (C08_bounded)',
                        'scipy squareform(checks=False) takes the strict upper triangle row-major (modelled, exercised)',
                        'above 2**17 code points / above weights 11 the expected values are closed forms proved from the model (C08_scale, C08_empty_and_self, '
                        'C08_length_lower, C08_bounded), not evaluations of it',
                        'python-Levenshtein distance(score_cutoff=c) reports c+1 for distances above c; processor= is applied to both strings first '
                        '(contract of the default scorer of pdist / cdist, tied by correspondence)']


def replay(ctx, obj):
    run(ctx)
