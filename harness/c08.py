"""C08 - string metrics return true (weighted) edit distances in SciPy layout."""
import itertools
import numpy as np
import pandas as pd
import gens
from gens import all_strings
from core import call_impl


def run(ctx):
    import pyrepseq.distance as ds
    from pyrepseq.metric import Levenshtein, WeightedLevenshtein
    from rapidfuzz.distance import Levenshtein as RL, Hamming as RH
    import Levenshtein as PL
    rng = ctx.rng
    ctx.rule = ('(a) foundation tie: rapidfuzz Levenshtein.distance (plain / weights / score_cutoff), Hamming.distance, python-Levenshtein '
                'distance against the proved DP for ALL pairs of strings of length <= L on 2 letters and <= L-2 on 3 letters, plus random '
                'pairs of length 0..400 on 1-, 2-, 4-, 20-, 1000-letter alphabets incl. non-BMP code points; (b) Levenshtein / '
                'WeightedLevenshtein calc_cdist_matrix and calc_pdist_vector on collections of 0..12 strings as list / tuple / ndarray / '
                'Series, asymmetric weight triples from {1,2,3,5,7,11}; (c) functional pdist / cdist with metric callables that encode '
                'their two arguments injectively and take extra keyword arguments. non-trivial := distance > 0 and (weights asymmetric or '
                'lengths differ)')
    L = 4 if ctx.quick else 6
    univ = all_strings('AC', L) + all_strings('ACD', L - 2)
    pairs = list(itertools.product(univ, univ))
    if ctx.quick:
        pairs = rng.sample(pairs, 1500)
    ctx.exhaustive = not ctx.quick
    alphas = ['A', 'AC', 'ACGT', gens.AA, ''.join(chr(0x4e00 + i) for i in range(1000)), 'A\U0001F600\U00010348é']
    for _ in range(60 if ctx.quick else 600):
        al = rng.choice(alphas)
        n1, n2 = rng.choice([0, 1, 5, 30, 120, 400]), rng.choice([0, 1, 5, 30, 120, 400])
        a = ''.join(rng.choice(al) for _ in range(n1))
        b = gens.mutate(rng, a, al, rng.randint(0, 30)) if rng.random() < 0.5 else ''.join(rng.choice(al) for _ in range(n2))
        pairs.append((a, b))
    W = [1, 2, 3, 5, 7, 11]
    reqs, meta = [], []
    for a, b in pairs:
        w = (1, 1, 1) if (len(a) > 150 or len(b) > 150 or rng.random() < 0.4) else tuple(rng.choice(W) for _ in range(3))
        reqs.append(('api_wlev', [w[0], w[1], w[2], a, b]))
        meta.append(w)
    outs = ctx.oracle.run_parallel(reqs, nproc=12)
    hreq = [('api_ham', [a, b]) for a, b in pairs[:400]]
    houts = ctx.oracle.run_parallel(hreq)
    for n, ((a, b), w, o) in enumerate(zip(pairs, meta, outs)):
        nt = o > 0 and (len(set(w)) > 1 or len(a) != len(b))
        ctx.case(sample=dict(a=a[:20], b=b[:20], weights=w, model=o) if nt and n % 400 == 0 else None,
                 nontrivial_key=('wlev', a, b, w) if nt else None)
        ctx.count('len<=6' if max(len(a), len(b)) <= 6 else ('len<=150' if max(len(a), len(b)) <= 150 else 'len>150'))
        vals = {}
        if w == (1, 1, 1):
            vals['rapidfuzz'] = call_impl(RL.distance, a, b)
            vals['python-Levenshtein'] = call_impl(PL.distance, a, b)
            c = rng.randint(0, 6)
            vals['rapidfuzz[cutoff=%d]' % c] = call_impl(lambda: (lambda v: v if v <= c else o)(RL.distance(a, b, score_cutoff=c)))
        else:
            vals['rapidfuzz[weights]'] = call_impl(RL.distance, a, b, weights=w)
        for name, g in vals.items():
            if g[0] != 'ok' or int(g[1]) != o:
                ctx.violation('property', '%s distance(%r, %r, weights=%s) = %s but the optimal alignment cost is %d' % (name, a[:30], b[:30], w, g, o),
                              dict(a=a, b=b, weights=w, impl=str(g), expected=o), site='metric.foundation[%s]' % name.split('[')[0])
        if n < 400:
            h = houts[n]
            if len(a) == len(b):
                g = call_impl(RH.distance, a, b)
                if g[0] != 'ok' or int(g[1]) != h:
                    ctx.violation('property', 'rapidfuzz Hamming.distance(%r, %r) = %s, expected %s' % (a, b, g, h), dict(a=a, b=b), site='metric.foundation[hamming]')
        if n % 60 == 0 and len(a) + len(b) < 20:
            ctx.add_vm('api_wlev', reqs[n][1], o)
        if len(ctx.violations) > 6:
            return
    # (b) metric classes
    colls = []
    for _ in range(40 if ctx.quick else 500):
        m = rng.randint(0, 12)
        al = rng.choice(alphas[:4])
        big = rng.random() < 0.15
        mid = (not big) and rng.random() < 0.12       # weighted distances above 255 between strings shorter than 256 (a narrowed dtype shows)
        if mid:
            m = max(m, 3)
        xs = [''.join(rng.choice(al) for _ in range(rng.choice([300, 350, 400]) if big and i < 2 else
                                                    (rng.choice([120, 150, 200, 250]) if mid and i < 3 else rng.randint(0, 12)))) for i in range(m)]
        ys = [gens.mutate(rng, rng.choice(xs), al, rng.randint(0, 3)) if xs and rng.random() < 0.6 else ''.join(rng.choice(al) for _ in range(rng.randint(0, 9)))
              for _ in range(rng.randint(0, 8))]
        w = (1, 1, 1) if (big or (rng.random() < 0.4 and not mid)) else tuple(rng.choice(W) for _ in range(3))
        if mid and max(w) == 1:
            w = (2, 2, 3)
        ctx.count('collection_long_weighted' if mid else ('collection_long_unit' if big else 'collection_short'))
        colls.append((xs, ys, w))
    reqs = []
    for xs, ys, w in colls:
        reqs += [('api_cdist_wlev', [w[0], w[1], w[2], xs, ys]), ('api_pdist_wlev', [w[0], w[1], w[2], xs])]
    outs = ctx.oracle.run_parallel(reqs, nproc=12)

    def cont(kind, xs):
        return {'list': list(xs), 'tuple': tuple(xs), 'ndarray': np.array(xs, dtype=object) if xs else np.array(xs, dtype=object),
                'series': pd.Series(list(xs), index=range(3, 3 + len(xs)), dtype=object)}[kind]
    for n, (xs, ys, w) in enumerate(colls):
        cd, pd_ = outs[2 * n], outs[2 * n + 1]
        metric = (Levenshtein() if rng.random() < 0.5 else WeightedLevenshtein()) if w == (1, 1, 1) else WeightedLevenshtein(*w)
        kind = rng.choice(['list', 'tuple', 'ndarray', 'series'])
        nt = any(v > 0 for row in cd for v in row) and len(xs) >= 2
        ctx.count('container=' + kind)
        ctx.case(sample=dict(metric=type(metric).__name__, weights=w, A=[x[:10] for x in xs[:4]], B=[y[:10] for y in ys[:4]]) if nt and n % 20 == 0 else None,
                 nontrivial_key=('cdist', tuple(xs), tuple(ys), w) if nt else None)
        if xs and ys:
            g = call_impl(metric.calc_cdist_matrix, cont(kind, xs), cont(kind, ys))
            ok = g[0] == 'ok' and np.asarray(g[1]).shape == (len(xs), len(ys)) and np.array_equal(np.asarray(g[1], dtype=np.float64), np.array(cd, dtype=np.float64))
            if not ok:
                ctx.violation('property', '%s%s.calc_cdist_matrix differs from the optimal alignment costs on A=%s B=%s: %s' %
                              (type(metric).__name__, w, [x[:12] for x in xs], [y[:12] for y in ys], str(g)[:300]),
                              dict(A=xs, B=ys, weights=w, container=kind), site='metric.calc_cdist_matrix')
        if len(xs) >= 1:
            g = call_impl(metric.calc_pdist_vector, cont(kind, xs))
            ok = g[0] == 'ok' and np.asarray(g[1]).shape == (len(pd_),) and np.array_equal(np.asarray(g[1], dtype=np.float64), np.array(pd_, dtype=np.float64))
            if not ok:
                ctx.violation('property', '%s%s.calc_pdist_vector is not the condensed upper triangle on %s: %s' %
                              (type(metric).__name__, w, [x[:12] for x in xs], str(g)[:300]), dict(X=xs, weights=w, container=kind),
                              site='metric.calc_pdist_vector')
            if g[0] == 'ok' and len(xs) >= 2:
                import scipy.spatial.distance as ssd
                sq = call_impl(ssd.squareform, np.asarray(g[1]))
                if sq[0] != 'ok' or np.asarray(sq[1]).shape != (len(xs), len(xs)):
                    ctx.violation('property', 'calc_pdist_vector output is not a valid squareform input', dict(X=xs), site='metric.calc_pdist_vector')
        if len(ctx.violations) > 6:
            return
    # (c) functional helpers with injective metric callables
    for t in range(40 if ctx.quick else 400):
        m, mb = rng.randint(0, 9), rng.randint(0, 6)
        xs = ['s%d' % i for i in range(m)]
        ys = ['t%d' % i for i in range(mb)]
        ident = {s: i for i, s in enumerate(xs + ys)}
        off = rng.randint(0, 5)

        def f(a, b, offset=0, scale=1):
            return scale * (1000 * ident[a] + ident[b]) + offset
        kw = dict(offset=off, scale=rng.choice([1, 2])) if t % 2 else {}
        g = call_impl(lambda: ds.pdist(iter(xs), metric=f, dtype=np.int64, **kw))
        exp = [f(xs[i], xs[j], **kw) for i in range(m) for j in range(i + 1, m)]
        ctx.case(nontrivial_key=('pdist', m, mb, off, bool(kw)) if m >= 3 else None)
        ok = g[0] == 'ok' and [int(v) for v in g[1]] == exp
        if ok and m >= 2:
            # the documented index formula, via the model
            i = rng.randrange(m - 1)
            j = rng.randrange(i + 1, m)
            k = ctx.oracle.run([('api_cidx', [m, i, j])])[0]
            ok = int(g[1][k]) == f(xs[i], xs[j], **kw)
        if not ok:
            ctx.violation('property', 'pdist with an injective metric callable / kwargs %s has the wrong layout: %s, expected %s' % (kw, str(g)[:200], exp[:10]),
                          dict(m=m, kwargs=kw), site='distance.pdist')
        g = call_impl(lambda: ds.cdist(tuple(xs), pd.Series(ys, index=range(7, 7 + mb), dtype=object), metric=f, dtype=np.int64, **kw))
        exp2 = [[f(a, b, **kw) for b in ys] for a in xs]
        if g[0] != 'ok' or np.asarray(g[1]).shape != (m, mb) or np.asarray(g[1]).tolist() != exp2 and m * mb > 0:
            ctx.violation('property', 'cdist with an injective metric callable has the wrong layout: %s' % str(g)[:200], dict(m=m, mb=mb, kwargs=kw), site='distance.cdist')
    # default metric of the helpers
    xs = ['CASSF', 'CASF', 'CAWSF', '']
    o = ctx.oracle.run([('api_pdist_wlev', [1, 1, 1, xs])])[0]
    g = call_impl(ds.pdist, xs)
    if g[0] != 'ok' or [int(v) for v in g[1]] != o:
        ctx.violation('property', 'pdist default metric is not Levenshtein: %s vs %s' % (g, o), dict(X=xs), site='distance.pdist')
    ctx.assumptions += ['result dtypes of rapidfuzz process.cdist (uint32 for the C scorer, float32 for a Python-lambda scorer): exact below 2^32 / 2^24 (C08_bounded)',
                        'scipy squareform(checks=False) takes the strict upper triangle row-major (modelled, exercised)']


def replay(ctx, obj):
    run(ctx)
