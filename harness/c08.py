"""C08 - string metrics return true (weighted) edit distances in SciPy layout."""
import collections
import itertools
import numpy as np
import pandas as pd
import gens
from gens import all_strings
from core import call_impl

# containers a "collection of strings" may arrive in.  Sized ones are accepted by the metric classes and the functional helpers,
# the one-shot ones only by the functional helpers (documented "iterable of strings", they copy into a list first).
SIZED_KINDS = ['list', 'tuple', 'ndarray', 'ndarray_U', 'series', 'series_shifted', 'series_permuted', 'series_gapped',
               'series_str', 'series_dup', 'index', 'deque']
ONESHOT_KINDS = ['iterator', 'generator']

# "any alphabet": a string is a sequence of CODE POINTS and one edit changes one code point, whatever its width in some encoding.
# Alphabets that separate code points from UTF-8 bytes / UTF-16 units / truncated code units / normalised or case-folded text:
WIDE_ALPHABETS = {
    'latin_accented': 'e\u00e9\u00e8\u00ea\u00ebE\u00c9\u0301a\u00e0c\u00e7',   # base letter, precomposed, combining mark, upper case (1-2 bytes)
    'greek_cyrillic': '\u03b1\u03b2\u03b3\u03b4\u03b5\u0391\u0392\u03c3\u03c2\u0430\u0431\u0410',   # all 2 bytes
    'cjk_similar': '\u65e5\u672c\u8a9e\u76ee\u6728\u66f0\u672b\u672a',       # 3 bytes each, shared lead bytes
    'cjk_1000': ''.join(chr(0x4e00 + i) for i in range(1000)),
    'emoji_nonbmp': '\U0001F600\U0001F601\U0001F9EC\U00010348\U0002000B\u200d',  # 4 bytes / surrogate pairs, plus the zero-width joiner
    'mixed_width': 'A\u00e9\u65e5\U0001F600z\u03b2',                              # 1, 2, 3 and 4 bytes
    'same_low_bits': 'A\u0141\u0241\u4e41\U00010041\U00020041',                  # equal modulo 256, three of them equal modulo 65536
    'latin1_edge': '~\x7f\x80\u00ff\u0100\ufeff',                                # around the 7-bit / 8-bit borders, byte-order mark
    'whitespace': ' \t\nA\u00a0\u3000',
}
ASCII_ALPHABETS = ['A', 'AC', 'ACGT', gens.AA]


def draw_alphabet(rng, ctx, p_wide=0.5):
    if rng.random() < p_wide:
        name = rng.choice(sorted(WIDE_ALPHABETS))
        ctx.count('alphabet=' + name)
        return WIDE_ALPHABETS[name]
    ctx.count('alphabet=ascii')
    return rng.choice(ASCII_ALPHABETS)


def _first_diff(g, rows, cols, exp):
    """(row string, column string, got, expected) of the first entry that differs, for the message"""
    try:
        a = np.asarray(g[1]).astype(np.float64)
        e = np.array(exp, dtype=np.float64).reshape(a.shape)
        for i, j in zip(*np.nonzero(a != e)):
            return dict(a=rows[i], b=cols[j], got=float(a[i, j]), expected=float(e[i, j]))
    except Exception:
        pass
    return None


def cont(rng, kind, xs):
    """-> (container holding xs in this order, printable description). Position decides, never the pandas label."""
    xs = list(xs)
    m = len(xs)
    idx = None
    if kind == 'list':
        c = list(xs)
    elif kind == 'tuple':
        c = tuple(xs)
    elif kind == 'ndarray':
        c = np.empty(m, dtype=object)
        c[:] = xs
    elif kind == 'ndarray_U':
        c = np.array(xs, dtype=str)
    elif kind == 'iterator':
        c = iter(list(xs))
    elif kind == 'generator':
        c = (x for x in list(xs))
    elif kind == 'index':
        c = pd.Index(xs, dtype=object)
    elif kind == 'deque':
        c = collections.deque(xs)
    elif kind == 'series':
        idx = None
        c = pd.Series(xs, dtype=object)
    elif kind == 'series_shifted':
        k = rng.randint(1, 9)
        idx = list(range(k, k + m))
    elif kind == 'series_permuted':                # labels are a permutation of 0..m-1 (after sort_values / sample)
        idx = list(range(m))
        for _ in range(8):
            rng.shuffle(idx)
            if m < 2 or idx != list(range(m)):
                break
    elif kind == 'series_gapped':                  # after row filtering: gaps, any order, negative labels
        idx = rng.sample(range(-4, 3 * m + 6), m)
        if rng.random() < 0.5:
            idx.sort()
    elif kind == 'series_str':
        idx = ['k%d' % i for i in range(m)]
        rng.shuffle(idx)
    elif kind == 'series_dup':                     # after concat: repeated labels
        idx = [i // 2 for i in range(m)] if rng.random() < 0.5 else [0] * m
    else:
        raise ValueError(kind)
    if idx is not None:
        c = pd.Series(xs, index=idx, dtype=object)
    return c, (kind if idx is None else '%s(index=%s)' % (kind, idx))


def _show(xs, n=14):
    """strings for a message: long ones cut, with their length (the replay file holds them in full)"""
    return [x if len(x) <= n else '%s...<len %d>' % (x[:n], len(x)) for x in xs]


def _shape_eq(g, exp_shape, exp):
    if g[0] != 'ok':
        return False
    a = np.asarray(g[1])
    return a.shape == exp_shape and np.array_equal(a.astype(np.float64).reshape(exp_shape), np.array(exp, dtype=np.float64).reshape(exp_shape))


def run(ctx):
    import pyrepseq.distance as ds
    from pyrepseq.metric import Levenshtein, WeightedLevenshtein
    from rapidfuzz.distance import Levenshtein as RL, Hamming as RH
    import Levenshtein as PL
    import scipy.spatial.distance as ssd
    rng = ctx.rng
    ctx.rule = ('(a) foundation tie: rapidfuzz Levenshtein.distance (plain / weights / score_cutoff), Hamming.distance, python-Levenshtein '
                'distance (plain / weights / score_cutoff) against the proved DP for ALL pairs of strings of length <= L on 2 letters and '
                '<= L-2 on 3 letters, plus random pairs of length 0..400 on 1-, 2-, 4-, 20-, 1000-letter alphabets incl. non-BMP code points; '
                '(b) Levenshtein / WeightedLevenshtein calc_cdist_matrix and calc_pdist_vector on collections of 0..12 strings over ASCII and non-ASCII alphabets '
                '(accented Latin with combining marks, Greek / Cyrillic, CJK, emoji / non-BMP, mixed UTF-8 widths, code points equal modulo 256 / 65536, whitespace); every '
                'collection is evaluated by SEVERAL metric objects (fresh and re-used ones, different weight triples incl. the ins/del swap, '
                'asymmetric triples from {1,2,3,5,7,11}) in shuffled order with repeats, followed by permuted / edited variants of the same '
                'collection, each call with its own container (list / tuple / ndarray object+str / Series with default, shifted, permuted, '
                'gapped, string, repeated index / pandas Index / deque); (c) functional pdist / cdist, for every container above plus '
                'iterator / generator on either argument: metric callables that encode their two arguments injectively and take extra '
                'keyword arguments, and the DEFAULT metric with the keyword arguments its scorer accepts (weights, score_cutoff, score_hint, '
                'processor) against api_pdist_wlev / api_cdist_wlev. non-trivial := distance > 0 and (weights asymmetric or lengths differ)')
    L = 4 if ctx.quick else 6
    univ = all_strings('AC', L) + all_strings('ACD', L - 2)
    pairs = list(itertools.product(univ, univ))
    if ctx.quick:
        pairs = rng.sample(pairs, 1500)
    ctx.exhaustive = not ctx.quick
    alphas = ASCII_ALPHABETS + [''.join(chr(0x4e00 + i) for i in range(1000)), 'A\U0001F600\U00010348é'] + [WIDE_ALPHABETS[k] for k in sorted(WIDE_ALPHABETS)]
    for _ in range(60 if ctx.quick else 600):
        al = rng.choice(alphas)
        n1, n2 = rng.choice([0, 1, 5, 30, 120, 400]), rng.choice([0, 1, 5, 30, 120, 400])
        a = ''.join(rng.choice(al) for _ in range(n1))
        b = gens.mutate(rng, a, al, rng.randint(0, 30)) if rng.random() < 0.5 else ''.join(rng.choice(al) for _ in range(n2))
        pairs.append((a, b))
    W = [1, 2, 3, 5, 7, 11]
    reqs, meta = [], []
    for a, b in pairs:
        w = (1, 1, 1) if (len(a) > 150 or len(b) > 150 or rng.random() < 0.4) else tuple(rng.choice(W) for _ in range(3))
        reqs.append(('api_wlev', [w[0], w[1], w[2], a, b]))
        meta.append(w)
    outs = ctx.oracle.run_parallel(reqs, nproc=12)
    hreq = [('api_ham', [a, b]) for a, b in pairs[:400]]
    houts = ctx.oracle.run_parallel(hreq)
    for n, ((a, b), w, o) in enumerate(zip(pairs, meta, outs)):
        nt = o > 0 and (len(set(w)) > 1 or len(a) != len(b))
        ctx.case(sample=dict(a=a[:20], b=b[:20], weights=w, model=o) if nt and n % 400 == 0 else None,
                 nontrivial_key=('wlev', a, b, w) if nt else None)
        ctx.count('len<=6' if max(len(a), len(b)) <= 6 else ('len<=150' if max(len(a), len(b)) <= 150 else 'len>150'))
        vals, aux = {}, {}
        c = rng.randint(0, 6) if w == (1, 1, 1) else rng.randint(0, 40)
        clamp = o if o <= c else c + 1
        if w == (1, 1, 1):
            vals['rapidfuzz'] = call_impl(RL.distance, a, b)
            vals['python-Levenshtein'] = call_impl(PL.distance, a, b)
            vals['rapidfuzz[cutoff=%d]' % c] = call_impl(lambda: (lambda v: v if v <= c else o)(RL.distance(a, b, score_cutoff=c)))
            aux['python-Levenshtein[score_cutoff=%d]' % c] = call_impl(PL.distance, a, b, score_cutoff=c)
        else:
            vals['rapidfuzz[weights]'] = call_impl(RL.distance, a, b, weights=w)
            vals['python-Levenshtein[weights]'] = call_impl(PL.distance, a, b, weights=w)
            aux['python-Levenshtein[weights,score_cutoff=%d]' % c] = call_impl(PL.distance, a, b, weights=w, score_cutoff=c)
        for name, g in vals.items():
            if g[0] != 'ok' or int(g[1]) != o:
                ctx.violation('property', '%s distance(%r, %r, weights=%s) = %s but the optimal alignment cost is %d' % (name, a[:30], b[:30], w, g, o),
                              dict(a=a, b=b, weights=w, impl=str(g), expected=o), site='metric.foundation[%s]' % name.split('[')[0])
        for name, g in aux.items():
            # contract of the default scorer of the functional helpers: distances above score_cutoff are reported as score_cutoff + 1
            if g[0] != 'ok' or int(g[1]) != clamp:
                ctx.violation('correspondence', '%s distance(%r, %r, weights=%s) = %s, the documented clamp of the optimal cost %d is %d' %
                              (name, a[:30], b[:30], w, g, o, clamp), dict(a=a, b=b, weights=w, score_cutoff=c, impl=str(g), expected=clamp),
                              site='metric.foundation[python-Levenshtein.score_cutoff]')
        if n < 400:
            h = houts[n]
            if len(a) == len(b):
                g = call_impl(RH.distance, a, b)
                if g[0] != 'ok' or int(g[1]) != h:
                    ctx.violation('property', 'rapidfuzz Hamming.distance(%r, %r) = %s, expected %s' % (a, b, g, h), dict(a=a, b=b), site='metric.foundation[hamming]')
        if n % 60 == 0 and len(a) + len(b) < 20:
            ctx.add_vm('api_wlev', reqs[n][1], o)
        if len(ctx.violations) > 6:
            return

    # ------------------------------------------------------------------ (b) metric classes
    def extra_weights(w):
        """further weight triples for the same collection (cheap for the model: short strings only)"""
        out = []
        for _ in range(rng.randint(1, 3)):
            r = rng.random()
            if r < 0.3:
                out.append((1, 1, 1))
            elif r < 0.5:
                out.append((w[1], w[0], w[2]))            # insertion / deletion swapped
            elif r < 0.6:
                out.append(tuple(rng.sample(w, 3)))      # same multiset of weights
            else:
                out.append(tuple(rng.choice(W) for _ in range(3)))
        return out

    colls = []
    for _ in range(40 if ctx.quick else 500):
        m = rng.randint(0, 12)
        al = draw_alphabet(rng, ctx)
        big = rng.random() < 0.15
        mid = (not big) and rng.random() < 0.12       # weighted distances above 255 between strings shorter than 256 (a narrowed dtype shows)
        if mid:
            m = max(m, 3)
        xs = [''.join(rng.choice(al) for _ in range(rng.choice([300, 350, 400]) if big and i < 2 else
                                                    (rng.choice([120, 150, 200, 250]) if mid and i < 3 else rng.randint(0, 12)))) for i in range(m)]
        ys = [gens.mutate(rng, rng.choice(xs), al, rng.randint(0, 3)) if xs and rng.random() < 0.6 else ''.join(rng.choice(al) for _ in range(rng.randint(0, 9)))
              for _ in range(rng.randint(0, 8))]
        w = (1, 1, 1) if (big or (rng.random() < 0.4 and not mid)) else tuple(rng.choice(W) for _ in range(3))
        if mid and max(w) == 1:
            w = (2, 2, 3)
        tag = 'collection_long_weighted' if mid else ('collection_long_unit' if big else 'collection_short')
        ctx.count(tag)
        # the model is slow on long strings (unary nat): long collections get the unit weights as the only other triple
        ws = [w] + ([(1, 1, 1)] if (big or mid) else extra_weights(w))
        colls.append(dict(xs=xs, ys=ys, ws=ws, tag=tag, derived=None))
        if not (big or mid):
            # variants of the same collection right afterwards (same strings in another order / one string edited / other partner)
            for _ in range(rng.choice([0, 0, 1, 1, 2])):
                how = rng.choice(['permuted', 'edited', 'other_B', 'other_A', 'prefix'])
                xs2, ys2 = list(xs), list(ys)
                if how == 'permuted':
                    rng.shuffle(xs2)
                    rng.shuffle(ys2)
                elif how == 'edited' and xs2:
                    k = rng.randrange(len(xs2))
                    xs2[k] = gens.mutate(rng, xs2[k], al, rng.randint(1, 3))
                elif how == 'other_B':
                    ys2 = [''.join(rng.choice(al) for _ in range(rng.randint(0, 9))) for _ in range(len(ys))]
                elif how == 'other_A':
                    xs2 = [''.join(rng.choice(al) for _ in range(rng.randint(0, 12))) for _ in range(len(xs))]
                elif how == 'prefix':
                    xs2 = xs2[:rng.randint(0, len(xs2))]
                ctx.count('collection_variant_' + how)
                colls.append(dict(xs=xs2, ys=ys2, ws=list(ws) if rng.random() < 0.7 else [ws[0]] + extra_weights(ws[0]), tag=tag, derived=how))
    reqs, where = [], {}
    for n, c in enumerate(colls):
        for w in dict.fromkeys(c['ws']):
            where[(n, w)] = len(reqs)
            reqs += [('api_cdist_wlev', [w[0], w[1], w[2], c['xs'], c['ys']]), ('api_pdist_wlev', [w[0], w[1], w[2], c['xs']])]
    outs = ctx.oracle.run_parallel(reqs, nproc=12)

    pool = {}

    def get_metric(w):
        """a metric object with these weights: a re-used one (state carried over from other collections) or a fresh one"""
        if w in pool and rng.random() < 0.5:
            return pool[w]
        if w == (1, 1, 1):
            obj = rng.choice([Levenshtein, WeightedLevenshtein, lambda: WeightedLevenshtein(1, 1, 1)])()
        else:
            obj = WeightedLevenshtein(*w)
        pool[w] = obj
        return obj

    kinds_b = list(SIZED_KINDS)
    for n, c in enumerate(colls):
        xs, ys = c['xs'], c['ys']
        objs = [(w, get_metric(w)) for w in c['ws']]
        calls = [(k, op) for k in range(len(objs)) for op in ('pdist', 'cdist')]
        rng.shuffle(calls)
        calls += [rng.choice(calls) for _ in range(rng.randint(1, 3))]        # ... A B A: an earlier object again after the others
        cd0 = outs[where[(n, c['ws'][0])]]
        nt = any(v > 0 for row in cd0 for v in row) and len(xs) >= 2
        ctx.case(sample=dict(metrics=['%s%s' % (type(o).__name__, w) for w, o in objs], A=[x[:10] for x in xs[:4]], B=[y[:10] for y in ys[:4]],
                             variant_of_previous=c['derived']) if nt and n % 20 == 0 else None,
                 nontrivial_key=('cdist', tuple(xs), tuple(ys), tuple(c['ws'])) if nt else None)
        ctx.count('metric_objects_per_collection=%d' % len(objs))
        history = []
        for k, op in calls:
            w, metric = objs[k]
            cd, pd_ = outs[where[(n, w)]], outs[where[(n, w)] + 1]
            label = '%s%s#%d' % (type(metric).__name__, w, k)
            kx, ky = rng.choice(kinds_b), rng.choice(kinds_b)
            ctx.count('container=' + kx)
            if op == 'cdist':
                (ca, da), (cb, db) = cont(rng, kx, xs), cont(rng, ky, ys)
                g = call_impl(metric.calc_cdist_matrix, ca, cb)
                if not _shape_eq(g, (len(xs), len(ys)), cd):
                    fd = _first_diff(g, xs, ys, cd)
                    ctx.violation('property', '%s%s.calc_cdist_matrix(%s, %s) differs from the optimal alignment costs on A=%s B=%s: %s (expected %s); earlier calls on '
                                  'this collection: %s' % ('' if fd is None else 'd(%r -> %r) = %s but the optimal alignment cost (one edit = one code point) is %s; in '
                                                           % (_show([fd['a']])[0], _show([fd['b']])[0], fd['got'], fd['expected']),
                                                           label, da, db, _show(xs), _show(ys), str(g)[:300], str(cd)[:200], history or 'none'),
                                  dict(A=xs, B=ys, weights=w, containerA=da, containerB=db, earlier_calls=list(history), variant_of_previous=c['derived'], first_difference=fd),
                                  site='metric.calc_cdist_matrix')
                history.append('%s.calc_cdist_matrix(%s, %s)' % (label, kx, ky))
            else:
                ca, da = cont(rng, kx, xs)
                g = call_impl(metric.calc_pdist_vector, ca)
                if not _shape_eq(g, (len(pd_),), pd_):
                    fd = None
                    if g[0] == 'ok' and np.asarray(g[1]).shape == (len(pd_),):
                        prs = [(i, j) for i in range(len(xs)) for j in range(i + 1, len(xs))]
                        for (i, j), u, v in zip(prs, np.asarray(g[1]).tolist(), pd_):
                            if float(u) != float(v):
                                fd = dict(i=i, j=j, a=xs[i], b=xs[j], got=float(u), expected=float(v))
                                break
                    ctx.violation('property', '%s%s.calc_pdist_vector(%s) is not the condensed upper triangle of the optimal alignment costs on %s: %s (expected %s); '
                                  'earlier calls on this collection: %s' % ('' if fd is None else 'entry for (i, j) = (%d, %d) is %s but d(%r -> %r) = %s (one edit = one code point); in '
                                                                           % (fd['i'], fd['j'], fd['got'], _show([fd['a']])[0], _show([fd['b']])[0], fd['expected']),
                                                                           label, da, _show(xs), str(g)[:300], str(pd_)[:200], history or 'none'),
                                  dict(X=xs, weights=w, container=da, earlier_calls=list(history), variant_of_previous=c['derived'], first_difference=fd),
                                  site='metric.calc_pdist_vector')
                if g[0] == 'ok' and len(xs) >= 2:
                    sq = call_impl(ssd.squareform, np.asarray(g[1]))
                    if sq[0] != 'ok' or np.asarray(sq[1]).shape != (len(xs), len(xs)):
                        ctx.violation('property', 'calc_pdist_vector output is not a valid squareform input', dict(X=xs), site='metric.calc_pdist_vector')
                history.append('%s.calc_pdist_vector(%s)' % (label, kx))
            if len(ctx.violations) > 6:
                return

    # ------------------------------------------------------------------ (c) functional helpers
    kinds_c = SIZED_KINDS + ONESHOT_KINDS

    def call_helper(fn, args, metric, dtype, kw):
        """the same call in one of its spellings (metric / dtype positional or by keyword or left out)"""
        style = rng.choice(['kw', 'pos', 'omit']) if metric is None and dtype is None else rng.choice(['kw', 'pos'])
        if style == 'omit':
            return call_impl(lambda: fn(*args, **kw))
        if style == 'pos' and dtype is not None:
            return call_impl(lambda: fn(*args, metric, dtype, **kw))
        extra = {} if dtype is None else dict(dtype=dtype)
        return call_impl(lambda: fn(*args, metric=metric, **extra, **kw))

    # (c1) injective metric callables: any index permutation / label lookup / dropped keyword argument is visible
    for t in range(120 if ctx.quick else 1500):
        m, mb = rng.randint(0, 9), rng.randint(0, 6)
        pa, pb = rng.choice([('s', 't'), ('s', 't'), ('\u00e9', 'e\u0301'), ('\u65e5', '\u672c'), ('\U0001F600', '\U0001F601'), ('\u0141', 'A')])
        xs = ['%s%d' % (pa, i) for i in range(m)]
        ys = ['%s%d' % (pb, i) for i in range(mb)]
        rng.shuffle(xs)
        ident = {s: i for i, s in enumerate(sorted(xs) + sorted(ys))}

        def f(a, b, offset=0, scale=1, **more):
            return scale * (1000 * ident[str(a)] + ident[str(b)]) + offset + 100000 * sum(more.values())
        kw = {}
        if t % 2:
            for name, lo, hi in [('offset', 0, 5), ('scale', 1, 3), ('gap', 1, 4), ('weights', 1, 4), ('score_cutoff', 1, 4)]:
                if rng.random() < 0.4:
                    kw[name] = rng.randint(lo, hi)
        kx, ka, kb = rng.choice(kinds_c), rng.choice(kinds_c), rng.choice(kinds_c)
        ctx.count('helper_container=' + kx)
        ctx.count('helper_container=' + ka)
        ctx.count('helper_container=' + kb)
        cx, dx = cont(rng, kx, xs)
        g = call_helper(ds.pdist, (cx,), f, np.int64, kw)
        exp = [f(xs[i], xs[j], **kw) for i in range(m) for j in range(i + 1, m)]
        ctx.case(nontrivial_key=('pdist', m, mb, tuple(sorted(kw.items())), kx, ka, kb) if m >= 3 else None)
        ok = g[0] == 'ok' and np.asarray(g[1]).shape == (len(exp),) and [int(v) for v in g[1]] == exp
        if ok and m >= 2:
            # the documented index formula, via the model
            i = rng.randrange(m - 1)
            j = rng.randrange(i + 1, m)
            k = ctx.oracle.run([('api_cidx', [m, i, j])])[0]
            ok = int(g[1][k]) == f(xs[i], xs[j], **kw)
        if not ok:
            ctx.violation('property', 'pdist(%s of %s, metric=f, dtype=int64, **%s) with the injective callable f(a, b) = scale*(1000*id(a)+id(b))+offset+1e5*sum(other kwargs) '
                          '(id = rank of the string) is not the condensed layout / does not forward the keyword arguments: %s, expected %s' %
                          (dx, xs, kw, str(g)[:200], exp[:12]), dict(X=xs, container=dx, kwargs=kw), site='distance.pdist')
        (ca, da), (cb, db) = cont(rng, ka, xs), cont(rng, kb, ys)
        g = call_helper(ds.cdist, (ca, cb), f, np.int64, kw)
        exp2 = [[f(a, b, **kw) for b in ys] for a in xs]
        if g[0] != 'ok' or np.asarray(g[1]).shape != (m, mb) or (m * mb > 0 and np.asarray(g[1]).tolist() != exp2):
            ctx.violation('property', 'cdist(%s of %s, %s of %s, metric=f, dtype=int64, **%s) with the injective callable f is not [[f(a, b) for b in B] for a in A] '
                          '/ does not forward the keyword arguments: %s, expected %s' % (da, xs, db, ys, kw, str(g)[:200], str(exp2)[:200]),
                          dict(A=xs, B=ys, containerA=da, containerB=db, kwargs=kw), site='distance.cdist')
        if len(ctx.violations) > 6:
            return

    # (c2) the default metric (python-Levenshtein distance) with the keyword arguments it accepts; model: api_pdist_wlev / api_cdist_wlev
    procs = {'reverse': lambda s: s[::-1], 'drop_first': lambda s: s[1:], 'upper': lambda s: s.upper()}

    def shrink_default(which, xs, ys, kw, procname, g, exp):
        """cheap shrink of a failing default-metric call: one pair of strings in plain lists, one keyword argument if that suffices"""
        if which == 'cdist':
            cand = [(a, b) for a in xs for b in ys]
            flat = [v for row in exp for v in row]
        else:
            cand = [(xs[i], xs[j]) for i in range(len(xs)) for j in range(i + 1, len(xs))]
            flat = list(exp)
        got = [float(v) for v in np.asarray(g[1]).ravel()] if g[0] == 'ok' and np.asarray(g[1]).size == len(flat) else None
        if got is not None:
            cand = [c_ for c_, u, v in zip(cand, got, flat) if u != v] + cand
        subsets = [{k: kw[k]} for k in kw if len(kw) > 1] + [dict(kw)]
        for a, b in cand[:6]:
            for sub in subsets:
                p = (procs.get(procname) if 'processor' in sub else None) or (lambda s_: s_)
                w = sub.get('weights') or (1, 1, 1)
                cut = sub.get('score_cutoff')
                v = ctx.oracle.run([('api_wlev', [w[0], w[1], w[2], p(a), p(b)])])[0]
                v = v if cut is None or v <= cut else cut + 1
                if which == 'cdist':
                    r = call_impl(lambda: ds.cdist([a], [b], dtype=np.int64, **sub))
                    ok = _shape_eq(r, (1, 1), [[v]])
                else:
                    r = call_impl(lambda: ds.pdist([a, b], dtype=np.int64, **sub))
                    ok = _shape_eq(r, (1,), [v])
                if not ok:
                    show = {k: (procname if k == 'processor' else x) for k, x in sub.items()}
                    call = ('cdist([%r], [%r], dtype=int64, **%s)' if which == 'cdist' else 'pdist([%r, %r], dtype=int64, **%s)') % (a, b, show)
                    return dict(call=call, got=str(r)[:120], expected=v, a=a, b=b, kwargs=show)
        return None

    cases = []
    for t in range(70 if ctx.quick else 900):
        al = rng.choice(['AC', 'ACGT', gens.AA, 'aAcCgG']) if rng.random() < 0.6 else draw_alphabet(rng, ctx, 1.0)
        m, mb = rng.randint(0, 8), rng.randint(0, 6)
        wide = rng.random() < 0.12                  # distances above 255: a dtype wider than the default uint8 is requested
        xs = [''.join(rng.choice(al) for _ in range(rng.randint(36, 50) if wide and i < 2 else rng.randint(0, 10))) for i in range(m)]
        short = [x for x in xs if len(x) <= 10]
        ys = [gens.mutate(rng, rng.choice(short), al, rng.randint(0, 3)) if short and rng.random() < 0.6 else ''.join(rng.choice(al) for _ in range(rng.randint(0, 9)))
              for _ in range(mb)]
        if wide and ys:
            ys[0] = ''.join(rng.choice(al) for _ in range(rng.randint(36, 50)))
        kw, w, cut, proc = {}, (1, 1, 1), None, None
        variant = rng.choice(['none', 'weights', 'weights', 'weights', 'score_cutoff', 'weights+score_cutoff', 'weights+score_hint', 'processor', 'weights+processor',
                              'weights=None'])
        if wide:
            variant = 'weights'
        if 'weights' in variant and variant != 'weights=None':
            w = tuple(rng.choice([7, 11]) for _ in range(3)) if wide else tuple(rng.choice(W) for _ in range(3))
            if w == (1, 1, 1):
                w = (1, 2, 1)
            kw['weights'] = w
        if variant == 'weights=None':
            kw['weights'] = None
        if 'score_cutoff' in variant:
            cut = rng.randint(0, 4 * max(w))
            kw['score_cutoff'] = cut
        if 'score_hint' in variant:
            kw['score_hint'] = rng.randint(0, 10)
        if 'processor' in variant:
            proc = rng.choice(sorted(procs) + ['None'])
            kw['processor'] = procs.get(proc)
        ctx.count('default_metric_kwargs=' + variant)
        cases.append(dict(xs=xs, ys=ys, kw=kw, w=w, cut=cut, proc=proc, variant=variant))
    reqs = []
    for c in cases:
        p = procs.get(c['proc']) or (lambda s: s)
        w = c['w']
        reqs += [('api_cdist_wlev', [w[0], w[1], w[2], [p(x) for x in c['xs']], [p(y) for y in c['ys']]]),
                 ('api_pdist_wlev', [w[0], w[1], w[2], [p(x) for x in c['xs']]])]
    outs = ctx.oracle.run_parallel(reqs, nproc=12)
    for n, c in enumerate(cases):
        xs, ys, kw, cut = c['xs'], c['ys'], c['kw'], c['cut']
        clamp = (lambda v: v) if cut is None else (lambda v: v if v <= cut else cut + 1)
        cd = [[clamp(v) for v in row] for row in outs[2 * n]]
        pd_ = [clamp(v) for v in outs[2 * n + 1]]
        top = max([0] + pd_ + [v for row in cd for v in row])
        dtype = rng.choice([np.uint16, np.int64, np.float64]) if top > 255 else rng.choice([None, None, np.uint8, np.int32, np.int64, np.float64])
        kwshow = {k: (c['proc'] if k == 'processor' else v) for k, v in kw.items()}
        kx, ka, kb = rng.choice(kinds_c), rng.choice(kinds_c), rng.choice(kinds_c)
        for k_ in (kx, ka, kb):
            ctx.count('helper_container=' + k_)
        nt = any(v > 0 for v in pd_) and len(xs) >= 2 and bool(kw)
        ctx.case(sample=dict(A=xs[:4], B=ys[:4], kwargs=kwshow, pdist_model=pd_[:6]) if nt and n % 25 == 0 else None,
                 nontrivial_key=('default', tuple(xs), tuple(ys), str(kwshow)) if nt else None)
        cx, dx = cont(rng, kx, xs)
        g = call_helper(ds.pdist, (cx,), None, dtype, kw)
        if not _shape_eq(g, (len(pd_),), pd_):
            sh = shrink_default('pdist', xs, ys, kw, c['proc'], g, pd_)
            ctx.violation('property', '%spdist(%s of %s, dtype=%s, **%s) with the default metric: the keyword arguments must reach the Levenshtein scorer / condensed layout; '
                          'got %s, the optimal alignment costs (weights %s%s) are %s' %
                          ('' if sh is None else '%s = %s but the optimal alignment cost is %s; found as ' % (sh['call'], sh['got'], sh['expected']),
                           dx, xs, getattr(dtype, '__name__', dtype), kwshow, str(g)[:300], c['w'], '' if cut is None else ', reported as cutoff+1 above %d' % cut, pd_),
                          dict(X=xs, container=dx, kwargs=kwshow, dtype=str(dtype), expected=pd_, smallest=sh), site='distance.pdist[default metric]')
        (ca, da), (cb, db) = cont(rng, ka, xs), cont(rng, kb, ys)
        g = call_helper(ds.cdist, (ca, cb), None, dtype, kw)
        if not _shape_eq(g, (len(xs), len(ys)), cd):
            sh = shrink_default('cdist', xs, ys, kw, c['proc'], g, cd)
            ctx.violation('property', '%scdist(%s of %s, %s of %s, dtype=%s, **%s) with the default metric: the keyword arguments must reach the Levenshtein scorer; got %s, '
                          'the optimal alignment costs (weights %s%s) are %s' %
                          ('' if sh is None else '%s = %s but the optimal alignment cost is %s; found as ' % (sh['call'], sh['got'], sh['expected']),
                           da, xs, db, ys, getattr(dtype, '__name__', dtype), kwshow, str(g)[:300], c['w'], '' if cut is None else ', reported as cutoff+1 above %d' % cut, cd),
                          dict(A=xs, B=ys, containerA=da, containerB=db, kwargs=kwshow, dtype=str(dtype), expected=cd, smallest=sh),
                          site='distance.cdist[default metric]')
        if n % 12 == 0 and c['proc'] in (None, 'None') and sum(map(len, xs)) < 60:
            ctx.add_vm('api_pdist_wlev', [c['w'][0], c['w'][1], c['w'][2], xs], outs[2 * n + 1])
        if len(ctx.violations) > 6:
            return
    # default metric of the helpers, fixed example
    xs = ['CASSF', 'CASF', 'CAWSF', '']
    o = ctx.oracle.run([('api_pdist_wlev', [1, 1, 1, xs])])[0]
    g = call_impl(ds.pdist, xs)
    if g[0] != 'ok' or [int(v) for v in g[1]] != o:
        ctx.violation('property', 'pdist default metric is not Levenshtein: %s vs %s' % (g, o), dict(X=xs), site='distance.pdist')
    ctx.assumptions += ['result dtypes of rapidfuzz process.cdist (uint32 for the C scorer, float32 for a Python-lambda scorer): exact below 2^32 / 2^24 (C08_bounded)',
                        'scipy squareform(checks=False) takes the strict upper triangle row-major (modelled, exercised)',
                        'python-Levenshtein distance(score_cutoff=c) reports c+1 for distances above c; processor= is applied to both strings first '
                        '(contract of the default scorer of pdist / cdist, tied by correspondence)']


def replay(ctx, obj):
    run(ctx)
