"""C11 - kdtree results are independent of worker count, chunking and compression."""
from fractions import Fraction
import gens
from gens import repertoire, canon_triplets, canon_model
from core import call_impl
import customs


def topm_ok(got, truth, m):
    """got / truth: canonical triplets; the max_returns contract of the property."""
    by_i = {}
    for i, j, d in truth:
        by_i.setdefault(i, {})[j] = d
    rep = {}
    for i, j, d in got:
        if j in rep.setdefault(i, {}):
            return 'pair (%d,%d) repeated' % (i, j)
        rep[i][j] = d
    for i in set(by_i) | set(rep):
        t, r = by_i.get(i, {}), rep.get(i, {})
        if len(r) != min(m, len(t)):
            return 'sequence %d reports %d neighbours, expected min(%d, %d)' % (i, len(r), m, len(t))
        for j, d in r.items():
            if j not in t or t[j] != d:
                return 'reported (%d,%d,%s) is not a true neighbour with exact distance' % (i, j, d)
        omitted = [d for j, d in t.items() if j not in r]
        if omitted and r and min(omitted) < max(r.values()):
            return 'sequence %d: an omitted neighbour at distance %s is closer than a reported one at %s' % (i, min(omitted), max(r.values()))
    return None


def _kwargs(c):
    kw = dict(max_edits=c['k'], n_cpu=c['ncpu'], compression=c['comp'], max_returns=c['mr'])
    if c['mode'] == 'hamming':
        kw['custom_distance'] = 'hamming'
    elif c['mode'] == 'custom':
        kw['custom_distance'] = customs.make(c['which'])
        kw['max_custom_distance'] = float('inf') if c['maxc'] is None else c['maxc']
    return kw


def _request(c):
    if c['mode'] == 'default':
        return ('api_brute_self_lev', [c['k'], c['seqs']])
    if c['mode'] == 'hamming':
        return ('api_brute_self_ham', [c['k'], c['seqs']])
    return ('api_brute_self_custom', [c['which'], c['k'], None if c['maxc'] is None else Fraction(c['maxc']), c['seqs']])


def _desc(c):
    return dict(seqs=c['seqs'], n_cpu=c['ncpu'], compression=c['comp'], max_returns=c['mr'], max_edits=c['k'], mode=c['mode'],
                custom=customs.NAMES[c['which']] if c['mode'] == 'custom' else None, which=c['which'] if c['mode'] == 'custom' else None,
                max_custom_distance=c['maxc'])


def _undesc(r):
    which = r.get('which')
    if which is None and r.get('custom') in customs.NAMES:
        which = customs.NAMES.index(r['custom'])
    return dict(seqs=list(r['seqs']), n=len(r['seqs']), ncpu=r['n_cpu'], comp=r['compression'], mr=r['max_returns'], k=r['max_edits'],
                mode=r['mode'], which=which, maxc=r.get('max_custom_distance'))


def histories(rng, count):
    """Call HISTORIES: several kdtree calls made one after the other in ONE process on the same / overlapping sequences, with
    different custom distance callables, max_custom_distance, modes and configurations; the first call single-process, later ones
    with n_cpu = 1 and > 1 (forked workers inherit whatever the earlier calls left behind in the parent).  The property quantifies
    over every single call, so each call of a history must equal the model for ITS OWN parameters, whatever was called before."""
    out = []
    for h in range(count):
        base = repertoire(rng, rng.choice([5, 7, 9, 12, 16]))
        order = rng.sample(range(6), 6)                      # every step of a history uses another distance callable
        k0 = rng.choice([1, 2, 2, 3])
        steps, prev_maxc = [], 'x'
        for s in range(rng.randint(3, 6)):
            if s < 2 or rng.random() < 0.7:
                mode = 'custom'
            else:
                mode = rng.choice(['default', 'hamming'])
            how = rng.random()
            if s == 0 or how < 0.55:
                seqs = list(base)                             # the same list again
            elif how < 0.75:
                seqs = list(base)
                rng.shuffle(seqs)                             # same sequences at other indices
            else:
                seqs = rng.sample(base, max(2, (2 * len(base)) // 3)) + repertoire(rng, rng.randint(1, 4))
                rng.shuffle(seqs)                             # overlapping list
            maxc = rng.choice([m for m in (None, None, 1, 2, 3, 6) if m != prev_maxc or m is None])
            prev_maxc = maxc
            if s == 0:
                ncpu = 1
            elif s == 1:
                ncpu = rng.choice([1, 2, 3, 4])
            else:
                ncpu = rng.choice([1, 2, 3, 5, 8, 16])
            steps.append(dict(n=len(seqs), ncpu=ncpu, mode=mode, seqs=seqs, comp=rng.choice([1, 1, 1, 2, 5, 20]),
                              mr=rng.choice([None, None, None, 1, 2]), k=k0 if rng.random() < 0.8 else rng.choice([1, 2, 3]),
                              which=order[s], maxc=maxc))
        if all(st['ncpu'] == 1 for st in steps[1:]):
            steps[-1]['ncpu'] = rng.choice([2, 3, 4])
        out.append(steps)
    return out


def judge(c, g, truth):
    """None, or (site, message) when the result g = call_impl(kdtree ...) of case c breaks the property (truth: model)."""
    if g[0] != 'ok':
        return ('nn.kdtree[n_cpu>len]' if c['ncpu'] > c['n'] else 'nn.kdtree[config]',
                'kdtree(%d sequences, n_cpu=%d, compression=%d, max_returns=%s, %s) raised %s' %
                (c['n'], c['ncpu'], c['comp'], c['mr'], c['mode'], g[1]))
    got = canon_triplets(g[1])
    if c['mr'] is None:
        if got != truth:
            return ('nn.kdtree[config]', 'kdtree result depends on configuration: n_cpu=%d compression=%d mode=%s on %s: %s' %
                    (c['ncpu'], c['comp'], c['mode'], c['seqs'], gens.diff_triplets(got, truth)))
    else:
        why = topm_ok(got, truth, c['mr'])
        if why:
            return ('nn.kdtree[max_returns]', 'max_returns=%d contract broken (%s) on %s' % (c['mr'], why, c['seqs']))
    return None


def run_histories(ctx, nn, hists):
    """Runs every history step by step in this process; reports the first broken step of a history with the calls before it."""
    flat = [st for steps in hists for st in steps]
    outs = iter(ctx.oracle.run_parallel([_request(st) for st in flat]))
    for steps in hists:
        truths = [canon_model(next(outs)) for _ in steps]
        broken = False
        for t, (c, truth) in enumerate(zip(steps, truths)):
            g = call_impl(lambda: nn.kdtree(list(c['seqs']), **_kwargs(c)))
            nt = bool(truth) and t > 0
            ctx.count('history step mode=' + c['mode'])
            ctx.count('history step n_cpu=1' if c['ncpu'] == 1 else 'history step n_cpu>1')
            desc = _desc(c)
            ctx.case(sample=dict(desc, history_step=t) if nt else None,
                     nontrivial_key=('history', t) + tuple(sorted((k_, str(v)) for k_, v in desc.items())) if nt else None)
            bad = judge(c, g, truth)
            if bad and not broken:
                broken = True                                  # later steps of a broken history are not independent evidence
                before = [_desc(x) for x in steps[:t]]
                ctx.violation('property', 'call %d of a history of kdtree calls in one process (earlier calls: %s): %s' %
                              (t + 1, '; '.join('%s%s n_cpu=%d' % (b['mode'], '' if b['custom'] is None else '[' + b['custom'] + ']',
                                                                     b['n_cpu']) for b in before) or 'none', bad[1]),
                              dict(desc, history=before + [desc]), site=bad[0])


def run(ctx):
    import pyrepseq.nn as nn
    rng = ctx.rng
    ctx.rule = ('kdtree on amino-acid lists of size 1..40 x n_cpu in 1..16 (every ratio incl. n_cpu > len(seqs), non-dividing chunk '
                'sizes; real Pool processes) x compression 1..25 x max_returns in {None,1,2,3,7} x mode {default, hamming, custom}; '
                'every result compared with the model (= single-process uncompressed semantics) and, for max_returns, with the '
                'top-m contract; plus call HISTORIES (3-6 consecutive kdtree calls in one process on the same / overlapping sequences with different '
                'custom distance callables, max_custom_distance, modes, n_cpu = 1 first and then 1 or > 1), every call compared with the '
                'model for its own parameters. non-trivial := (n_cpu > 1 or compression > 1 or max_returns given, or the call is a later '
                'step of a history) and the expected result is non-empty')
    cases = []
    sizes = list(range(1, 13)) + [16, 17, 23, 31, 40]
    ncase = 70 if ctx.quick else 2500
    for t in range(ncase):
        n = rng.choice(sizes)
        if t < 16:
            n, ncpu = rng.choice([1, 2, 3, 5]), t + 1          # n_cpu > len(seqs)
        else:
            ncpu = rng.choice([1, 2, 3, 4, 5, 7, 8, 16])
        mode = ['default', 'hamming', 'custom'][t % 3]
        seqs = repertoire(rng, n) if mode != 'hamming' else None
        if mode == 'hamming':
            import c07
            seqs = c07.ham_repertoire(rng, n)
        comp = rng.choice([1, 1, 2, 3, 5, 7, 10, 19, 20, 21, 25])
        mr = rng.choice([None, None, 1, 2, 3, 7])
        if t % 8 == 7 and seqs:
            # a sequence repeated more often than max_returns + 1: ties at distance 0 around the query itself
            mr = rng.choice([1, 2, 3])
            seqs = seqs + [rng.choice(seqs)] * (mr + rng.randint(2, 4))
            rng.shuffle(seqs)
            n = len(seqs)
        k = rng.choice([1, 2, 3])
        which = rng.randrange(6)
        maxc = rng.choice([None, 1, 2, 3, 6])
        cases.append(dict(n=n, ncpu=ncpu, mode=mode, seqs=seqs, comp=comp, mr=mr, k=k, which=which, maxc=maxc))
    # pairs exactly ON the pre-filter radius: k substitutions of one residue by one other residue (squared histogram distance 2k^2),
    # for every k up to 12 (quick) / 40: the uncompressed search must report them like any compressed one
    for k in (range(1, 13) if ctx.quick else range(1, 41)):
        x, y = rng.sample(gens.AA, 2)
        seqs = ['C' + x * k + 'F', 'C' + y * k + 'F', 'C' + x * (k - 1) + y + 'F', 'C' + x * k + y + 'F']
        rng.shuffle(seqs)
        for comp in (1, rng.choice([2, 3, 5, 7, 19, 20])):
            cases.append(dict(n=len(seqs), ncpu=rng.choice([1, 2]), mode='default', seqs=list(seqs), comp=comp, mr=None, k=k, which=0, maxc=None))
    # long sequences (full-length chains rather than CDR3s): bin counts beyond one byte - lengths on both sides of 127/128 and of 255/256,
    # neighbours by one insertion; with compression >= 20 every residue falls into one bin, with compression 1 no bin is large
    for t in range(4 if ctx.quick else 30):
        L = rng.choice([126, 127, 127, 255]) if t % 2 == 0 else rng.randint(120, 135)
        s1 = ''.join(rng.choice(gens.AA[:rng.choice([2, 20])]) for _ in range(L))
        ins = lambda s: (lambda j: s[:j] + rng.choice(gens.AA) + s[j:])(rng.randint(0, len(s)))
        sub = lambda s: (lambda j: s[:j] + rng.choice(gens.AA) + s[j + 1:])(rng.randrange(len(s)))
        seqs = [s1, ins(s1), sub(s1), ins(ins(s1)), s1[1:]]
        rng.shuffle(seqs)
        ctx.count('long_sequences')
        for comp in (1, 20, rng.choice([16, 25])):
            cases.append(dict(n=len(seqs), ncpu=rng.choice([1, 2]), mode='default', seqs=list(seqs), comp=comp, mr=None, k=rng.choice([1, 2]),
                              which=0, maxc=None))
    outs = ctx.oracle.run_parallel([_request(c) for c in cases])
    exact_same = 0
    for c, exp in zip(cases, outs):
        truth = canon_model(exp)
        g = call_impl(lambda: nn.kdtree(list(c['seqs']), **_kwargs(c)))
        nt = bool(truth) and (c['ncpu'] > 1 or c['comp'] > 1 or c['mr'] is not None)
        ctx.count('n_cpu>len' if c['ncpu'] > c['n'] else ('n_cpu=1' if c['ncpu'] == 1 else 'n_cpu>1'))
        ctx.count('mode=' + c['mode'])
        ctx.count('max_returns=%s' % c['mr'])
        desc = _desc(c)
        ctx.case(sample=desc if nt else None, nontrivial_key=tuple(sorted((k_, str(v)) for k_, v in desc.items())) if nt else None)
        bad = judge(c, g, truth)
        if bad:
            ctx.violation('property', bad[1], desc, site=bad[0])
    # model cross-check of top-m / stable order through the algorithm-mirroring model (auxiliary statistics + vm_compute)
    small = []
    for t in range(12 if ctx.quick else 80):
        seqs = repertoire(rng, rng.randint(2, 9))
        k, comp, mr = rng.choice([1, 2]), rng.choice([1, 3, 20]), rng.choice([None, 1, 2])
        small.append((k, comp, mr, seqs))
    outs = ctx.oracle.run([('api_kdtree_lev', [k, comp, mr, seqs]) for k, comp, mr, seqs in small])
    for (k, comp, mr, seqs), o in zip(small, outs):
        g = call_impl(lambda: nn.kdtree(list(seqs), max_edits=k, compression=comp, max_returns=mr))
        same = g[0] == 'ok' and [tuple(map(int, x)) for x in g[1]] == [tuple(x) for x in o]
        exact_same += bool(same)
        ctx.add_vm('api_kdtree_lev', [k, comp, mr, seqs], o)
        ctx.case(nontrivial_key=('order', k, comp, mr, tuple(seqs)) if o else None)
        if g[0] != 'ok' or (mr is None and canon_triplets(g[1]) != canon_model(o)):
            ctx.violation('property', 'kdtree differs from the algorithm model on %s' % seqs, dict(seqs=seqs, k=k, comp=comp, mr=mr),
                          site='nn.kdtree[config]')
    ctx.extra['aux_identical_order_with_model'] = dict(cases=len(small), identical=exact_same,
                                                       note='exact list order incl. tie order; auxiliary, never decides')
    # call histories: state left behind by one call (parameter block, pools, caches) must not reach the next one
    run_histories(ctx, nn, histories(rng, 8 if ctx.quick else 150))
    ctx.assumptions += ['multiprocessing.Pool.map returns results in task order for any chunksize >= 1 (modelled contract)',
                        'fork start method: workers inherit the module-level parameter block',
                        'which OS interleaving occurs is not controlled; the theorem covers every schedule of the modelled pool']


def replay(ctx, obj):
    """Re-runs the stored call (or, for a history, the stored calls in order, in this one process) and compares each with the model."""
    import pyrepseq.nn as nn
    r = obj['replay']
    steps = [_undesc(x) for x in r['history']] if r.get('history') else [_undesc(r)]
    for st in steps:
        if st['mode'] == 'custom' and st['which'] is None:
            st['mode'], st['maxc'] = 'default', None           # replay files written before the distance index was recorded
    outs = ctx.oracle.run([_request(st) for st in steps])
    for t, (c, exp) in enumerate(zip(steps, outs)):
        g = call_impl(lambda: nn.kdtree(list(c['seqs']), **_kwargs(c)))
        ctx.case(sample=_desc(c))
        bad = judge(c, g, canon_model(exp))
        if bad:
            ctx.violation('property', 'replay, call %d of %d: %s' % (t + 1, len(steps), bad[1]), r, site=bad[0])
            break
