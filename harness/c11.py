"""C11 - kdtree results are independent of worker count, chunking and compression."""
import functools
import os
from fractions import Fraction
import numpy as np
import gens
from gens import repertoire, canon_triplets, canon_model
from core import call_impl
import customs

# input kinds of the widened families (audit): container of the sequences, output format, kind of distance callable
CONTS = ['list', 'tuple', 'list_npstr', 'ndarray_U', 'ndarray_object', 'series_default', 'series_shifted', 'series_permuted',
         'series_string', 'series_stringdtype', 'index']
OUTS = ['triplets', 'coo_matrix', 'ndarray']
DKINDS = ['lambda', 'def', 'partial', 'object', 'method', 'npfloat', 'builtin']


def container(kind, seqs, width=None):
    """The sequences in the given container kind (positions are what the triplets refer to, whatever the labels are)."""
    import pandas as pd
    n = len(seqs)
    if kind == 'tuple':
        return tuple(seqs)
    if kind == 'list_npstr':
        return [np.str_(s) for s in seqs]
    if kind == 'ndarray_U':
        return np.array(list(seqs), dtype='<U%d' % max([width or 1] + [len(s) for s in seqs]))
    if kind == 'ndarray_object':
        a = np.empty(n, dtype=object)
        a[:] = list(seqs)
        return a
    if kind == 'series_default':
        return pd.Series(list(seqs), dtype=object)
    if kind == 'series_shifted':
        return pd.Series(list(seqs), index=range(5, 5 + n), dtype=object)
    if kind == 'series_permuted':
        return pd.Series(list(seqs), index=list(reversed(range(n))), dtype=object)
    if kind == 'series_string':
        return pd.Series(list(seqs), index=['r%d' % i for i in range(n)], dtype=object)
    if kind == 'series_stringdtype':
        return pd.Series(list(seqs), dtype='string')
    if kind == 'index':
        return pd.Index(list(seqs), dtype=object)
    return list(seqs)


def _apply(f, a, b):
    return f(a, b)


class _Dist:
    """A distance given as an object with __call__ / as a bound method instead of a plain function."""

    def __init__(self, f):
        self.f = f

    def __call__(self, a, b):
        return self.f(a, b)

    def dist(self, a, b):
        return self.f(a, b)


def distance_callable(which, kind):
    """Model distance number `which` (customs.make) as a callable of the given kind; the values are the same for every kind."""
    f = customs.make(which)
    if kind == 'def':
        def dist(a, b):
            return f(a, b)
        return dist
    if kind == 'partial':
        return functools.partial(_apply, f)
    if kind == 'object':
        return _Dist(f)
    if kind == 'method':
        return _Dist(f).dist
    if kind == 'npfloat':
        return lambda a, b: np.float64(f(a, b))
    if kind == 'builtin' and which == 0:
        from rapidfuzz.distance import Levenshtein as RL
        return RL.distance                                    # a C function: no __code__, no closure
    return f


def band_lev(a, b, k):
    """The Levenshtein distance of a and b if it is <= k, else None: the textbook dynamic programme restricted to the diagonals
    |i - j| <= k (a cell outside the band is > k, and every cell on a path of cost <= k lies inside it).  Pure Python, independent
    of the implementation; used as the specification where the extracted model is too slow (sequences of hundreds to 2**16 residues)."""
    la, lb = len(a), len(b)
    if abs(la - lb) > k:
        return None
    inf = k + 1
    w = 2 * k + 1                                             # row i holds the columns j = i - k .. i + k at offsets 0 .. 2k
    prev = [inf] * w
    for j in range(0, min(lb, k) + 1):
        prev[j + k] = j                                       # row 0: offset j - 0 + k
    for i in range(1, la + 1):
        cur = [inf] * w
        ai = a[i - 1]
        for o in range(w):
            j = i - k + o
            if j < 0 or j > lb:
                continue
            if j == 0:
                v = i
            else:
                v = prev[o] + (ai != b[j - 1])                # diagonal: (i-1, j-1) has offset o in the previous row
                if o + 1 < w and prev[o + 1] + 1 < v:         # (i-1, j): offset o + 1
                    v = prev[o + 1] + 1
                if o > 0 and cur[o - 1] + 1 < v:              # (i, j-1): offset o - 1
                    v = cur[o - 1] + 1
            cur[o] = v if v < inf else inf
        prev = cur
    d = prev[lb - la + k]
    return d if d <= k else None


def _py_custom(which, a, b, e):
    """Value of model distance `which` on a pair at Levenshtein distance e (None for the weighted distance 4: not computed here)."""
    if which == 0:
        return Fraction(e)
    if which == 1:
        return Fraction(3 * e)
    if which == 2:
        return Fraction(e, 2)
    if which == 3:
        return Fraction(abs(len(a) - len(b)))
    if which == 5:
        return Fraction(0 if a == b else (sum(map(ord, a)) + sum(map(ord, b))) % 7)
    return None


_PY_MEMO = {}


def py_truth(c):
    key = (c['mode'], c['k'], c['which'] if c['mode'] == 'custom' else None, c['maxc'] if c['mode'] == 'custom' else None, tuple(c['seqs']))
    if key not in _PY_MEMO:
        if len(_PY_MEMO) > 64:
            _PY_MEMO.clear()
        _PY_MEMO[key] = _py_truth(c)
    return _PY_MEMO[key]


def _py_truth(c):
    """The specification computed directly (all ordered pairs i != j; neighbour iff Levenshtein <= max_edits [and custom distance <=
    max_custom_distance] / equal length and Hamming <= max_edits), canonical like canon_model.  Cross-checked against the extracted
    model on the ordinary cases of every run."""
    seqs, k = c['seqs'], c['k']
    out = []
    for i in range(len(seqs)):
        for j in range(i + 1, len(seqs)):
            a, b = seqs[i], seqs[j]
            if c['mode'] == 'hamming':
                if len(a) != len(b):
                    continue
                d = sum(1 for x, y in zip(a, b) if x != y)
                if d > k:
                    continue
                d = Fraction(d)
            else:
                e = band_lev(a, b, k)
                if e is None:
                    continue
                d = Fraction(e)
                if c['mode'] == 'custom':
                    d = _py_custom(c['which'], a, b, e)
                    if d is None:
                        raise ValueError('distance %d is not computed by py_truth' % c['which'])
                    if c['maxc'] is not None and d > Fraction(c['maxc']):
                        continue
            out += [(i, j, d), (j, i, d)]
    return sorted(out)


def topm_ok(got, truth, m):
    """got / truth: canonical triplets; the max_returns contract of the property."""
    by_i = {}
    for i, j, d in truth:
        by_i.setdefault(i, {})[j] = d
    rep = {}
    for i, j, d in got:
        if j in rep.setdefault(i, {}):
            return 'pair (%d,%d) repeated' % (i, j)
        rep[i][j] = d
    for i in set(by_i) | set(rep):
        t, r = by_i.get(i, {}), rep.get(i, {})
        if len(r) != min(m, len(t)):
            return 'sequence %d reports %d neighbours, expected min(%d, %d)' % (i, len(r), m, len(t))
        for j, d in r.items():
            if j not in t or t[j] != d:
                return 'reported (%d,%d,%s) is not a true neighbour with exact distance' % (i, j, d)
        omitted = [d for j, d in t.items() if j not in r]
        if omitted and r and min(omitted) < max(r.values()):
            return 'sequence %d: an omitted neighbour at distance %s is closer than a reported one at %s' % (i, min(omitted), max(r.values()))
    return None


def _entry(x):
    return Fraction(float(x)).limit_denominator(10 ** 6)


def matrix_ok(m, n, truth, mr):
    """m: the dense form of a coo_matrix / ndarray result.  Docstring of kdtree: C[j, i] = d for a reported (i, j, d), 0 where nothing is
    reported, shape (len(seqs), len(seqs)); column i therefore shows the reported neighbours of sequence i at non-zero distance."""
    if tuple(m.shape) != (n, n):
        return 'matrix of shape %s, expected (%d, %d)' % (tuple(m.shape), n, n)
    by_i = {}
    for i, j, d in truth:
        by_i.setdefault(i, {})[j] = d
    for i in range(n):
        t = by_i.get(i, {})
        col = {j: _entry(m[j, i]) for j in range(n) if m[j, i] != 0}
        if mr is None:
            exp = {j: d for j, d in t.items() if d != 0}
            if col != exp:
                bad = sorted(set(col.items()) ^ set(exp.items()))[:4]
                return 'column %d of the matrix differs from the neighbours of sequence %d (row, distance): %s' % (i, i, [(j, str(d)) for j, d in bad])
            continue
        for j, d in col.items():
            if t.get(j) != d:
                return 'matrix entry (%d,%d)=%s is not a true neighbour with exact distance' % (j, i, d)
        # neighbours at distance 0 are invisible in a matrix; they are the closest ones, so a conforming result reports them first
        zeros = sum(1 for d in t.values() if d == 0)
        want = min(mr, len(t))
        if len(col) != want - min(zeros, want):
            return ('sequence %d shows %d non-zero neighbours in the matrix, expected min(%d, %d) minus the %d at distance 0' %
                    (i, len(col), mr, len(t), min(zeros, want)))
        omitted = [d for j, d in t.items() if d != 0 and j not in col]
        if omitted and col and min(omitted) < max(col.values()):
            return 'sequence %d: an omitted neighbour at distance %s is closer than a reported one at %s' % (i, min(omitted), max(col.values()))
    return None


def _kwargs(c):
    kw = dict(max_edits=c['k'], n_cpu=c['ncpu'], compression=c['comp'], max_returns=c['mr'])
    if c['mode'] == 'hamming':
        kw['custom_distance'] = 'hamming'
    elif c['mode'] == 'custom':
        kw['custom_distance'] = distance_callable(c['which'], c.get('dk') or 'lambda')
        kw['max_custom_distance'] = float('inf') if c['maxc'] is None else c['maxc']
    if c['mode'] != 'custom' and c.get('maxc_nc') and c['maxc'] is not None:
        kw['max_custom_distance'] = c['maxc']                 # documented: ignored if no custom distance is supplied
    if c.get('ot') and c['ot'] != 'triplets':
        kw['output_type'] = c['ot']
    return kw


def _arg(c):
    return container(c.get('cont') or 'list', c['seqs'])


def _request(c):
    if c['mode'] == 'default':
        return ('api_brute_self_lev', [c['k'], c['seqs']])
    if c['mode'] == 'hamming':
        return ('api_brute_self_ham', [c['k'], c['seqs']])
    return ('api_brute_self_custom', [c['which'], c['k'], None if c['maxc'] is None else Fraction(c['maxc']), c['seqs']])


def truths(ctx, cases):
    """Expected neighbour lists: the extracted model, or (cases marked truth='spec_py': very long sequences) py_truth."""
    model = [c for c in cases if c.get('truth') != 'spec_py']
    outs = iter(ctx.oracle.run_parallel([_request(c) for c in model]))
    return [py_truth(c) if c.get('truth') == 'spec_py' else canon_model(next(outs)) for c in cases]


def _desc(c):
    return dict(seqs=c['seqs'], n_cpu=c['ncpu'], compression=c['comp'], max_returns=c['mr'], max_edits=c['k'], mode=c['mode'],
                custom=customs.NAMES[c['which']] if c['mode'] == 'custom' else None, which=c['which'] if c['mode'] == 'custom' else None,
                max_custom_distance=c['maxc'], container=c.get('cont') or 'list', output_type=c.get('ot') or 'triplets',
                distance_kind=(c.get('dk') or 'lambda') if c['mode'] == 'custom' else None,
                max_custom_distance_passed_without_custom_distance=bool(c.get('maxc_nc')) and c['mode'] != 'custom',
                truth=c.get('truth') or 'model', inplace=c.get('inplace'), between=c.get('between'), family=c.get('fam'))


def _undesc(r):
    which = r.get('which')
    if which is None and r.get('custom') in customs.NAMES:
        which = customs.NAMES.index(r['custom'])
    return dict(seqs=list(r['seqs']), n=len(r['seqs']), ncpu=r['n_cpu'], comp=r['compression'], mr=r['max_returns'], k=r['max_edits'],
                mode=r['mode'], which=which, maxc=r.get('max_custom_distance'), cont=r.get('container'), ot=r.get('output_type'),
                dk=r.get('distance_kind'), maxc_nc=r.get('max_custom_distance_passed_without_custom_distance'), truth=r.get('truth'),
                inplace=r.get('inplace'), between=r.get('between'), fam=r.get('family'))


def histories(rng, count):
    """Call HISTORIES: several kdtree calls made one after the other in ONE process on the same / overlapping sequences, with
    different custom distance callables, max_custom_distance, modes and configurations; the first call single-process, later ones
    with n_cpu = 1 and > 1 (forked workers inherit whatever the earlier calls left behind in the parent).  The property quantifies
    over every single call, so each call of a history must equal the model for ITS OWN parameters, whatever was called before."""
    out = []
    for h in range(count):
        base = repertoire(rng, rng.choice([5, 7, 9, 12, 16]))
        order = rng.sample(range(6), 6)                      # every step of a history uses another distance callable
        k0 = rng.choice([1, 2, 2, 3])
        steps, prev_maxc = [], 'x'
        for s in range(rng.randint(3, 6)):
            if s < 2 or rng.random() < 0.7:
                mode = 'custom'
            else:
                mode = rng.choice(['default', 'hamming'])
            how = rng.random()
            if s == 0 or how < 0.55:
                seqs = list(base)                             # the same list again
            elif how < 0.75:
                seqs = list(base)
                rng.shuffle(seqs)                             # same sequences at other indices
            else:
                seqs = rng.sample(base, max(2, (2 * len(base)) // 3)) + repertoire(rng, rng.randint(1, 4))
                rng.shuffle(seqs)                             # overlapping list
            maxc = rng.choice([m for m in (None, None, 1, 2, 3, 6) if m != prev_maxc or m is None])
            prev_maxc = maxc
            if s == 0:
                ncpu = 1
            elif s == 1:
                ncpu = rng.choice([1, 2, 3, 4])
            else:
                ncpu = rng.choice([1, 2, 3, 5, 8, 16])
            steps.append(dict(n=len(seqs), ncpu=ncpu, mode=mode, seqs=seqs, comp=rng.choice([1, 1, 1, 2, 5, 20]),
                              mr=rng.choice([None, None, None, 1, 2]), k=k0 if rng.random() < 0.8 else rng.choice([1, 2, 3]),
                              which=order[s], maxc=maxc))
        if all(st['ncpu'] == 1 for st in steps[1:]):
            steps[-1]['ncpu'] = rng.choice([2, 3, 4])
        out.append(steps)
    return out


def judge(c, g, truth):
    """None, or (site, message) when the result g = call_impl(kdtree ...) of case c breaks the property (truth: model)."""
    how = 'n_cpu=%d, compression=%d, max_returns=%s, %s' % (c['ncpu'], c['comp'], c['mr'], c['mode'])
    for key, dflt in (('cont', 'list'), ('ot', 'triplets'), ('dk', 'lambda')):
        if c.get(key) and c[key] != dflt and (key != 'dk' or c['mode'] == 'custom'):
            how += ', %s' % c[key]
    if g[0] != 'ok':
        return ('nn.kdtree[n_cpu>len]' if c['ncpu'] > c['n'] else 'nn.kdtree[config]',
                'kdtree(%d sequences, %s) raised %s' % (c['n'], how, g[1]))
    seqs = c['seqs'] if sum(map(len, c['seqs'])) < 4000 else ['%s.. (%d residues)' % (s[:12], len(s)) for s in c['seqs']]
    if c.get('ot') and c['ot'] != 'triplets':
        try:
            m = g[1].toarray() if c['ot'] == 'coo_matrix' else np.asarray(g[1])
            why = matrix_ok(m, len(c['seqs']), truth, c['mr'])
        except Exception as e:
            why = 'result not interpretable as a matrix: %r' % (e,)
        if why:
            return ('nn.kdtree[max_returns]' if c['mr'] is not None else 'nn.kdtree[config]',
                    'kdtree result (%s) breaks the property: %s on %s' % (how, why, seqs))
        return None
    try:
        got = canon_triplets(g[1])
    except Exception as e:
        return ('nn.kdtree[config]', 'kdtree result (%s) not interpretable as triplets: %r' % (how, e))
    if c['mr'] is None:
        if got != truth:
            return ('nn.kdtree[config]', 'kdtree result depends on configuration: %s on %s: %s' % (how, seqs, gens.diff_triplets(got, truth)))
    else:
        why = topm_ok(got, truth, c['mr'])
        if why:
            return ('nn.kdtree[max_returns]', 'max_returns=%d contract broken (%s; %s) on %s' % (c['mr'], why, how, seqs))
    return None


def inplace_histories(rng, count):
    """Histories on ONE caller-owned object (list / ndarray / Series) that is refilled IN PLACE between the calls (same length): a
    sliding window, a buffer that is reused.  Some steps leave the content as it is (the very same call again, or another configuration on
    the same object), some swap two entries, some overwrite entries.  Between the kdtree calls, other engines of the module may be
    called on the same object with a distance callable of their own (module-level state shared across functions).  Each kdtree call
    must equal the model for the CONTENT AT THE TIME OF THE CALL and its own parameters."""
    out = []
    for h in range(count):
        kind = ['ndarray_object', 'list', 'ndarray_U', 'series_shifted', 'series_default', 'list_npstr'][h % 6]
        cur = repertoire(rng, rng.choice([5, 8, 12]))
        order = rng.sample(range(6), 6)
        k0 = rng.choice([1, 2, 2])
        steps = []
        for s in range(rng.randint(3, 5)):
            how = rng.random()
            if s > 0 and 0.2 <= how < 0.4 and len(cur) > 1:
                i, j = rng.sample(range(len(cur)), 2)
                cur[i], cur[j] = cur[j], cur[i]
            elif s > 0 and how >= 0.4 and len(cur) > 1:
                # overwrite entries by a copy / a one- or two-edit variant of ANOTHER entry: new neighbour pairs at these positions
                for i in rng.sample(range(len(cur)), rng.randint(1, max(1, len(cur) // 2))):
                    cur[i] = gens.mutate(rng, rng.choice(cur[:i] + cur[i + 1:]), gens.AA, rng.randint(0, 2))
            if s > 0 and rng.random() < 0.6:
                # the usual way a reused buffer is processed: the very same configuration again on the new content
                st = dict(steps[-1], seqs=list(cur), between=rng.choice([None, None, 'symdel', 'hash_based', 'nearest_neighbor']))
                if rng.random() < 0.4:
                    st['ncpu'] = rng.choice([1, 2, 3])
                steps.append(st)
                continue
            mode = 'custom' if rng.random() < 0.5 else rng.choice(['default', 'default', 'hamming'])
            steps.append(dict(n=len(cur), ncpu=1 if s == 0 else rng.choice([1, 2, 2, 3]), mode=mode, seqs=list(cur),
                              comp=rng.choice([1, 1, 2, 5, 20]), mr=rng.choice([None, None, None, 1, 2]),
                              k=k0 if rng.random() < 0.8 else rng.choice([1, 2]), which=order[s], maxc=rng.choice([None, None, 1, 1.5, 2, 3]),
                              dk=rng.choice(DKINDS), inplace=kind, fam='inplace_history',
                              between=rng.choice([None, None, 'symdel', 'hash_based', 'nearest_neighbor']) if s > 0 else None))
        if all(st['ncpu'] == 1 for st in steps[1:]):
            steps[-1]['ncpu'] = rng.choice([2, 3])
        out.append(steps)
    return out


def exec_history(nn, steps):
    """Runs the kdtree calls of one history in this process, in order; yields (t, step, result of call_impl)."""
    kind = steps[0].get('inplace')
    obj = None
    if kind:
        width = max(len(s) for st in steps for s in st['seqs'])
        obj = container(kind, steps[0]['seqs'], width=width)
    for t, c in enumerate(steps):
        if kind and t > 0:
            for i, s in enumerate(c['seqs']):                   # refill the caller's object in place
                if kind.startswith('series'):
                    obj.iloc[i] = s
                else:
                    obj[i] = np.str_(s) if kind == 'list_npstr' else s
        if c.get('between'):
            # another engine on the same object with ANOTHER distance callable (its result belongs to other properties)
            other = customs.make(((c['which'] if c['mode'] == 'custom' else 0) + 1) % 6)
            call_impl(lambda: getattr(nn, c['between'])(obj if kind else list(c['seqs']), max_edits=1, custom_distance=other))
        yield t, c, call_impl(lambda: nn.kdtree(obj if kind else _arg(c), **_kwargs(c)))


def run_histories(ctx, nn, hists):
    """Runs every history step by step in this process; reports the first broken step of a history with the calls before it."""
    flat = [st for steps in hists for st in steps]
    outs = iter(truths(ctx, flat))
    for steps in hists:
        exp = [next(outs) for _ in steps]
        broken = False
        for t, c, g in exec_history(nn, steps):
            truth = exp[t]
            nt = bool(truth) and t > 0
            pre = 'in-place history' if c.get('inplace') else 'history'
            ctx.count(pre + ' step mode=' + c['mode'])
            ctx.count(pre + (' step n_cpu=1' if c['ncpu'] == 1 else ' step n_cpu>1'))
            if c.get('inplace'):
                ctx.count('in-place history object=' + c['inplace'])
                if t > 0:
                    ctx.count('in-place history step: ' + ('content unchanged' if c['seqs'] == steps[t - 1]['seqs'] else 'content modified'))
                if c.get('between'):
                    ctx.count('in-place history: other engine called in between')
            desc = _desc(c)
            ctx.case(sample=dict(desc, history_step=t) if nt else None,
                     nontrivial_key=('history', t) + tuple(sorted((k_, str(v)) for k_, v in desc.items())) if nt else None)
            bad = judge(c, g, truth)
            if bad and not broken:
                broken = True                                  # later steps of a broken history are not independent evidence
                before = [_desc(x) for x in steps[:t]]
                ctx.violation('property', 'call %d of a history of kdtree calls in one process%s (earlier calls: %s): %s' %
                              (t + 1, ' on one %s refilled in place' % c['inplace'] if c.get('inplace') else '',
                               '; '.join('%s%s n_cpu=%d' % (b['mode'], '' if b['custom'] is None else '[' + b['custom'] + ']',
                                                            b['n_cpu']) for b in before) or 'none', bad[1]),
                              dict(desc, history=before + [desc]), site=bad[0])


def _edit(rng, s, op, alphabet=gens.AA):
    j = rng.randrange(len(s))
    if op == 'ins':
        return s[:j] + rng.choice(alphabet) + s[j:]
    if op == 'del':
        return s[:j] + s[j + 1:]
    return s[:j] + rng.choice([x for x in alphabet if x != s[j]]) + s[j + 1:]


def wide_cases(ctx, rng):
    """Case families added by the coverage audit (NOTES.md): input kinds the property quantifies over that the families above never
    produce.  Every case carries fam=...; expected values from the extracted model, or from py_truth for very long sequences."""
    import c07
    q = ctx.quick
    out = []

    def case(fam, seqs, **kw):
        c = dict(n=len(seqs), ncpu=1, mode='default', seqs=list(seqs), comp=1, mr=None, k=1, which=0, maxc=None, fam=fam)
        c.update(kw)
        if c['mode'] == 'custom' and c.get('truth') == 'spec_py' and c['which'] == 4:
            c['which'] = 2
        if c['mode'] == 'custom' and c.get('dk') == 'builtin':
            c['which'] = 0                                      # the C function is the plain Levenshtein distance
        out.append(c)
        return c

    # (A) container kind x output format x kind of distance callable x max_custom_distance (0, fractional, float-typed) x compression
    #     beyond the alphabet size x max_custom_distance given although no custom distance is, all under a non-default configuration
    for t in range(55 if q else 700):
        mode = ['default', 'hamming', 'custom'][t % 3]
        n = rng.choice([2, 3, 4, 6, 9, 13, 20])
        seqs = c07.ham_repertoire(rng, n) if mode == 'hamming' else repertoire(rng, n)
        c = case('wide', seqs, mode=mode, ncpu=rng.choice([1, 2, 2, 3, 4]), comp=rng.choice([1, 2, 4, 20, 26, 40, 100, 1000]),
                 mr=rng.choice([None, None, 1, 2, 5]), k=rng.choice([1, 2, 3]), which=rng.randrange(6),
                 maxc=rng.choice([None, 0, 0.5, 1, 1.5, 2, 2.5, 3.0, 6]), cont=CONTS[t % len(CONTS)], ot=OUTS[(t // 3) % 3],
                 dk=DKINDS[(t // 3) % len(DKINDS)], maxc_nc=(t // 3) % 2 == 0)
        if mode == 'custom' and c['dk'] != 'builtin' and rng.random() < 0.6:
            # thresholds that some pair is likely to sit exactly on / just beside: lev/2 against 0.5, 1.5, ...; 0 against duplicates
            c['which'], c['maxc'] = rng.choice([(2, 0.5), (2, 1.5), (2, 1.0), (2, 1), (2, 2.5), (0, 0), (5, 0), (1, 3.0), (4, 2.5), (4, 4.0), (3, 0.5)])
            c['k'] = rng.choice([2, 3])
        if c['ncpu'] == 1 and c['comp'] == 1 and c['mr'] is None:
            c['ncpu'] = 2
    # (B) worker counts around the number of sequences (n - 1, n, n + 1, 2n) and one far beyond it
    for t in range(9 if q else 120):
        mode = ['default', 'hamming', 'custom'][t % 3]
        n = rng.randint(2, 9)
        seqs = (c07.ham_repertoire(rng, n) if mode == 'hamming' else repertoire(rng, n))
        n = len(seqs)
        ncpu = max(1, [n - 1, n, n + 1, 2 * n][(t // 3) % 4]) if t else 32
        case('n_cpu_near_n', seqs, mode=mode, ncpu=ncpu, comp=rng.choice([1, 3]), mr=rng.choice([None, 1]), k=rng.choice([1, 2]),
             which=rng.randrange(6), maxc=rng.choice([None, 2]), cont=rng.choice(CONTS))
    # (C) many sequences (beyond 127 / 255 sequences, KD-tree of several levels, chunks of hundreds of queries)
    for t, n in enumerate([130, 260] if q else [130, 200, 255, 256, 257, 300, 400, 400, 1000]):
        mode = ['default', 'custom', 'hamming'][t % 3]
        seqs = c07.ham_repertoire(rng, n) if mode == 'hamming' else repertoire(rng, n)
        case('many_sequences', seqs, mode=mode, ncpu=rng.choice([2, 3, 4]), comp=rng.choice([1, 2, 5]), mr=rng.choice([None, 3]),
             k=rng.choice([1, 2]), which=rng.choice([1, 2, 4]), maxc=rng.choice([None, 3]), cont=rng.choice(['list', 'ndarray_U', 'series_shifted']))
    # (D) one sequence with very many neighbours and max_returns up to / at / beyond their number
    for t in range(3 if q else 40):
        mode = ['default', 'hamming', 'custom'][t % 3]
        root = 'C' + ''.join(rng.choice(gens.AA) for _ in range(rng.randint(8, 13))) + 'F'
        cnt = rng.randint(40, 90) if q else rng.randint(40, 300)
        seqs = [root] + [_edit(rng, root, 'sub' if mode == 'hamming' else rng.choice(['sub', 'ins', 'del'])) for _ in range(cnt)]
        seqs += [root] * rng.randint(0, 3) + repertoire(rng, rng.randint(0, 5))
        rng.shuffle(seqs)
        case('hub', seqs, mode=mode, ncpu=rng.choice([1, 2, 3]), comp=rng.choice([1, 2, 20]),
             mr=rng.choice([cnt - 1, cnt, cnt + 1, cnt + 50, cnt // 2, 10, 33, 64, 65]), k=rng.choice([1, 2]), which=rng.choice([0, 2, 3, 5]),
             maxc=None, ot=rng.choice(OUTS))
    # (E) long sequences beyond the reach of the model (hundreds to thousands of residues) in all three modes: expected values from py_truth
    for t in range(4 if q else 60):
        mode = ['default', 'hamming', 'custom', 'default'][t % 4]
        L = rng.choice([257, 300, 513, 700] if q else [257, 300, 513, 700, 1000, 1025, 2000, 4100])
        s1 = ''.join(rng.choice(gens.AA[:rng.choice([1, 2, 3, 20])]) for _ in range(L))
        ops = ['sub'] if mode == 'hamming' else ['sub', 'ins', 'del']
        seqs = [s1] + [_edit(rng, s1, rng.choice(ops)) for _ in range(2)]
        seqs += [_edit(rng, _edit(rng, s1, rng.choice(ops)), rng.choice(ops)), _edit(rng, _edit(rng, _edit(rng, s1, 'sub'), 'sub'), 'sub'), s1]
        rng.shuffle(seqs)
        for comp in (1, rng.choice([2, 7, 20, 25])):
            case('long_sequences_spec_py', seqs, mode=mode, ncpu=rng.choice([1, 2]), comp=comp, mr=rng.choice([None, None, 2]),
                 k=rng.choice([1, 2, 3]), which=rng.choice([0, 1, 2, 3, 5]), maxc=rng.choice([None, 1, 3]), truth='spec_py')
    # (F) bin counts on both sides of 127/128 and 255/256 at EQUAL length (Hamming and custom modes): one residue exchanged for the
    #     frequent one moves its count across the byte boundary while the length stays
    for t in range(4 if q else 40):
        mode = ['hamming', 'custom'][t % 2]
        big = rng.choice([127, 255])
        x, y, z = rng.sample(gens.AA, 3)
        body = list(x * big + y * rng.randint(3, 9) + z * rng.randint(0, 4))
        rng.shuffle(body)
        s1 = ''.join(body)
        j = s1.index(y)
        s2 = s1[:j] + x + s1[j + 1:]                            # count of x: big -> big + 1
        j = s2.index(y) if y in s2 else 0
        s3 = s2[:j] + x + s2[j + 1:]                            # big + 2
        seqs = [s1, s2, s3, _edit(rng, s1, 'sub'), s1[1:]]
        rng.shuffle(seqs)
        for comp in (1, rng.choice([1, 2, 20])):
            case('byte_boundary_equal_length', seqs, mode=mode, ncpu=rng.choice([1, 2]), comp=comp, mr=rng.choice([None, None, 1]),
                 k=rng.choice([1, 2]), which=rng.choice([0, 2, 5]), maxc=None, truth='spec_py')
    # (G) 2**15 (and 2**16 in the thorough tier) residues in one bin: counts beyond 16-bit integers
    for P in ([15] if q else [15, 15, 16]):
        N = 2 ** P
        x, y = rng.sample(gens.AA, 2)
        seqs = [x * (N - 1), x * N, x * (N + 1), x * (N - 1) + y, y + x * (N - 2)]
        rng.shuffle(seqs)
        for mode, comp, ncpu in (('default', 1, 1), ('default', 20, 2), ('hamming', rng.choice([1, 3]), rng.choice([1, 2]))):
            case('two_to_the_%d_residues' % P, seqs, mode=mode, ncpu=ncpu, comp=comp, k=rng.choice([1, 2]), truth='spec_py')
    # (H) Hamming mode: every sequence of another length (buckets of one sequence each, workers > bucket size), and all of one length
    for t in range(4 if q else 40):
        if t % 2 == 0:
            lens = rng.sample(range(1, 15), rng.randint(2, 9))
            seqs = [''.join(rng.choice(gens.AA) for _ in range(L)) for L in lens]
        else:
            L = rng.randint(3, 9)
            root = ''.join(rng.choice(gens.AA) for _ in range(L))
            seqs = [_edit(rng, _edit(rng, root, 'sub'), 'sub') for _ in range(rng.randint(2, 12))]
        case('hamming_buckets', seqs, mode='hamming', ncpu=rng.choice([2, 3] if q else [2, 3, 5]), comp=rng.choice([1, 4]), mr=rng.choice([None, 1, 2]),
             k=rng.choice([1, 2, 3]), cont=rng.choice(CONTS), ot=rng.choice(OUTS))
    # (I) pairs exactly on the pre-filter radius in Hamming and custom modes (the family above runs them in default mode only)
    for t in range(6 if q else 60):
        k = rng.randint(1, 6 if q else 12)
        x, y = rng.sample(gens.AA, 2)
        seqs = ['C' + x * k + 'F', 'C' + y * k + 'F', 'C' + x * (k - 1) + y + 'F', 'C' + x * k + y + 'F']
        rng.shuffle(seqs)
        case('on_radius_modes', seqs, mode=['hamming', 'custom'][t % 2], ncpu=rng.choice([1, 2]), comp=rng.choice([1, 1, 2, 7, 20]),
             k=k, which=rng.choice([0, 1, 2, 5]), maxc=None, dk=rng.choice(DKINDS), ot=rng.choice(OUTS))
    return out


def run(ctx):
    import pyrepseq.nn as nn
    rng = ctx.rng
    ctx.rule = ('kdtree on amino-acid lists of size 1..40 x n_cpu in 1..16 (every ratio incl. n_cpu > len(seqs), non-dividing chunk '
                'sizes; real Pool processes) x compression 1..25 x max_returns in {None,1,2,3,7} x mode {default, hamming, custom}; '
                'every result compared with the model (= single-process uncompressed semantics) and, for max_returns, with the '
                'top-m contract; plus call HISTORIES (3-6 consecutive kdtree calls in one process on the same / overlapping sequences with different '
                'custom distance callables, max_custom_distance, modes, n_cpu = 1 first and then 1 or > 1), every call compared with the '
                'model for its own parameters; plus the audit families (fam=...): container kind (list, tuple, list of np.str_, ndarray <U / object, '
                'Series with default / shifted / reversed / string index / string dtype, Index) x output_type (triplets, coo_matrix, ndarray; '
                'matrices judged column by column) x kind of distance callable (lambda, def, partial, object, bound method, NumPy-valued, C '
                'function) x max_custom_distance in {0, fractional, float-typed, given without custom distance} x compression up to 1000; '
                'n_cpu in {n-1, n, n+1, 2n, 32}; 130-260 (thorough: 1000) sequences; one sequence with 40-300 neighbours and max_returns '
                'around their number; sequences of 257-4100 and 2**15 (2**16) residues and bin counts across 127/128, 255/256 at equal '
                'length in Hamming / custom mode (expected values: direct computation of the specification, cross-checked with the model on '
                'the ordinary cases); Hamming buckets of one sequence / one bucket; on-radius pairs in Hamming / custom mode; histories on ONE '
                'list / ndarray / Series refilled in place between the calls, other engines called in between. '
                'non-trivial := (n_cpu > 1 or compression > 1 or max_returns given, or the call is a later '
                'step of a history) and the expected result is non-empty')
    cases = []
    sizes = list(range(1, 13)) + [16, 17, 23, 31, 40]
    ncase = 70 if ctx.quick else 2500
    for t in range(ncase):
        n = rng.choice(sizes)
        if t < 16:
            n, ncpu = rng.choice([1, 2, 3, 5]), t + 1          # n_cpu > len(seqs)
        else:
            ncpu = rng.choice([1, 2, 3, 4, 5, 7, 8, 16])
        mode = ['default', 'hamming', 'custom'][t % 3]
        seqs = repertoire(rng, n) if mode != 'hamming' else None
        if mode == 'hamming':
            import c07
            seqs = c07.ham_repertoire(rng, n)
        comp = rng.choice([1, 1, 2, 3, 5, 7, 10, 19, 20, 21, 25])
        mr = rng.choice([None, None, 1, 2, 3, 7])
        if t % 8 == 7 and seqs:
            # a sequence repeated more often than max_returns + 1: ties at distance 0 around the query itself
            mr = rng.choice([1, 2, 3])
            seqs = seqs + [rng.choice(seqs)] * (mr + rng.randint(2, 4))
            rng.shuffle(seqs)
            n = len(seqs)
        k = rng.choice([1, 2, 3])
        which = rng.randrange(6)
        maxc = rng.choice([None, 1, 2, 3, 6])
        cases.append(dict(n=n, ncpu=ncpu, mode=mode, seqs=seqs, comp=comp, mr=mr, k=k, which=which, maxc=maxc))
    # pairs exactly ON the pre-filter radius: k substitutions of one residue by one other residue (squared histogram distance 2k^2),
    # for every k up to 12 (quick) / 40: the uncompressed search must report them like any compressed one
    for k in (range(1, 13) if ctx.quick else range(1, 41)):
        x, y = rng.sample(gens.AA, 2)
        seqs = ['C' + x * k + 'F', 'C' + y * k + 'F', 'C' + x * (k - 1) + y + 'F', 'C' + x * k + y + 'F']
        rng.shuffle(seqs)
        for comp in (1, rng.choice([2, 3, 5, 7, 19, 20])):
            cases.append(dict(n=len(seqs), ncpu=rng.choice([1, 2]), mode='default', seqs=list(seqs), comp=comp, mr=None, k=k, which=0, maxc=None))
    # long sequences (full-length chains rather than CDR3s): bin counts beyond one byte - lengths on both sides of 127/128 and of 255/256,
    # neighbours by one insertion; with compression >= 20 every residue falls into one bin, with compression 1 no bin is large
    for t in range(4 if ctx.quick else 30):
        L = rng.choice([126, 127, 127, 255]) if t % 2 == 0 else rng.randint(120, 135)
        s1 = ''.join(rng.choice(gens.AA[:rng.choice([2, 20])]) for _ in range(L))
        ins = lambda s: (lambda j: s[:j] + rng.choice(gens.AA) + s[j:])(rng.randint(0, len(s)))
        sub = lambda s: (lambda j: s[:j] + rng.choice(gens.AA) + s[j + 1:])(rng.randrange(len(s)))
        seqs = [s1, ins(s1), sub(s1), ins(ins(s1)), s1[1:]]
        rng.shuffle(seqs)
        ctx.count('long_sequences')
        for comp in (1, 20, rng.choice([16, 25])):
            cases.append(dict(n=len(seqs), ncpu=rng.choice([1, 2]), mode='default', seqs=list(seqs), comp=comp, mr=None, k=rng.choice([1, 2]),
                              which=0, maxc=None))
    cases += wide_cases(ctx, rng)
    exp = truths(ctx, cases)
    exact_same = 0
    # the directly computed specification (used for the very long sequences) must agree with the extracted model where both are available
    xc = [(c, e) for c, e in zip(cases, exp) if c.get('truth') != 'spec_py' and not (c['mode'] == 'custom' and c['which'] == 4)
          and sum(map(len, c['seqs'])) < 600][:40 if ctx.quick else 400]
    for c, e in xc:
        if py_truth(c) != e:
            raise RuntimeError('harness self-check: py_truth and the extracted model disagree on %r' % (_desc(c),))
    ctx.count('spec_py cross-checked with the model', len(xc))
    for c, truth in zip(cases, exp):
        g = call_impl(lambda: nn.kdtree(_arg(c), **_kwargs(c)))
        nt = bool(truth) and (c['ncpu'] > 1 or c['comp'] > 1 or c['mr'] is not None)
        ctx.count('n_cpu>len' if c['ncpu'] > c['n'] else ('n_cpu=1' if c['ncpu'] == 1 else 'n_cpu>1'))
        ctx.count('mode=' + c['mode'])
        ctx.count('max_returns=%s' % (c['mr'] if c['mr'] is None or c['mr'] <= 7 else '>7'))
        if c.get('fam'):
            ctx.count('family=' + c['fam'])
            ctx.count('container=' + (c.get('cont') or 'list'))
            ctx.count('output=' + (c.get('ot') or 'triplets'))
            if c['mode'] == 'custom':
                ctx.count('distance callable=' + (c.get('dk') or 'lambda'))
                ctx.count('max_custom_distance ' + ('inf' if c['maxc'] is None else 'fractional' if c['maxc'] != int(c['maxc']) else
                                                    'float-typed' if isinstance(c['maxc'], float) else 'int'))
            elif c.get('maxc_nc') and c['maxc'] is not None:
                ctx.count('max_custom_distance passed without custom distance')
            if (c.get('ot') or 'triplets') != 'triplets' and c['mr'] is not None:
                ctx.count('matrix output with max_returns')
            if c['comp'] > 25:
                ctx.count('compression>25')
        desc = _desc(c)
        if len(desc['seqs']) and sum(map(len, desc['seqs'])) > 4000:
            desc_s = None                                       # very long sequences: not stored as evidence samples
        else:
            desc_s = desc
        ctx.case(sample=desc_s if nt else None, nontrivial_key=tuple(sorted((k_, str(v)) for k_, v in desc.items())) if nt else None)
        bad = judge(c, g, truth)
        if not bad and c['mr'] is not None and (c.get('ot') or 'triplets') == 'triplets' and (c['comp'] > 1 or c['ncpu'] > 1) and g[0] == 'ok':
            # with max_returns the statement still says "exactly the result of the single-process uncompressed run": WHICH of several
            # neighbours tied at the cut-off distance are reported must not depend on the configuration either (seeded change C11-r7m1)
            kw0 = dict(_kwargs(c), n_cpu=1, compression=1)
            g0 = call_impl(lambda: nn.kdtree(_arg(c), **kw0))
            ctx.count('max_returns: compared with the single-process uncompressed run')
            try:
                same = g0[0] == 'ok' and canon_triplets(g0[1]) == canon_triplets(g[1])
            except Exception:
                same = False
            if not same:
                bad = ('nn.kdtree[max_returns]', 'kdtree(%d sequences, n_cpu=%d, compression=%d, max_returns=%d, %s) reports other neighbours than the '
                       'single-process uncompressed run with the same max_returns: %s vs %s on %s' %
                       (c['n'], c['ncpu'], c['comp'], c['mr'], c['mode'], str(g[1])[:300], str(g0[1])[:300] if g0[0] == 'ok' else g0,
                        c['seqs'] if sum(map(len, c['seqs'])) < 3000 else '(long sequences)'))
        if bad:
            ctx.violation('property', bad[1], desc, site=bad[0])
    # model cross-check of top-m / stable order through the algorithm-mirroring model (auxiliary statistics + vm_compute)
    small = []
    for t in range(12 if ctx.quick else 80):
        seqs = repertoire(rng, rng.randint(2, 9))
        k, comp, mr = rng.choice([1, 2]), rng.choice([1, 3, 20]), rng.choice([None, 1, 2])
        small.append((k, comp, mr, seqs))
    outs = ctx.oracle.run([('api_kdtree_lev', [k, comp, mr, seqs]) for k, comp, mr, seqs in small])
    for (k, comp, mr, seqs), o in zip(small, outs):
        g = call_impl(lambda: nn.kdtree(list(seqs), max_edits=k, compression=comp, max_returns=mr))
        same = g[0] == 'ok' and [tuple(map(int, x)) for x in g[1]] == [tuple(x) for x in o]
        exact_same += bool(same)
        ctx.add_vm('api_kdtree_lev', [k, comp, mr, seqs], o)
        ctx.case(nontrivial_key=('order', k, comp, mr, tuple(seqs)) if o else None)
        if g[0] != 'ok' or (mr is None and canon_triplets(g[1]) != canon_model(o)):
            ctx.violation('property', 'kdtree differs from the algorithm model on %s' % seqs, dict(seqs=seqs, k=k, comp=comp, mr=mr),
                          site='nn.kdtree[config]')
    ctx.extra['aux_identical_order_with_model'] = dict(cases=len(small), identical=exact_same,
                                                       note='exact list order incl. tie order; auxiliary, never decides')
    # call histories: state left behind by one call (parameter block, pools, caches) must not reach the next one
    run_histories(ctx, nn, histories(rng, 8 if ctx.quick else 150))
    run_histories(ctx, nn, inplace_histories(rng, 12 if ctx.quick else 100))
    ctx.assumptions += ['multiprocessing.Pool.map returns results in task order for any chunksize >= 1 (modelled contract)',
                        'fork start method: workers inherit the module-level parameter block',
                        'which OS interleaving occurs is not controlled; the theorem covers every schedule of the modelled pool']


def replay(ctx, obj):
    """Re-runs the stored call (or, for a history, the stored calls in order, in this one process) and compares each with the model."""
    import pyrepseq.nn as nn
    r = obj['replay']
    steps = [_undesc(x) for x in r['history']] if r.get('history') else [_undesc(r)]
    for st in steps:
        if st['mode'] == 'custom' and st['which'] is None:
            st['mode'], st['maxc'] = 'default', None           # replay files written before the distance index was recorded
    exp = truths(ctx, steps)
    for t, c, g in exec_history(nn, steps):
        ctx.case(sample=_desc(c))
        bad = judge(c, g, exp[t])
        if bad:
            ctx.violation('property', 'replay, call %d of %d: %s' % (t + 1, len(steps), bad[1]), r, site=bad[0])
            break
