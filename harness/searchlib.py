"""Side-by-side runs of search engines (implementation) and their Coq models (oracle)."""
from fractions import Fraction
from core import call_impl, jsonable
from gens import canon_triplets, canon_model, diff_triplets, has_indel_pair, has_dup_pair, shrink_list


class Case:
    def __init__(self, desc, impl, req, seqs=None, seqs2=None, site=None, remake=None, nontrivial=None, expect_exc=False):
        """impl: thunk returning triplets; req: (func, args) for the oracle;
        remake(seqs) -> (impl thunk, req) for shrinking; nontrivial(expected) -> bool."""
        self.desc, self.impl, self.req = desc, impl, req
        self.seqs, self.seqs2, self.site, self.remake, self.nontrivial = seqs, seqs2, site, remake, nontrivial


def vm_cost(req):
    """Rough work estimate of a search request when evaluated by vm_compute inside Coq (association lists, unary nat):
    number of deletion variants / ball members over all strings.  Only cheap requests are cross-checked in the kernel."""
    import math
    func, args = req
    k = next((a for a in args if isinstance(a, int) and not isinstance(a, bool)), 1)
    strs = [x for a in args if isinstance(a, (list, tuple)) for x in a if isinstance(x, str)]
    if 'brute' in func or 'kdtree' in func:
        # all pairs x a quadratic DP on unary nat
        L = max((len(x) for x in strs), default=0) + 1
        return len(strs) * len(strs) * L * L // 40
    if 'hash' in func or 'lookupdb' in func or 'ball' in func:
        return sum((40 * (len(x) + 1)) ** min(k, 3) for x in strs)
    return sum(sum(math.comb(len(x), j) for j in range(min(k, len(x)) + 1)) for x in strs)


def run_cases(ctx, cases, vm_every=0, parallel=True):
    reqs = [c.req for c in cases]
    outs = ctx.oracle.run_parallel(reqs) if parallel else ctx.oracle.run(reqs)
    nviol = 0
    for n, (c, exp) in enumerate(zip(cases, outs)):
        if isinstance(exp, Exception):
            raise exp
        expected = canon_model(exp)
        got = call_impl(c.impl)
        ok = got[0] == 'ok'
        if ok:
            try:
                impl = canon_triplets(got[1])
            except Exception as e:
                ok, impl = False, repr(e)
        nt = c.nontrivial(expected) if c.nontrivial else (len(expected) > 0)
        ctx.case(sample=dict(case=c.desc, seqs=c.seqs if c.seqs is None or len(c.seqs) <= 12 else c.seqs[:12] + ['...'],
                             result=[(a, b, str(d)) for a, b, d in expected[:8]]) if nt else None,
                 nontrivial_key=(c.desc, tuple(c.seqs or ()), tuple(c.seqs2 or ())) if nt else None)
        if vm_every and n % vm_every == 0 and len(str(c.req)) < 1500 and len(exp) < 60 and vm_cost(c.req) < 400:
            ctx.add_vm(c.req[0], c.req[1], exp)
        if ok and impl == expected:
            continue
        nviol += 1
        if nviol > 5:
            continue
        # a concrete failing input; shrink it when possible
        seqs = c.seqs
        detail = got if not ok else diff_triplets(impl, expected)
        if c.remake is not None and c.seqs is not None:
            def fails(ss):
                th, rq = c.remake(ss)
                e = ctx.oracle.run([rq])[0]
                g = call_impl(th)
                return not (g[0] == 'ok' and canon_triplets(g[1]) == canon_model(e))
            try:
                seqs = shrink_list(c.seqs, fails)
                th, rq = c.remake(seqs)
                e = canon_model(ctx.oracle.run([rq])[0])
                g = call_impl(th)
                detail = g if g[0] != 'ok' else diff_triplets(canon_triplets(g[1]), e)
            except Exception:
                seqs = c.seqs
        ctx.violation('property', '%s: implementation differs from the proved model on %s: %s' %
                      (c.desc, seqs if seqs is not None else c.req, jsonable(detail)),
                      dict(case=c.desc, seqs=seqs, seqs2=c.seqs2, detail=jsonable(detail), request=jsonable(c.req)),
                      site=c.site)
    return nviol
