"""C09: oracle entry points of coq/extract/Api_c09.v."""
from proto import L, O, T, STRS

W3 = T('nat', 'nat', 'nat')                    # insertion, deletion, substitution
W5 = T('N', 'N', 'N', 'N', 'N')                # alpha, beta, cdr1, cdr2, cdr3
GENES = L(T('str', T('str', 'str')))           # allele -> (CDR1, CDR2)
ROWS = L(T('str', 'str', 'str', 'str', 'str'))  # (label, TRAV, CDR3A, TRBV, CDR3B)

SIGS = {
    'api_c09_cdist': (['nat', 'nat', W3, W5, GENES, 'bool', STRS, ROWS, 'bool', STRS, ROWS], T('nat', L(L('N')))),
    'api_c09_pdist': (['nat', 'nat', W3, W5, GENES, 'bool', STRS, ROWS], T('nat', L('N'))),
    'api_c09_spec_cdist': (['nat', 'nat', W3, W5, GENES, ROWS, ROWS], L(L('N'))),
    'api_c09_spec_pdist': (['nat', 'nat', W3, W5, GENES, ROWS], L('N')),
    'api_c09_is_table': (['bool', STRS], T('bool', 'bool')),
    'api_c09_class_scope': (['str'], O(T('nat', 'nat'))),
}
