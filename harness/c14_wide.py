"""C14, widened input space of the engines with a callable custom distance (coverage audit): containers, omitted / positional
arguments, kinds of callables, options documented as ignored, kdtree speed options, matrix outputs, sizes (1, long, many),
alphabets, second collections, histories over module-level state and containers refilled in place.
Expected values: the proved brute-force model (oracle) wherever it is fast enough; for long / many sequences an independent
computation of the specification (all pairs, Levenshtein <= max_edits and custom <= max_custom_distance)."""
import functools
from fractions import Fraction
import numpy as np
import pandas as pd
from rapidfuzz.distance import Levenshtein as RL
import gens
from gens import repertoire, canon_triplets, canon_model, diff_triplets, mutate, AA
from core import call_impl
import customs

INF = float('inf')


# ------------------------------------------------------------------ independent specification (long / many sequences)
def pure_lev(a, b, k):
    """min(Levenshtein distance, k + 1) by the textbook dynamic programme restricted to the diagonal band of half-width k (cells outside
    the band are > k); no third-party code: used for the long-sequence cases."""
    if abs(len(a) - len(b)) > k:
        return k + 1
    big = k + 1
    prev = {j: j for j in range(0, min(len(b), k) + 1)}
    for i in range(1, len(a) + 1):
        cur = {}
        for j in range(max(0, i - k), min(len(b), i + k) + 1):
            if j == 0:
                cur[j] = i
                continue
            cur[j] = min(prev.get(j, big) + 1, cur.get(j - 1, big) + 1, prev.get(j - 1, big) + (a[i - 1] != b[j - 1]), big)
        prev = cur
    return prev.get(len(b), big)


def spec_pairs(refs, queries, which, k, maxc, self_mode, pure=False):
    """All (q, r, d) inside both radii.  maxc None = infinite radius."""
    cd = customs.make(which)
    out = []
    if pure:
        close = [(q, r) for q in range(len(queries)) for r in range(len(refs)) if pure_lev(queries[q], refs[r], k) <= k]
    else:
        from rapidfuzz.process import cdist
        m = cdist(list(queries), list(refs), scorer=RL.distance, score_cutoff=k)
        close = [(int(q), int(r)) for q, r in zip(*np.nonzero(np.asarray(m) <= k))]
    for q, r in close:
        if self_mode and q == r:
            continue
        d = Fraction(cd(queries[q], refs[r]))
        if maxc is None or d <= Fraction(maxc):
            out.append((q, r, d))
    return sorted(out)


# ------------------------------------------------------------------ kinds of inputs
def containers(rng, seqs):
    n = len(seqs)
    perm = list(range(n))
    rng.shuffle(perm)
    return {
        'tuple': lambda: tuple(seqs),
        'ndarray_str': lambda: np.array(list(seqs)),
        'ndarray_object': lambda: np.array(list(seqs), dtype=object),
        'list_of_np_str': lambda: [np.str_(s) for s in seqs],
        'series_default': lambda: pd.Series(list(seqs), dtype=object),
        'series_shifted': lambda: pd.Series(list(seqs), index=range(5, 5 + n), dtype=object),
        'series_permuted': lambda: pd.Series(list(seqs), index=perm, dtype=object),
        'series_string_index': lambda: pd.Series(list(seqs), index=['r%d' % i for i in range(n)], dtype=object),
        'series_repeated_labels': lambda: pd.Series(list(seqs), index=[i // 2 for i in range(n)], dtype=object),
        'dataframe_column': lambda: pd.DataFrame(dict(x=list(range(n)), cdr3=list(seqs)), index=perm)['cdr3'],
    }


class _Dist:
    def __init__(self, which):
        self.f = customs.make(which)

    def __call__(self, a, b):
        return self.f(a, b)

    def method(self, a, b):
        return self.f(a, b)


def _scaled(which, a, b):
    return customs.make(which)(a, b)


def callables(which):
    f = customs.make(which)

    def plain(a, b):
        return f(a, b)

    def with_default(a, b, scale=1):
        return scale * f(a, b)

    def np_scalar(a, b):
        v = f(a, b)
        return np.float64(v) if isinstance(v, float) else np.int64(v)

    def as_float(a, b):
        return float(f(a, b))
    out = {'def': plain, 'def_with_default_arg': with_default, 'partial': functools.partial(_scaled, which), 'instance': _Dist(which),
           'bound_method': _Dist(which).method, 'returns_numpy_scalar': np_scalar, 'returns_float': as_float}
    if which == 0:
        out['rapidfuzz_builtin'] = RL.distance
    return out


def maxc_py(rng, maxc):
    if maxc is None:
        return INF
    if Fraction(maxc).denominator == 1 and rng.random() < 0.5:
        return int(maxc)
    return float(maxc)


RADII = [None, 0, 1, Fraction(1, 2), Fraction(3, 2), 2, 3, 4, 6]


def decode(out, output_type):
    """-> ('triplets', canonical triplets) or ('dense', 2-D list of Fractions)."""
    if output_type == 'coo_matrix':
        return 'triplets', canon_triplets([(int(c), int(r), d) for r, c, d in zip(out.row, out.col, out.data)]), tuple(out.shape)
    if output_type == 'ndarray':
        a = np.asarray(out)
        return 'dense', a, tuple(a.shape)
    return 'triplets', canon_triplets(out), None


class Job:
    def __init__(self, family, desc, thunk, req=None, exp=None, replay=None, output_type='triplets', shape=None, sound_only=None,
                 site=None):
        self.family, self.desc, self.thunk, self.req, self.exp = family, desc, thunk, req, exp
        self.replay, self.output_type, self.shape, self.sound_only, self.site = replay or {}, output_type, shape, sound_only, site


def judge(job, got, expected):
    """None when the answer is the stated one, else a description of the difference."""
    if got[0] != 'ok':
        return 'raised / gave no answer: %s' % (got[1],)
    try:
        kind, val, shape = decode(got[1], job.output_type)
    except Exception as e:
        return 'result cannot be read as %s: %r' % (job.output_type, e)
    if job.shape is not None and shape is not None and tuple(shape) != tuple(job.shape):
        return 'matrix shape %s, expected %s' % (shape, job.shape)
    if kind == 'dense':
        want = {}
        for q, r, d in expected:
            want[(r, q)] = d
        a = val
        if a.ndim != 2:
            return 'dense output is not 2-dimensional'
        for (r, q), d in want.items():
            if Fraction(float(a[r, q])).limit_denominator(10 ** 6) != d:
                return 'entry [%d, %d] is %s, expected %s' % (r, q, a[r, q], d)
        nz = [(int(r), int(q)) for r, q in zip(*np.nonzero(a)) if (int(r), int(q)) not in want]
        if nz:
            return 'entry [%d, %d] is %s, expected 0 (no such pair inside both radii)' % (nz[0][0], nz[0][1], a[nz[0]])
        return None
    if job.sound_only is not None:
        m = job.sound_only
        truth = set(expected)
        seen, per = set(), {}
        for t in val:
            if t not in truth:
                return 'reported %s is not a pair inside both radii with its custom distance' % (t,)
            if (t[0], t[1]) in seen:
                return 'pair (%d, %d) reported twice' % (t[0], t[1])
            seen.add((t[0], t[1]))
            per[t[0]] = per.get(t[0], 0) + 1
        if per and max(per.values()) > m:
            return 'a sequence reports %d neighbours with max_returns=%d' % (max(per.values()), m)
        return None
    if val != expected:
        return str(diff_triplets(val, expected))
    return None


def run_jobs(ctx, jobs):
    reqs = [j.req for j in jobs if j.req is not None]
    outs = iter(ctx.oracle.run_parallel(reqs))
    bad = {}
    for j in jobs:
        if j.req is not None:
            e = next(outs)
            if isinstance(e, Exception):
                raise e
            expected = canon_model(e)
            if j.exp is not None and sorted(j.exp) != expected:
                # the independent computation of the specification and the proved model disagree: neither side is the library
                ctx.violation('correspondence', 'harness: independent specification and model disagree on %s: %s' % (j.desc, diff_triplets(sorted(j.exp), expected)),
                              dict(j.replay), site='harness.c14_wide.spec_vs_model')
            elif j.exp is not None:
                ctx.count('wide_spec_vs_model_agree')
        else:
            expected = sorted(j.exp)
        got = call_impl(j.thunk)
        ctx.count('wide_' + j.family)
        ctx.case(nontrivial_key=('wide', j.family, j.desc, str(j.replay)[:400]) if expected else None)
        why = judge(j, got, expected)
        if why is None:
            continue
        bad[j.family] = bad.get(j.family, 0) + 1
        if bad[j.family] > 2:
            continue
        rep = dict(family=j.family, case=j.desc, expected=[(a, b, str(d)) for a, b, d in expected[:12]], why=why[:400])
        rep.update(j.replay)
        ctx.violation('property', '%s: %s - differs from the pairs inside both radii: %s' % (j.family, j.desc, why[:500]), rep,
                      site=j.site or 'nn.%s[custom,%s]' % (j.replay.get('engine', '?'), j.family))


def short_seqs(rng, n, maxlen=11):
    return [s for s in repertoire(rng, n) if len(s) <= maxlen] or ['CAF', 'CAW']


def run(ctx):
    import pyrepseq.nn as nn
    rng = ctx.rng
    q = ctx.quick
    jobs = []
    ENG = ['symdel', 'nearest_neighbor', 'kdtree', 'hash_based']

    def pick(eng=None, nmax=24, kmax=2):
        which, k, maxc = rng.randrange(6), rng.choice([1, 1, 2][:kmax + 1]), rng.choice(RADII)
        seqs = repertoire(rng, rng.randint(2, nmax))
        if eng == 'hash_based':
            seqs = [s for s in seqs if len(s) <= (13 if k == 1 else 8)][:20] or ['CAF', 'CAW']
        return which, k, maxc, seqs

    def self_req(which, k, maxc, seqs):
        return ('api_brute_self_custom', [which, k, None if maxc is None else Fraction(maxc), list(seqs)])

    def cross_req(which, k, maxc, refs, qs):
        return ('api_brute_cross_custom', [which, k, None if maxc is None else Fraction(maxc), list(refs), list(qs)])

    def rp(engine, which, k, maxc, seqs, **more):
        d = dict(engine=engine, custom=customs.NAMES[which], which=which, max_edits=k, max_custom_distance=None if maxc is None else str(maxc),
                 seqs=list(seqs))
        d.update(more)
        return d

    # ---- (1) containers x finite / infinite custom radius, every engine, both collections, database objects
    for t in range(16 if q else 240):
        eng = ENG[t % 4]
        which, k, maxc, seqs = pick(eng)
        mc = maxc_py(rng, maxc)
        cs = containers(rng, seqs)
        cname = rng.choice(sorted(cs))
        fn, cd = getattr(nn, eng), customs.make(which)
        if eng in ('symdel', 'nearest_neighbor') and t % 8 >= 4:
            qs = rng.sample(seqs, min(3, len(seqs))) + [mutate(rng, rng.choice(seqs), AA, 1) for _ in range(rng.randint(1, 4))]
            c2 = containers(rng, qs)
            c2name = rng.choice(sorted(c2))
            jobs.append(Job('container', '%s(%s, seqs2=%s) custom=%s k=%d maxc=%s' % (eng, cname, c2name, customs.NAMES[which], k, maxc),
                            lambda fn=fn, a=cs[cname], b=c2[c2name], k=k, cd=cd, mc=mc: fn(a(), max_edits=k, custom_distance=cd, max_custom_distance=mc, seqs2=b()),
                            req=cross_req(which, k, maxc, seqs, qs), replay=rp(eng, which, k, maxc, seqs, seqs2=qs, container=cname, container2=c2name)))
        else:
            jobs.append(Job('container', '%s(%s) custom=%s k=%d maxc=%s' % (eng, cname, customs.NAMES[which], k, maxc),
                            lambda fn=fn, a=cs[cname], k=k, cd=cd, mc=mc: fn(a(), max_edits=k, custom_distance=cd, max_custom_distance=mc),
                            req=self_req(which, k, maxc, seqs), replay=rp(eng, which, k, maxc, seqs, container=cname)))
    for t in range(6 if q else 80):
        which, k, maxc = rng.randrange(6), rng.choice([1, 2]), rng.choice(RADII)
        ml = 11 if t % 2 or k == 1 else 7
        refs, qs = short_seqs(rng, rng.randint(3, 14), ml), short_seqs(rng, rng.randint(1, 6), ml)
        qs = qs + rng.sample(refs, min(2, len(refs)))
        cr, cq = containers(rng, refs), containers(rng, qs)
        rn, qn = rng.choice(sorted(cr)), rng.choice(sorted(cq))
        mkq = cq[qn]
        cd, mc = customs.make(which), maxc_py(rng, maxc)
        if t % 2:
            th = lambda a=cr[rn], b=mkq, k=k, cd=cd, mc=mc: nn.SymdelDB(a(), k).lookup(b(), custom_distance=cd, max_custom_distance=mc)
            eng = 'SymdelDB'
        else:
            th = lambda a=cr[rn], b=mkq, k=k, cd=cd, mc=mc: nn.LookupDB(a()).lookup(b(), max_edits=k, custom_distance=cd, max_custom_distance=mc)
            eng = 'LookupDB'
        jobs.append(Job('container', '%s(%s).lookup(%s) custom=%s k=%d maxc=%s' % (eng, rn, qn, customs.NAMES[which], k, maxc), th,
                        req=cross_req(which, k, maxc, refs, qs), replay=rp(eng, which, k, maxc, refs, seqs2=qs, container=rn, container2=qn),
                        site='nn.%s.lookup[custom,container]' % eng))

    # ---- (2) arguments left at their defaults / handed over by position
    for t in range(16 if q else 160):
        eng = ENG[t % 4]
        which, k, maxc, seqs = pick(eng)
        fn, cd, mc = getattr(nn, eng), customs.make(which), maxc_py(rng, maxc)
        form = ['no_max_custom_distance', 'no_max_edits', 'neither', 'positional'][(t // 4) % 4]
        if form == 'no_max_custom_distance':
            th, kk, mm = (lambda fn=fn, s=seqs, k=k, cd=cd: fn(list(s), max_edits=k, custom_distance=cd)), k, None
        elif form == 'no_max_edits':
            if eng == 'hash_based':
                seqs = [s for s in seqs if len(s) <= 13] or ['CAF', 'CAW']
            th, kk, mm = (lambda fn=fn, s=seqs, cd=cd, mc=mc: fn(list(s), custom_distance=cd, max_custom_distance=mc)), 1, maxc
        elif form == 'neither':
            if eng == 'hash_based':
                seqs = [s for s in seqs if len(s) <= 13] or ['CAF', 'CAW']
            th, kk, mm = (lambda fn=fn, s=seqs, cd=cd: fn(list(s), custom_distance=cd)), 1, None
        else:
            th, kk, mm = (lambda fn=fn, s=seqs, k=k, cd=cd, mc=mc: fn(list(s), k, None, 1, cd, mc)), k, maxc
        jobs.append(Job('defaults_' + form, '%s custom=%s k=%s maxc=%s' % (eng, customs.NAMES[which], kk, mm), th,
                        req=self_req(which, kk, mm, seqs), replay=rp(eng, which, kk, mm, seqs, call_form=form)))
    for t in range(6 if q else 60):
        which, k, maxc = rng.randrange(6), rng.choice([1, 2]), rng.choice(RADII)
        ml = 9 if k == 1 or t % 3 == 1 else 7
        refs, qs = short_seqs(rng, rng.randint(3, 14), ml), short_seqs(rng, rng.randint(1, 6), ml)
        cd, mc = customs.make(which), maxc_py(rng, maxc)
        form = t % 3
        if form == 0:      # LookupDB.lookup: max_edits defaults to 1, max_custom_distance to infinity
            th, kk, mm, eng = (lambda r=refs, s=qs, cd=cd: nn.LookupDB(list(r)).lookup(list(s), custom_distance=cd)), 1, None, 'LookupDB'
        elif form == 1:
            th, kk, mm, eng = (lambda r=refs, s=qs, k=k, cd=cd: nn.SymdelDB(list(r), k).lookup(list(s), cd)), k, None, 'SymdelDB'
        else:
            th, kk, mm, eng = (lambda r=refs, s=qs, k=k, cd=cd, mc=mc: nn.LookupDB(list(r)).lookup(list(s), k, False, cd, mc)), k, maxc, 'LookupDB'
        jobs.append(Job('defaults_db', '%s.lookup form %d custom=%s k=%s maxc=%s' % (eng, form, customs.NAMES[which], kk, mm), th,
                        req=cross_req(which, kk, mm, refs, qs), replay=rp(eng, which, kk, mm, refs, seqs2=qs, call_form=form),
                        site='nn.%s.lookup[custom,defaults]' % eng))

    # ---- (3) kinds of callables (def, default argument, functools.partial, instance with __call__, bound method, C function,
    #          NumPy scalar / float return values); kdtree also on two workers
    for t in range(20 if q else 240):
        eng = ENG[t % 4]
        which, k, maxc, seqs = pick(eng)
        kinds = callables(which)
        kind = rng.choice(sorted(kinds))
        fn, cd, mc = getattr(nn, eng), kinds[kind], maxc_py(rng, maxc)
        extra = dict(n_cpu=2) if eng == 'kdtree' and t % 8 == 2 else {}
        jobs.append(Job('callable_kind', '%s custom=%s given as %s k=%d maxc=%s %s' % (eng, customs.NAMES[which], kind, k, maxc, extra),
                        lambda fn=fn, s=seqs, k=k, cd=cd, mc=mc, extra=extra: fn(list(s), max_edits=k, custom_distance=cd, max_custom_distance=mc, **extra),
                        req=self_req(which, k, maxc, seqs), replay=rp(eng, which, k, maxc, seqs, callable_kind=kind, options=str(extra))))

    # ---- (4) options documented as ignored / not implemented change nothing; progress bars change nothing
    import io, contextlib
    def quiet(f):
        def g():
            with contextlib.redirect_stderr(io.StringIO()):
                return f()
        return g
    for t in range(16 if q else 160):
        eng = ['symdel', 'hash_based', 'nearest_neighbor', 'symdel'][t % 4]
        which, k, maxc, seqs = pick(eng)
        fn, cd, mc = getattr(nn, eng), customs.make(which), maxc_py(rng, maxc)
        opt = {}
        if rng.random() < 0.7:
            opt['n_cpu'] = rng.choice([2, 3, 64])
        if eng != 'nearest_neighbor' and rng.random() < 0.7:
            opt['max_returns'] = rng.choice([1, 1, 2, 3])
        elif rng.random() < 0.5:
            opt['max_returns'] = len(seqs) + rng.randint(0, 3)
        if eng != 'nearest_neighbor' and rng.random() < 0.5:
            opt['progress'] = True
        if not opt:
            opt['n_cpu'] = 2
        two = eng != 'hash_based' and t % 8 >= 4
        if two:
            qs = rng.sample(seqs, min(3, len(seqs))) + [mutate(rng, rng.choice(seqs), AA, 1) for _ in range(rng.randint(1, 4))]
            jobs.append(Job('ignored_options', '%s(seqs2) %s custom=%s k=%d maxc=%s' % (eng, opt, customs.NAMES[which], k, maxc),
                            quiet(lambda fn=fn, s=seqs, b=qs, k=k, cd=cd, mc=mc, opt=opt: fn(list(s), max_edits=k, custom_distance=cd, max_custom_distance=mc, seqs2=list(b), **opt)),
                            req=cross_req(which, k, maxc, seqs, qs), replay=rp(eng, which, k, maxc, seqs, seqs2=qs, options=str(opt))))
        else:
            jobs.append(Job('ignored_options', '%s %s custom=%s k=%d maxc=%s' % (eng, opt, customs.NAMES[which], k, maxc),
                            quiet(lambda fn=fn, s=seqs, k=k, cd=cd, mc=mc, opt=opt: fn(list(s), max_edits=k, custom_distance=cd, max_custom_distance=mc, **opt)),
                            req=self_req(which, k, maxc, seqs), replay=rp(eng, which, k, maxc, seqs, options=str(opt))))
    for t in range(6 if q else 60):
        which, k, maxc = rng.randrange(6), rng.choice([1, 2]), rng.choice(RADII)
        ml = 9 if k == 1 or t % 3 == 2 else 7
        refs = short_seqs(rng, rng.randint(3, 14), ml)
        cd, mc = customs.make(which), maxc_py(rng, maxc)
        if t % 3 == 0:
            # pdist_mode: the queries ARE the references, equal positions are skipped
            jobs.append(Job('lookupdb_pdist_mode', 'LookupDB.lookup(refs, pdist_mode=True, progress=%s) custom=%s k=%d maxc=%s' % (t % 2 == 0, customs.NAMES[which], k, maxc),
                            quiet(lambda r=refs, k=k, cd=cd, mc=mc, p=(t % 2 == 0): nn.LookupDB(list(r)).lookup(list(r), max_edits=k, pdist_mode=True, custom_distance=cd,
                                                                                                         max_custom_distance=mc, progress=p)),
                            req=self_req(which, k, maxc, refs), replay=rp('LookupDB', which, k, maxc, refs, options='pdist_mode=True'),
                            site='nn.LookupDB.lookup[custom,pdist_mode]'))
            continue
        qs = short_seqs(rng, rng.randint(1, 6), ml) + rng.sample(refs, min(2, len(refs)))
        if t % 3 == 1:
            th, eng = quiet(lambda r=refs, s=qs, k=k, cd=cd, mc=mc: nn.LookupDB(list(r)).lookup(list(s), max_edits=k, custom_distance=cd, max_custom_distance=mc, progress=True)), 'LookupDB'
        else:
            th, eng = quiet(lambda r=refs, s=qs, k=k, cd=cd, mc=mc: nn.SymdelDB(list(r), k).lookup(list(s), custom_distance=cd, max_custom_distance=mc, progress=True)), 'SymdelDB'
        jobs.append(Job('progress_bar', '%s.lookup(progress=True) custom=%s k=%d maxc=%s' % (eng, customs.NAMES[which], k, maxc), th,
                        req=cross_req(which, k, maxc, refs, qs), replay=rp(eng, which, k, maxc, refs, seqs2=qs, options='progress=True'),
                        site='nn.%s.lookup[custom,progress]' % eng))

    # ---- (5) kdtree speed options together with a custom radius: compression, workers, max_returns that cannot cut (exact) and
    #          max_returns that can (every reported triplet is a pair inside both radii with its custom distance, at most m per sequence)
    for t in range(14 if q else 200):
        which, k, maxc, seqs = pick('kdtree', nmax=30)
        k = rng.choice([1, 2, 3]) if t % 5 == 0 else k
        cd, mc = customs.make(which), maxc_py(rng, maxc)
        opt = {}
        if t % 2 == 0:
            opt['compression'] = rng.choice([2, 3, 4, 5, 7, 10, 19, 20, 21, 25])
        if t % 3 == 0:
            opt['n_cpu'] = rng.choice([2, 3, len(seqs) + 1 if len(seqs) <= 8 else 4])
        cut = None
        if t % 4 == 1:
            opt['max_returns'] = len(seqs) + rng.randint(-1, 2)
        elif t % 4 == 3:
            opt['max_returns'] = cut = rng.choice([1, 2, 3])
        if not opt:
            opt['compression'] = 2
        jobs.append(Job('kdtree_options' + ('_cutting_max_returns' if cut else ''), 'kdtree %s custom=%s k=%d maxc=%s' % (opt, customs.NAMES[which], k, maxc),
                        lambda s=seqs, k=k, cd=cd, mc=mc, opt=opt: nn.kdtree(list(s), max_edits=k, custom_distance=cd, max_custom_distance=mc, **opt),
                        req=self_req(which, k, maxc, seqs), replay=rp('kdtree', which, k, maxc, seqs, options=str(opt)), sound_only=cut))

    # ---- (6) matrix outputs carry the custom distance (finite radius as well): COO entries / dense entries against the expected pairs
    for t in range(16 if q else 200):
        eng = ENG[t % 4]
        which, k, maxc, seqs = pick(eng)
        fn, cd, mc = getattr(nn, eng), customs.make(which), maxc_py(rng, maxc)
        ot = ['coo_matrix', 'ndarray'][(t // 4) % 2]
        if eng in ('symdel', 'nearest_neighbor') and t % 8 >= 4:
            qs = rng.sample(seqs, min(3, len(seqs))) + [mutate(rng, rng.choice(seqs), AA, 1) for _ in range(rng.randint(1, 4))]
            jobs.append(Job('matrix_output', '%s(seqs2, output_type=%s) custom=%s k=%d maxc=%s' % (eng, ot, customs.NAMES[which], k, maxc),
                            lambda fn=fn, s=seqs, b=qs, k=k, cd=cd, mc=mc, ot=ot: fn(list(s), max_edits=k, custom_distance=cd, max_custom_distance=mc, seqs2=list(b), output_type=ot),
                            req=cross_req(which, k, maxc, seqs, qs), output_type=ot, shape=(len(seqs), len(qs)),
                            replay=rp(eng, which, k, maxc, seqs, seqs2=qs, output_type=ot)))
        else:
            jobs.append(Job('matrix_output', '%s(output_type=%s) custom=%s k=%d maxc=%s' % (eng, ot, customs.NAMES[which], k, maxc),
                            lambda fn=fn, s=seqs, k=k, cd=cd, mc=mc, ot=ot: fn(list(s), max_edits=k, custom_distance=cd, max_custom_distance=mc, output_type=ot),
                            req=self_req(which, k, maxc, seqs), output_type=ot, shape=(len(seqs), len(seqs)),
                            replay=rp(eng, which, k, maxc, seqs, output_type=ot)))

    # ---- (7) sizes: one sequence, two, all equal, one length only
    for t in range(16 if q else 96):
        eng = ENG[t % 4]
        which, k, maxc = rng.randrange(6), rng.choice([1, 2]), rng.choice(RADII)
        shape = ['single', 'pair', 'all_equal', 'one_length'][(t // 4) % 4]
        root = 'CAS' + ''.join(rng.choice(AA) for _ in range(rng.randint(0, 5)))
        if shape == 'single':
            seqs = [root]
        elif shape == 'pair':
            seqs = [root, mutate(rng, root, AA, rng.randint(0, 3))]
        elif shape == 'all_equal':
            seqs = [root] * rng.randint(2, 9)
        else:
            seqs = [''.join(rng.choice(c + 'A') for c in root) for _ in range(rng.randint(3, 16))]
        fn, cd, mc = getattr(nn, eng), customs.make(which), maxc_py(rng, maxc)
        jobs.append(Job('size_' + shape, '%s custom=%s k=%d maxc=%s n=%d' % (eng, customs.NAMES[which], k, maxc, len(seqs)),
                        lambda fn=fn, s=seqs, k=k, cd=cd, mc=mc: fn(list(s), max_edits=k, custom_distance=cd, max_custom_distance=mc),
                        req=self_req(which, k, maxc, seqs), replay=rp(eng, which, k, maxc, seqs)))

    # ---- (7b) max_edits of 4..6, also at / above the length of every sequence (deletion-variant engines and kdtree; the ball of hash_based
    #           grows as 400^k)
    for t in range(6 if q else 60):
        eng = ['symdel', 'kdtree', 'nearest_neighbor'][t % 3]
        which, k, maxc = rng.randrange(6), rng.choice([4, 5, 6]), rng.choice(RADII + [5, 7, 9, 12])
        seqs = [s for s in repertoire(rng, rng.randint(3, 14)) if len(s) <= (6 if t % 2 else 12)] or ['CAF', 'CAW', 'AAAAAA']
        fn, cd, mc = getattr(nn, eng), customs.make(which), maxc_py(rng, maxc)
        jobs.append(Job('large_max_edits', '%s custom=%s k=%d maxc=%s n=%d' % (eng, customs.NAMES[which], k, maxc, len(seqs)),
                        lambda fn=fn, s=seqs, k=k, cd=cd, mc=mc: fn(list(s), max_edits=k, custom_distance=cd, max_custom_distance=mc),
                        req=self_req(which, k, maxc, seqs), replay=rp(eng, which, k, maxc, seqs)))

    # ---- (8) long sequences (128 and more residues; 256 and more) and many sequences (> 1000): specification computed independently
    for t in range(8 if q else 48):
        eng = ENG[t % 4]
        which, k = rng.choice([0, 1, 2, 3, 4, 5]), (1 if eng == 'hash_based' else rng.choice([1, 2]))
        L = rng.choice([127, 128, 129, 131, 140]) if t % 2 == 0 or eng == 'hash_based' else rng.choice([255, 256, 257, 300])
        root = ''.join(rng.choice(AA) for _ in range(L))
        low = (t % 4 == 2 and t % 16 != 14) or t % 8 in (3, 5)        # kdtree nearly always: its composition vectors count letters
        if low:
            # low complexity: one letter occurs exactly 128 / 129 / 256 / 257 times, relatives one or two edits away have it 127 / 255 times
            L = rng.choice([128, 128, 129] if L < 200 else [256, 256, 257])
            root = rng.choice(AA) * L
        seqs = [mutate(rng, root, AA, rng.randint(0, 3)) for _ in range(rng.randint(3, 6))] + [root]
        if low:
            seqs += [mutate(rng, root, AA, 1), root[1:], root[2:]]
        if t % 3 == 0:
            seqs.append('CASSF')
        rng.shuffle(seqs)
        att = sorted({Fraction(customs.make(which)(a, b)) for a in seqs for b in seqs if a != b and abs(len(a) - len(b)) <= k})
        maxc = rng.choice([None] + att[:4] + [x - Fraction(1, 2) for x in att[:3] if x > 0])
        if low and t % 2 == 0:
            maxc = rng.choice([None] + att[-1:])        # the Levenshtein radius alone decides
        fn, cd, mc = getattr(nn, eng), customs.make(which), maxc_py(rng, maxc)
        exp = spec_pairs(seqs, seqs, which, k, maxc, True, pure=True)
        use_model = (t == 0) or (not q and L < 141 and t % 6 == 0)
        opt = dict(compression=rng.choice([2, 5, 20])) if eng == 'kdtree' and rng.random() < 0.5 else {}
        jobs.append(Job('long_sequences', '%s %s custom=%s k=%d maxc=%s lengths about %d n=%d' % (eng, opt, customs.NAMES[which], k, maxc, L, len(seqs)),
                        lambda fn=fn, s=seqs, k=k, cd=cd, mc=mc, opt=opt: fn(list(s), max_edits=k, custom_distance=cd, max_custom_distance=mc, **opt),
                        req=self_req(which, k, maxc, seqs) if use_model else None, exp=exp, replay=rp(eng, which, k, maxc, seqs, options=str(opt))))
    for t in range(4 if q else 16):
        eng = ENG[t % 4]
        n = rng.choice([1001, 1030, 1100]) if t < 4 or not q else 300
        which, k = rng.randrange(6), (1 if eng == 'hash_based' else rng.choice([1, 2]))
        seqs = repertoire(rng, n, maxmut=2)
        if eng == 'hash_based':
            seqs = [s if len(s) <= 13 else s[:13] for s in seqs]
        maxc = rng.choice([None, 1, 2, 3, Fraction(1, 2)])
        fn, cd, mc = getattr(nn, eng), customs.make(which), maxc_py(rng, maxc)
        opt = dict(n_cpu=2) if eng == 'kdtree' and t % 8 == 2 else {}
        exp = spec_pairs(seqs, seqs, which, k, maxc, True)
        jobs.append(Job('many_sequences', '%s %s custom=%s k=%d maxc=%s n=%d' % (eng, opt, customs.NAMES[which], k, maxc, len(seqs)),
                        lambda fn=fn, s=seqs, k=k, cd=cd, mc=mc, opt=opt: fn(list(s), max_edits=k, custom_distance=cd, max_custom_distance=mc, **opt),
                        exp=exp, replay=rp(eng, which, k, maxc, seqs[:40] + ['... %d in all, seed-determined' % len(seqs)], options=str(opt))))

    # ---- (9) alphabets beyond the twenty amino acids for the deletion-variant engines (hash_based / kdtree are stated for amino acids)
    ALPH = ['acdefghiklmnpqrstvwy', 'ACGT', 'XBZJOU*', '0123456789', 'AC ', 'éüαβ日本語', 'Aa']
    for t in range(8 if q else 80):
        eng = ['symdel', 'nearest_neighbor', 'SymdelDB', 'symdel_seqs2'][t % 4]
        al = rng.choice(ALPH)
        which, k, maxc = rng.randrange(6), rng.choice([1, 2]), rng.choice(RADII)
        seqs = [s for s in repertoire(rng, rng.randint(3, 20), alphabet=al)]
        seqs = [''.join(rng.choice(al) if c in 'CFW' and rng.random() < 0.7 else c for c in s) for s in seqs]
        cd, mc = customs.make(which), maxc_py(rng, maxc)
        if eng in ('symdel', 'nearest_neighbor'):
            fn = getattr(nn, eng)
            jobs.append(Job('alphabet', '%s alphabet %r custom=%s k=%d maxc=%s' % (eng, al, customs.NAMES[which], k, maxc),
                            lambda fn=fn, s=seqs, k=k, cd=cd, mc=mc: fn(list(s), max_edits=k, custom_distance=cd, max_custom_distance=mc),
                            req=self_req(which, k, maxc, seqs), replay=rp(eng, which, k, maxc, seqs, alphabet=al)))
        else:
            h = max(1, len(seqs) // 2)
            refs, qs = seqs[:h], seqs[h:] or seqs[:1]
            if eng == 'SymdelDB':
                th = lambda r=refs, s=qs, k=k, cd=cd, mc=mc: nn.SymdelDB(list(r), k).lookup(list(s), custom_distance=cd, max_custom_distance=mc)
            else:
                th = lambda r=refs, s=qs, k=k, cd=cd, mc=mc: nn.symdel(list(r), max_edits=k, custom_distance=cd, max_custom_distance=mc, seqs2=list(s))
            jobs.append(Job('alphabet', '%s alphabet %r custom=%s k=%d maxc=%s' % (eng, al, customs.NAMES[which], k, maxc), th,
                            req=cross_req(which, k, maxc, refs, qs), replay=rp(eng, which, k, maxc, refs, seqs2=qs, alphabet=al)))

    # ---- (10) second collections: the very same object as the first, empty, a single query, queries all equal; huge / tiny radii
    for t in range(10 if q else 100):
        eng = ['symdel', 'nearest_neighbor'][t % 2]
        which, k, maxc, seqs = pick(eng)
        fn, cd, mc = getattr(nn, eng), customs.make(which), maxc_py(rng, maxc)
        form = ['same_object', 'empty', 'single', 'all_equal', 'longer_than_refs'][(t // 2) % 5]
        if form == 'same_object':
            qs = seqs
            th = lambda fn=fn, s=seqs, k=k, cd=cd, mc=mc: (lambda obj: fn(obj, max_edits=k, custom_distance=cd, max_custom_distance=mc, seqs2=obj))(list(s))
        else:
            qs = dict(empty=[], single=[rng.choice(seqs)], all_equal=[rng.choice(seqs)] * 4,
                      longer_than_refs=seqs + [mutate(rng, s, AA, 1) for s in seqs])[form]
            th = lambda fn=fn, s=seqs, b=qs, k=k, cd=cd, mc=mc: fn(list(s), max_edits=k, custom_distance=cd, max_custom_distance=mc, seqs2=list(b))
        jobs.append(Job('seqs2_' + form, '%s custom=%s k=%d maxc=%s' % (eng, customs.NAMES[which], k, maxc), th,
                        req=cross_req(which, k, maxc, seqs, qs), replay=rp(eng, which, k, maxc, seqs, seqs2=list(qs), seqs2_form=form)))
    for t in range(8 if q else 64):
        eng = ENG[t % 4]
        which, k, _, seqs = pick(eng)
        mc = rng.choice([1e-9, 1e-300, 0.0, 0.4999999, 0.5000001, 1e18, 2 ** 70, 10 ** 30, 1.7976931348623157e308, 2.9999999, 3.0000001])
        fn, cd = getattr(nn, eng), customs.make(which)
        jobs.append(Job('extreme_radius', '%s custom=%s k=%d max_custom_distance=%r' % (eng, customs.NAMES[which], k, mc),
                        lambda fn=fn, s=seqs, k=k, cd=cd, mc=mc: fn(list(s), max_edits=k, custom_distance=cd, max_custom_distance=mc),
                        req=self_req(which, k, Fraction(mc), seqs), replay=rp(eng, which, k, repr(mc), seqs)))
    run_jobs(ctx, jobs)
    histories(ctx, nn)


def histories(ctx, nn):
    """Several calls in one process: module-level state of kdtree (parameter block of the workers) between custom / default / Hamming
    searches and other engines; containers refilled in place between calls; one LookupDB asked with and without pdist_mode."""
    rng, q = ctx.rng, ctx.quick

    def report(what, site, rep):
        ctx.violation('property', what, rep, site=site)

    # mixed-mode histories
    for t in range(5 if q else 60):
        steps = []
        for _ in range(rng.randint(3, 6)):
            eng = rng.choice(['kdtree', 'kdtree', 'kdtree', 'symdel', 'hash_based', 'nearest_neighbor'])
            mode = rng.choice(['custom', 'custom', 'default', 'hamming'])
            k = rng.choice([1, 2])
            seqs = repertoire(rng, rng.randint(3, 18))
            if eng == 'hash_based':
                seqs = [s for s in seqs if len(s) <= (13 if k == 1 else 8)] or ['CAF', 'CAW']
            opt = {}
            if eng == 'kdtree':
                if rng.random() < 0.4:
                    opt['n_cpu'] = 2
                if rng.random() < 0.3:
                    opt['compression'] = rng.choice([2, 5])
                if mode != 'custom' and rng.random() < 0.3:
                    opt['max_returns'] = 1
            steps.append(dict(engine=eng, mode=mode, which=rng.randrange(6), k=k, maxc=rng.choice([None, 0, 1, 2, 3, 6]), seqs=seqs, opt=opt))
        if not any(s['mode'] == 'custom' for s in steps[1:]):
            steps.append(dict(engine='kdtree', mode='custom', which=rng.randrange(6), k=1, maxc=rng.choice([None, 1, 2]),
                              seqs=repertoire(rng, rng.randint(3, 18)), opt={}))
        cust = [s for s in steps if s['mode'] == 'custom']
        outs = ctx.oracle.run([('api_brute_self_custom', [s['which'], s['k'], None if s['maxc'] is None else Fraction(s['maxc']), s['seqs']]) for s in cust])
        for s, e in zip(cust, outs):
            s['exp'] = canon_model(e)
        for n, s in enumerate(steps):
            fn = getattr(nn, s['engine'])
            if s['mode'] == 'custom':
                kw = dict(custom_distance=customs.make(s['which']), max_custom_distance=INF if s['maxc'] is None else s['maxc'])
            elif s['mode'] == 'hamming':
                kw = dict(custom_distance='hamming')
            else:
                kw = {}
            kw.update(s['opt'])
            g = call_impl(lambda: fn(list(s['seqs']), max_edits=s['k'], **kw))
            if s['mode'] != 'custom':
                continue
            ctx.count('wide_mixed_mode_history_call')
            ctx.case(nontrivial_key=('wide-mixed-history', t, n) if s['exp'] and n else None)
            if g[0] != 'ok' or canon_triplets(g[1]) != s['exp']:
                hist = [(x['engine'], x['mode'], customs.NAMES[x['which']] if x['mode'] == 'custom' else '-', x['k'], x['maxc'], x['opt'], len(x['seqs'])) for x in steps[:n]]
                report('%s call %d in one process (custom distance "%s", max_edits=%d, max_custom_distance=%s, %s) on %s differs from the pairs inside both '
                       'radii after the earlier calls %s: %s' % (s['engine'], n, customs.NAMES[s['which']], s['k'], s['maxc'], s['opt'], s['seqs'][:8], hist,
                                                               g if g[0] != 'ok' else diff_triplets(canon_triplets(g[1]), s['exp'])),
                       'nn.%s[custom,mixed-history]' % s['engine'],
                       dict(steps=[dict(engine=x['engine'], mode=x['mode'], which=x['which'], max_edits=x['k'], max_custom_distance=x['maxc'], options=str(x['opt']),
                                        seqs=x['seqs']) for x in steps[:n + 1]]))
                break

    # one preallocated container refilled in place between calls (engines and database lookups)
    for t in range(8 if q else 80):
        eng = ['symdel', 'kdtree', 'hash_based', 'nearest_neighbor', 'LookupDB', 'SymdelDB', 'symdel_seqs2', 'kdtree'][t % 8]
        n = rng.randint(3, 12)
        fills = []
        k0 = rng.choice([1, 2])
        ml = 7 if k0 == 2 and eng in ('hash_based', 'LookupDB') else 9
        for _ in range(rng.randint(2, 3)):
            s = short_seqs(rng, n + 6, ml)
            while len(s) < n:
                s.append(rng.choice(s))
            fills.append(s[:n])
        kind = rng.choice(['ndarray_object', 'list', 'ndarray_U12'])
        box = np.array(fills[0], dtype=object) if kind == 'ndarray_object' else (np.array(fills[0], dtype='<U12') if kind == 'ndarray_U12' else list(fills[0]))
        refs = short_seqs(rng, rng.randint(3, 12), ml)
        db = None
        if eng == 'LookupDB':
            db = nn.LookupDB(list(refs))
        elif eng == 'SymdelDB':
            db = nn.SymdelDB(list(refs), k0)
        steps = [(rng.randrange(6), k0, rng.choice([None, 0, 1, 2, 3])) for _ in fills]
        if eng in ('LookupDB', 'SymdelDB', 'symdel_seqs2'):
            reqs = [('api_brute_cross_custom', [w, kk, None if m is None else Fraction(m), refs, f]) for (w, kk, m), f in zip(steps, fills)]
        else:
            reqs = [('api_brute_self_custom', [w, kk, None if m is None else Fraction(m), f]) for (w, kk, m), f in zip(steps, fills)]
        outs = ctx.oracle.run(reqs)
        for n_, ((w, kk, m), f, e) in enumerate(zip(steps, fills, outs)):
            box[:] = f
            kw = dict(custom_distance=customs.make(w), max_custom_distance=INF if m is None else m)
            if eng == 'LookupDB':
                g = call_impl(lambda: db.lookup(box, max_edits=kk, **kw))
            elif eng == 'SymdelDB':
                g = call_impl(lambda: db.lookup(box, **kw))
            elif eng == 'symdel_seqs2':
                g = call_impl(lambda: nn.symdel(list(refs), max_edits=kk, seqs2=box, **kw))
            else:
                g = call_impl(lambda: getattr(nn, eng)(box, max_edits=kk, **(dict(kw, n_cpu=2) if eng == 'kdtree' and t % 16 == 7 else kw)))
            ctx.count('wide_refilled_in_place_call')
            ctx.case(nontrivial_key=('wide-refill', t, n_) if e and n_ else None)
            if g[0] != 'ok' or canon_triplets(g[1]) != canon_model(e):
                report('%s on one %s refilled in place, call %d (custom distance "%s", max_edits=%d, max_custom_distance=%s): content now %s, before %s; '
                       'differs from the pairs inside both radii: %s' % (eng, kind, n_, customs.NAMES[w], kk, m, f, fills[:n_],
                                                                       g if g[0] != 'ok' else diff_triplets(canon_triplets(g[1]), canon_model(e))),
                       'nn.%s[custom,refilled-container]' % eng,
                       dict(engine=eng, container=kind, refs=refs, fills=fills[:n_ + 1], steps=[list(x) for x in steps[:n_ + 1]]))
                break

    # one LookupDB asked with pdist_mode on and off, other radii and distance functions in between
    for t in range(4 if q else 40):
        refs = short_seqs(rng, rng.randint(3, 12), 7)
        db = nn.LookupDB(list(refs))
        steps = [(rng.randrange(6), rng.choice([1, 2]), rng.choice([None, 0, 1, 2, 3, 6]), rng.random() < 0.5) for _ in range(rng.randint(3, 5))]
        others = short_seqs(rng, 4, 7) + refs[:2]
        outs = ctx.oracle.run([('api_brute_self_custom', [w, kk, None if m is None else Fraction(m), refs]) if pm else
                               ('api_brute_cross_custom', [w, kk, None if m is None else Fraction(m), refs, others]) for w, kk, m, pm in steps])
        for n_, ((w, kk, m, pm), e) in enumerate(zip(steps, outs)):
            g = call_impl(lambda: db.lookup(list(refs) if pm else list(others), max_edits=kk, pdist_mode=pm, custom_distance=customs.make(w),
                                            max_custom_distance=INF if m is None else m))
            ctx.count('wide_lookupdb_pdist_history_call')
            ctx.case(nontrivial_key=('wide-pdist-history', t, n_) if e and n_ else None)
            if g[0] != 'ok' or canon_triplets(g[1]) != canon_model(e):
                report('lookup %d on one LookupDB (pdist_mode=%s, custom distance "%s", max_edits=%d, max_custom_distance=%s) differs from the pairs inside both '
                       'radii; earlier lookups %s: %s' % (n_, pm, customs.NAMES[w], kk, m, [(customs.NAMES[a], b, c, d) for a, b, c, d in steps[:n_]],
                                                         g if g[0] != 'ok' else diff_triplets(canon_triplets(g[1]), canon_model(e))),
                       'nn.LookupDB.lookup[custom,pdist-history]', dict(refs=refs, others=others, steps=[list(x) for x in steps[:n_ + 1]]))
                break
