"""C18 - input cleaning is total, cell-local and never alters the caller's table.

Three parts, each the extracted Coq model (coq/model/Clean.v under the facts re-read from io.py) side by side with
pyrepseq.io:  (A) isvalidaa / isvalidcdr3 over a zoo of Python objects (every string of length <= 3 (5 in the thorough tier) over
{A,C,F,W,X,c}, unicode, bytes, missing values, numbers, nested containers, generators);  (B) standardize_dataframe on
random tables, every output cell compared with a direct tidytcells call on that cell alone, the caller's frame compared
before / after;  (C) multimerge on 2-4 tables with partially overlapping keys, unique or repeated inside a table (many-to-many
join; result rows compared as a multiset with the per-key products of the extracted model).
Only public observations decide: return values, exceptions, the caller's objects afterwards."""
import itertools, logging, math, os
from fractions import Fraction
import numpy as np
import pandas as pd
from core import call_impl

AA = 'ACDEFGHIKLMNPQRSTVWY'
# the nine standard columns of the docstring and the tidytcells module that cleans each (0 junction, 1 tr, 2 mh, 3 aa)
STD = {'CDR3A': 0, 'CDR3B': 0, 'TRAV': 1, 'TRAJ': 1, 'TRBV': 1, 'TRBJ': 1, 'MHCA': 2, 'MHCB': 2, 'Epitope': 3}
CODE = {0: 'False', 1: 'True', 2: 'TypeError', 3: 'IndexError', 4: 'KeyError', 9: 'undecodable'}


# ===================================================================== (A) the object zoo
class Gen:
    """stands for a fresh generator over `items` (a real generator would be consumed by the first call)"""
    def __init__(self, items):
        self.items = list(items)

    def __repr__(self):
        return 'generator(%r)' % (self.items,)


class Opaque:
    def __init__(self, what):
        self.what = what

    def __repr__(self):
        return self.what


def realise(o):
    """zoo entry -> the Python object handed to the implementation (fresh on every call)"""
    if isinstance(o, Gen):
        items = [realise(x) for x in o.items]
        return (x for x in items)
    if isinstance(o, Opaque):
        return {'object()': object(), 'complex': 3 + 4j, 'inf': float('inf'), '-inf': float('-inf')}[o.what]
    if isinstance(o, list):
        return [realise(x) for x in o]
    if isinstance(o, tuple):
        return tuple(realise(x) for x in o)
    if isinstance(o, dict):
        return {realise(k): realise(v) for k, v in o.items()}
    if isinstance(o, frozenset):
        return frozenset(realise(x) for x in o)
    if isinstance(o, set):
        return {realise(x) for x in o}
    return o


def tokens(o, out=None):
    """pre-order token list (tag, number, text) of Api_c18.v"""
    out = [] if out is None else out
    if isinstance(o, str):
        out.append((0, 0, o))
    elif isinstance(o, bytes):
        out.append((1, 0, ''.join(chr(b) for b in o)))
    elif o is None:
        out.append((2, 0, ''))
    elif o is pd.NA:
        out.append((4, 0, ''))
    elif isinstance(o, bool):
        out.append((7, int(o), ''))
    elif isinstance(o, int):
        out.append((5, o, ''))
    elif isinstance(o, float):
        if math.isnan(o):
            out.append((3, 0, ''))
        elif math.isinf(o):
            out.append((14, 0, ''))
        else:
            out.append((6, Fraction(o), ''))
    elif isinstance(o, Opaque):
        out.append((14, 0, ''))
    elif isinstance(o, Gen):
        out.append((13, len(o.items), ''))
        for x in o.items:
            tokens(x, out)
    elif isinstance(o, (list, tuple, set, frozenset)):
        tag = {list: 8, tuple: 9, set: 10, frozenset: 11}[type(o)]
        items = list(o)
        out.append((tag, len(items), ''))
        for x in items:
            tokens(x, out)
    elif isinstance(o, dict):
        out.append((12, len(o), ''))
        for k, v in o.items():
            tokens(k, out)
            tokens(v, out)
    else:
        raise TypeError('outside the modelled universe: %r' % (o,))
    return out


def untokens(toks):
    """inverse of tokens (for replays)"""
    pos = [0]

    def one():
        tag, q, s = toks[pos[0]]
        pos[0] += 1
        q = Fraction(q)
        n = int(q)
        if tag == 0:
            return s
        if tag == 1:
            return bytes(ord(c) for c in s)
        if tag == 2:
            return None
        if tag == 3:
            return float('nan')
        if tag == 4:
            return pd.NA
        if tag == 5:
            return n
        if tag == 6:
            return float(q)
        if tag == 7:
            return bool(n)
        if tag == 14:
            return Opaque('object()')
        if tag == 12:
            d = {}
            for _ in range(n):
                k = one()
                d[k] = one()
            return d
        items = [one() for _ in range(n)]
        return {8: list, 9: tuple, 10: set, 11: frozenset, 13: Gen}[tag](items)
    return one()


def zoo(rng, quick):
    objs = []
    maxlen = 3 if quick else 5
    for n in range(0, maxlen + 1):
        objs += [''.join(p) for p in itertools.product('ACFWXc', repeat=n)]
    n_exh = len(objs)
    objs += ['Cé', 'ＣＦ', 'C\u0000F', 'C F', 'CAF\n', '\U0001F600', 'C\U0001F600F', ' ', 'CASSLGQSGANVLTF', 'cassf',
             'CASSYLPGQGDHYSNQPQHF', 'CAWSVGQGNTEAFF', 'CIVRAPGRADMRF', 'CASSB', 'CAS*F', 'CAS_F', 'ÇAF', 'СAF']  # Cyrillic С
    for _ in range(60 if quick else 1500):
        body = ''.join(rng.choice(AA if rng.random() < 0.8 else AA + 'BXZ*acf ') for _ in range(rng.randint(0, 18)))
        objs.append(rng.choice(['C', 'C', 'A', '', 'c']) + body + rng.choice(['F', 'W', 'C', 'A', '', 'f']))
    objs += extra_strings(rng, quick)
    objs += [b'', b'C', b'CAF', b'\xff', b'CF']
    atoms = [None, float('nan'), pd.NA, 0, 1, -1, 67, 10 ** 30, 0.0, 1.5, -0.0, 1e300, -2.0, True, False,
             Opaque('inf'), Opaque('-inf'), Opaque('complex'), Opaque('object()')]
    objs += atoms
    objs += [[], (), set(), frozenset(), {}, ['C', 'A', 'F'], ('C', 'F'), ('C',), ['C'], ['C', 'A'], ['F', 'C'],
             ['C', []], ['X', []], [[]], [[], 'X'], ['CA', 'F'], ['C', ''], [''], {'C'}, {'C', 'F'}, frozenset({'C'}),
             {'C': 1}, {'C': 1, 'F': 2}, {0: 'C'}, {0: 'C', -1: 'F'}, {'C': 1, 0: 'C', -1: 'F'}, {False: 'C', -1.0: 'F'},
             {0.0: 'C'}, {'X': 0}, {'': 1}, [('C',)], [(['C'],)], [('C', ['x'])], [frozenset({'C'})], [frozenset()],
             ['C', 1], [1, 'C'], ['C', None], [None], [float('nan')], ['C', b'F'], [b'C'], ('C', ('F',)), ['C', {}],
             ['C', set()], (set(),), [(1, [2])], ['C', 'A', 'W'], ('C', 'A', 'C'), ['A', 'F'],
             Gen([]), Gen(['C', 'F']), Gen(['C', []]), Gen(['X']), Gen([1]), [Gen([])], ['C', Gen(['F'])]]

    def rnd(depth):
        r = rng.random()
        if depth == 0 or r < 0.45:
            return rng.choice(['C', 'A', 'F', 'W', 'X', '', 'CA', 'c'] + atoms[:15])
        items = [rnd(depth - 1) for _ in range(rng.randint(0, 3))]
        kind = rng.choice(['list', 'tuple', 'dict', 'set', 'frozenset', 'gen'])
        if kind == 'list':
            return items
        if kind == 'tuple':
            return tuple(items)
        if kind == 'gen':
            return Gen(items)
        hashable = []
        for x in items:
            try:
                hash(realise(x))
                if not isinstance(x, Gen) and not (isinstance(x, float) and math.isnan(x)):
                    hashable.append(x)
            except TypeError:
                pass
        if kind == 'dict':
            d = {}
            for x in hashable:
                d[x] = rnd(depth - 1)
            return d
        return set(hashable) if kind == 'set' else frozenset(hashable)
    for _ in range(400 if quick else 4000):
        objs.append(rnd(3))
    return objs, n_exh


class StrSub(str):
    """a plain subclass of str: still a string"""
    def __repr__(self):
        return 'StrSub(%s)' % str.__repr__(self)


def extra_strings(rng, quick):
    """strings the first zoo never reached: every single character of Latin-1 (and a few beyond) alone and between the anchors,
    each of the 20 letters in every position class, sequences long enough to cross 127/128, 255/256, 1000, 2**15 (2**16 in the thorough
    tier) with a foreign character at the start / in the middle / at the end, and str subclasses (numpy.str_, a user subclass)"""
    out = []
    chars = [chr(i) for i in range(256)] + ['\u0391', '\u0421', '\uff23', '\u2102', '\u0131', '\u017f', '\u212a', '\U0001d402', '\ud800']
    for ch in chars:                 # incl. O, U, B, J, Z, X (extended alphabets), lower case, digits, white space, look-alikes
        out += [ch, 'C' + ch + 'F', ch + 'AF', 'CA' + ch]
    for a in AA:
        out += ['C' + a, a + 'C', 'C' + a + 'W', a + a]
    lengths = [126, 127, 128, 129, 255, 256, 257, 1000, 1024, 2 ** 15, 2 ** 15 + 1] + ([] if quick else [2 ** 16, 2 ** 16 + 1, 10 ** 5])
    for n in lengths:
        body = ''.join(rng.choice(AA) for _ in range(n - 2))
        good = 'C' + body + rng.choice('FWC')
        out.append(good)
        out.append('A' + good[1:])                       # amino acids, wrong first letter
        out.append(good[:-1] + 'A')                      # amino acids, wrong last letter
        for pos in (0, 1, n // 2, 127 if n > 128 else n - 3, n - 2, n - 1):
            out.append(good[:pos] + rng.choice('XBZ*c f\n') + good[pos + 1:])
        out.append(good + '\n')
    out += [np.str_(''), np.str_('C'), np.str_('CAF'), np.str_('CAX'), np.str_('ACF'), StrSub(''), StrSub('CASSF'), StrSub('CASSf'), StrSub('C')]
    return out


def is_bool(v):
    return isinstance(v, (bool, np.bool_))


def describe(o):
    r = repr(o)
    return r if len(r) <= 80 else r[:77] + '...'


def check_predicates(ctx, objs, report=True):
    """Runs both predicates and both models on every zoo entry. Returns the number of violations added."""
    import pyrepseq.io as io
    before = len(ctx.violations)
    toks = [tokens(o) for o in objs]
    reqs = []
    for o, t in zip(objs, toks):
        reqs += [('api_c18_isvalidaa', [t]), ('api_c18_isvalidcdr3', [t]), ('api_c18_isvalidcdr3_original', [t])]
        if isinstance(o, str):
            reqs += [('api_c18_aa_spec', [o]), ('api_c18_cdr3_spec', [o])]
    outs = iter(ctx.oracle.run_parallel(reqs))
    seen = {}
    for k, (o, t) in enumerate(zip(objs, toks)):
        m_aa, m_cdr3, m_orig = next(outs), next(outs), next(outs)
        spec = (next(outs), next(outs)) if isinstance(o, str) else None
        cls = type(o).__name__
        ctx.count('object:' + cls)
        if isinstance(o, str):
            ctx.count('string:' + ('length 1' if len(o) == 1 else 'length >= 126' if len(o) >= 126 else 'other length'))
            if len(o) >= 2 ** 15:
                ctx.count('string:length >= 2**15')
            if type(o) is not str:
                ctx.count('string:str subclass (%s)' % cls)
        for name, f, model, sp in (('isvalidaa', io.isvalidaa, m_aa, spec[0] if spec else None),
                                   ('isvalidcdr3', io.isvalidcdr3, m_cdr3, spec[1] if spec else None)):
            impl = call_impl(f, realise(o))
            reached = (m_aa == 1)      # the indexing path of isvalidcdr3 is reached only when isvalidaa holds
            ctx.case(sample=dict(func=name, obj=describe(o), impl=str(impl), model=CODE[model]) if (k % 97 == 0) else None,
                     nontrivial_key=(name, describe(o)) if (reached or not isinstance(o, (str, type(None), int, float))) else None)
            replay = dict(kind='predicate', func=name, obj=describe(o), tokens=[[a, str(Fraction(b)), c] for a, b, c in t],
                          impl=str(impl), model=CODE[model])
            site = 'io.' + name
            bad = None
            if impl[0] == 'exc':
                bad = ('property', '%s(%s) raised %s; the property demands a bool for every object' % (name, describe(o), impl[1]))
                site += ':raises'
            elif not is_bool(impl[1]):
                bad = ('property', '%s(%s) returned %r which is not a bool' % (name, describe(o), impl[1]))
            elif sp is not None and bool(impl[1]) != sp:
                bad = ('property', '%s(%s) = %s but the string specification gives %s' % (name, describe(o), impl[1], sp))
            elif isinstance(o, (type(None), bool, int, float)) or o is pd.NA:
                if bool(impl[1]):
                    bad = ('property', '%s(%s) = True for a missing value / number' % (name, describe(o)))
            if bad is None and (impl[0] != 'ok' or model not in (0, 1) or bool(impl[1]) != bool(model)):
                bad = ('correspondence', '%s(%s): implementation %s, model %s' % (name, describe(o), impl, CODE[model]))
            if bad and report and seen.get((name, bad[0]), 0) < 3:
                seen[(name, bad[0])] = seen.get((name, bad[0]), 0) + 1
                ctx.violation(bad[0], bad[1], replay, site=site)
        if m_orig in (2, 3, 4):
            ctx.count('objects on which the pre-repair model raises')
        if k % 23 == 0 and len(ctx.vm_cases) < (30 if ctx.quick else 200) and all(len(x[2]) <= 40 for x in t):
            ctx.add_vm('api_c18_isvalidaa', [t], m_aa)
            ctx.add_vm('api_c18_isvalidcdr3', [t], m_cdr3)
    return len(ctx.violations) - before


# --------------------------------------------------------------------- objects outside the modelled universe
def outside_objects():
    """name -> (factory, class) for Python objects the Coq universe does not contain.  Only what the property text says about ANY
    object is demanded of them: the call returns a bool and does not raise; numbers and missing values give False; a str (subclass)
    follows the string specification.  class: 'number' | 'missing' | 'other'.  (Objects whose own __iter__ / __len__ / __getitem__ /
    __eq__ raise something other than TypeError / IndexError / KeyError are left out: see NOTES.md.)"""
    import decimal, fractions, collections, array, datetime
    tab = {
        'np.int64(3)': (lambda: np.int64(3), 'number'), 'np.int8(-1)': (lambda: np.int8(-1), 'number'),
        'np.uint8(67)': (lambda: np.uint8(67), 'number'), 'np.uint64(2**63)': (lambda: np.uint64(2 ** 63), 'number'),
        'np.float32(1.5)': (lambda: np.float32(1.5), 'number'), 'np.float16(0)': (lambda: np.float16(0), 'number'),
        'np.float64(2.0)': (lambda: np.float64(2.0), 'number'), 'np.float64(inf)': (lambda: np.float64('inf'), 'number'),
        'np.float64(nan)': (lambda: np.float64('nan'), 'missing'), 'np.float32(nan)': (lambda: np.float32('nan'), 'missing'),
        'np.bool_(True)': (lambda: np.bool_(True), 'number'), 'np.bool_(False)': (lambda: np.bool_(False), 'number'),
        'np.complex128(1)': (lambda: np.complex128(1), 'number'), 'complex(0)': (lambda: 0j, 'number'),
        'Decimal(1)': (lambda: decimal.Decimal(1), 'number'), 'Decimal(NaN)': (lambda: decimal.Decimal('NaN'), 'missing'),
        'Fraction(1,2)': (lambda: fractions.Fraction(1, 2), 'number'),
        'pd.NaT': (lambda: pd.NaT, 'missing'), 'np.datetime64(NaT)': (lambda: np.datetime64('NaT'), 'missing'),
        'np.timedelta64(NaT)': (lambda: np.timedelta64('NaT'), 'missing'),
        'np.array([])': (lambda: np.array([]), 'other'), "np.array(['C','A','F'])": (lambda: np.array(['C', 'A', 'F']), 'other'),
        "np.array(['C','X'])": (lambda: np.array(['C', 'X']), 'other'), "np.array([['C']])": (lambda: np.array([['C']]), 'other'),
        "np.array('CAF')": (lambda: np.array('CAF'), 'other'), 'np.array([1,2])': (lambda: np.array([1, 2]), 'other'),
        "np.array(['CA','F'])": (lambda: np.array(['CA', 'F']), 'other'),
        "np.array(['C','A','F'],object)": (lambda: np.array(['C', 'A', 'F'], dtype=object), 'other'),
        "np.array(['C',None],object)": (lambda: np.array(['C', None], dtype=object), 'other'),
        "np.array([[], []],object)": (lambda: np.empty((2, 0), dtype=object), 'other'),
        "pd.Series(['C','F'])": (lambda: pd.Series(['C', 'F']), 'other'),
        "pd.Series(['C','F'],index=[0,-1])": (lambda: pd.Series(['C', 'F'], index=[0, -1]), 'other'),
        "pd.Series(['C','A','F'],index=list('xyz'))": (lambda: pd.Series(['C', 'A', 'F'], index=list('xyz')), 'other'),
        "pd.Series(['C',None])": (lambda: pd.Series(['C', None], dtype=object), 'other'),
        'pd.Series([])': (lambda: pd.Series([], dtype=object), 'other'), "pd.Index(['C','F'])": (lambda: pd.Index(['C', 'F']), 'other'),
        "pd.DataFrame({'C':[1]})": (lambda: pd.DataFrame({'C': [1]}), 'other'), 'pd.DataFrame()': (lambda: pd.DataFrame(), 'other'),
        "pd.Categorical(['C','F'])": (lambda: pd.Categorical(['C', 'F']), 'other'),
        "pd.array(['C',None],'string')": (lambda: pd.array(['C', None], dtype='string'), 'other'),
        'range(3)': (lambda: range(3), 'other'), 'range(0)': (lambda: range(0), 'other'),
        "bytearray(b'CAF')": (lambda: bytearray(b'CAF'), 'other'), 'bytearray()': (lambda: bytearray(), 'other'),
        "memoryview(b'CAF')": (lambda: memoryview(b'CAF'), 'other'), "array('u','CAF')": (lambda: array.array('u', 'CAF'), 'other'),
        "array('b')": (lambda: array.array('b'), 'other'), "np.bytes_(b'CAF')": (lambda: np.bytes_(b'CAF'), 'other'),
        "deque(['C','F'])": (lambda: collections.deque(['C', 'F']), 'other'), 'deque()': (lambda: collections.deque(), 'other'),
        "OrderedDict(C=1)": (lambda: collections.OrderedDict(C=1), 'other'), "Counter('CAF')": (lambda: collections.Counter('CAF'), 'other'),
        'defaultdict(list)': (lambda: collections.defaultdict(list), 'other'),
        "defaultdict(str,{0:'C'})": (lambda: collections.defaultdict(str, {0: 'C'}), 'other'),
        "UserString('CAF')": (lambda: collections.UserString('CAF'), 'other'), "UserList(['C','F'])": (lambda: collections.UserList(['C', 'F']), 'other'),
        "UserDict({'C':1})": (lambda: collections.UserDict({'C': 1}), 'other'), "ChainMap({'C':1})": (lambda: collections.ChainMap({'C': 1}), 'other'),
        "iter('CAF')": (lambda: iter('CAF'), 'other'), "map(str,'CAF')": (lambda: map(str, 'CAF'), 'other'),
        "zip('CA','AF')": (lambda: zip('CA', 'AF'), 'other'), "enumerate('CF')": (lambda: enumerate('CF'), 'other'),
        "reversed('FAC')": (lambda: reversed('FAC'), 'other'), "{'C':1}.keys()": (lambda: {'C': 1}.keys(), 'other'),
        "{'C':1}.values()": (lambda: {'C': 1}.values(), 'other'), "{'C':1}.items()": (lambda: {'C': 1}.items(), 'other'),
        'date(2020,1,1)': (lambda: datetime.date(2020, 1, 1), 'other'), 'pd.Timestamp(0)': (lambda: pd.Timestamp(0), 'other'),
        'Ellipsis': (lambda: Ellipsis, 'other'), 'NotImplemented': (lambda: NotImplemented, 'other'), 'type': (lambda: type, 'other'),
        'str': (lambda: str, 'other'), 'len': (lambda: len, 'other'), 'lambda': (lambda: (lambda x: x), 'other'),
        'slice(1)': (lambda: slice(1), 'other'), 'module': (lambda: math, 'other'), 'Exception()': (lambda: Exception('C'), 'other'),
    }
    return tab


def check_outside(ctx, only=None):
    """both predicates on every object of outside_objects(); twice each (a second call on a fresh object must answer alike)"""
    import pyrepseq.io as io
    n = 0
    for name, (make, cls) in sorted(outside_objects().items()):
        if only is not None and name != only:
            continue
        for fname, f in (('isvalidaa', io.isvalidaa), ('isvalidcdr3', io.isvalidcdr3)):
            try:
                o1, o2 = make(), make()
            except Exception:
                continue                          # e.g. array('u') gone from a later Python: nothing to test
            first, second = call_impl(f, o1), call_impl(f, o2)
            ctx.case(nontrivial_key=('outside', fname, name))
            ctx.count('outside universe:' + cls)
            bad = None
            for impl in (first, second):
                if impl[0] == 'exc':
                    bad = '%s(%s) raised %s; the property demands a bool for every object' % (fname, name, impl[1])
                elif not is_bool(impl[1]):
                    bad = '%s(%s) returned %r which is not a bool' % (fname, name, impl[1])
                elif cls in ('number', 'missing') and bool(impl[1]):
                    bad = '%s(%s) = True for a %s' % (fname, name, 'number' if cls == 'number' else 'missing value')
            if bad is None and bool(first[1]) != bool(second[1]):
                bad = '%s(%s) answers %s and then %s on two equal fresh objects' % (fname, name, first[1], second[1])
            if bad and n < 3:
                n += 1
                ctx.violation('property', bad, dict(kind='predicate_outside', func=fname, obj=name), site='io.%s:outside' % fname)
    return n


# --------------------------------------------------------------------- one object, several calls
def gen_history(rng):
    """a mutable container and the states it is put through IN PLACE between calls; every state is in the modelled universe"""
    kind = rng.choice(['list', 'list', 'dict', 'set'])
    letters = ['C', 'A', 'F', 'W', 'X', 'c', '', 'CA', 1, None]
    if kind == 'list':
        state = [rng.choice(letters[:6]) for _ in range(rng.randint(0, 4))]
    elif kind == 'dict':
        state = {k: rng.randint(0, 2) for k in rng.sample(['C', 'A', 'F', 'X', 0, -1], rng.randint(0, 3))}
    else:
        state = set(rng.sample(letters[:6], rng.randint(0, 3)))
    steps = []
    for _ in range(rng.randint(2, 5)):
        if kind == 'list':
            op = rng.choice(['append', 'append', 'pop', 'set', 'insert0', 'clear', 'same'])
            if op == 'append':
                steps.append(('append', rng.choice(letters)))
            elif op == 'insert0':
                steps.append(('insert0', rng.choice(letters[:6])))
            elif op == 'set':
                steps.append(('set', rng.choice([0, -1]), rng.choice(letters[:6])))
            else:
                steps.append((op,))
        elif kind == 'dict':
            op = rng.choice(['put', 'put', 'del', 'clear', 'same'])
            steps.append(('put', rng.choice(['C', 'A', 'F', 'X', 0, -1]), rng.choice(['C', 'F', 'X', 1])) if op == 'put' else (op,))
        else:
            op = rng.choice(['add', 'add', 'discard', 'clear', 'same'])
            steps.append((op, rng.choice(letters[:6])) if op in ('add', 'discard') else (op,))
    return dict(kind=kind, start=sorted(state, key=repr) if kind == 'set' else (list(state.items()) if kind == 'dict' else state), steps=steps)


def apply_step(obj, step):
    op = step[0]
    try:
        if op == 'append':
            obj.append(step[1])
        elif op == 'insert0':
            obj.insert(0, step[1])
        elif op == 'set':
            obj[step[1]] = step[2]
        elif op == 'pop':
            obj.pop()
        elif op == 'clear':
            obj.clear()
        elif op == 'put':
            obj[step[1]] = step[2]
        elif op == 'del':
            del obj[next(iter(obj))]
        elif op == 'add':
            obj.add(step[1])
        elif op == 'discard':
            obj.discard(step[1])
    except (IndexError, KeyError, StopIteration):
        pass


def check_histories(ctx, hists):
    """the SAME container object handed to the predicates again and again while the caller changes it in place: every answer must be
    the model's answer for the state at that moment (an answer remembered per object identity would be stale)"""
    import pyrepseq.io as io
    import copy
    runs = []
    for h in hists:
        obj = {'list': list, 'dict': lambda x: dict([tuple(kv) for kv in x]), 'set': set}[h['kind']](h['start'])
        states = []
        for step in [('same',)] + [tuple(x) for x in h['steps']]:
            apply_step(obj, step)
            got = [call_impl(io.isvalidaa, obj), call_impl(io.isvalidcdr3, obj)]
            states.append((copy.copy(obj), got))
        runs.append((h, states))
    reqs = []
    for h, states in runs:
        for snap, _ in states:
            t = tokens(snap)
            reqs += [('api_c18_isvalidaa', [t]), ('api_c18_isvalidcdr3', [t])]
    outs = iter(ctx.oracle.run_parallel(reqs))
    n = 0
    for h, states in runs:
        ctx.count('history:%s changed in place between calls' % h['kind'])
        for i, (snap, got) in enumerate(states):
            for fname, impl in zip(('isvalidaa', 'isvalidcdr3'), got):
                model = next(outs)
                ctx.case(nontrivial_key=('history', repr(h), i, fname) if i else None)
                ok = impl[0] == 'ok' and is_bool(impl[1]) and model in (0, 1) and bool(impl[1]) == bool(model)
                if not ok and n < 3:
                    n += 1
                    kind = 'property' if (impl[0] != 'ok' or not is_bool(impl[1])) else 'correspondence'
                    # a wrong answer for an object that was answered correctly when fresh is a stale answer
                    ctx.violation(kind, '%s on one %s object changed in place by the caller: call %d sees %s and gives %s, the model gives %s '
                                  '(start %r, steps %r)' % (fname, h['kind'], i + 1, describe(snap), impl, CODE.get(model, model),
                                                           h['start'], h['steps'][:i]),
                                  dict(kind='predicate_history', history=h), site='io.%s:history' % fname)
    return n


# ===================================================================== (B) standardize_dataframe
POOL = {
    0: ['CASSF', 'CASSLGQSGANVLTF', 'cassf', 'ASSF', 'CASX', '', 'unknown', 'CASSW', 'C', 'CIVRAPGRADMRF', 'CAVPSGAGSYQLTF', 'casf '],
    1: ['TRBV13', 'TRBV28*01', 'TCRBV28S1*01', 'bv13*1', 'TRBV7-2*01', 'junk', 'TRBV1', 'TRAV1-1', 'TRAJ28', 'TRBJ2-4*01',
        'unknown', 'TRBV13-1', 'av26.1*1', 'aj43*1', 'bj1.5*1', 'TCRAV20*01', 'TRAV26-1', 'TRBJ1-5', 'TRBV20/OR9-2', '', 'TRAJ43*01'],
    2: ['HLA-A*02:01', 'A2', 'HLA-A*02:01:01', 'B2M', 'junk', 'HLA-DRA', 'b8', 'HLA-DQA1*05', 'HLA-DQB1*02', 'H2-Kb', 'H2-K',
        'b2m', 'HLA-A*02', 'HLA-B*08:01', '', 'DRB1*15:01'],
    3: ['GILGFVFTL', 'gilg', 'GILX', '', 'FLKEKGGL', 'not an epitope', 'LQPFPQPELPYPQPQ', 'YMPYFFTLL'],
}
POOL[0] += ['CASS' + 'GQSGANVLT' * 16 + 'F', 'cass' + 'lgqsg' * 52 + 'f', 'CASSLGQSGANVLTW', 'ASSLGQSGANVLT']      # 149 / 266 residues
POOL[1] += ['TRBV13-2', 'TRAV14D-1', 'TRAV6-5', 'TRBJ2-7', 'TRAV8-5', 'TRBV21-1', 'TRAJ1', 'TRBV12-1', 'TRAV14/DV4', 'trav14d-3/dv8*01',
            'TRBJ2-2P', 'TRAJ58']
POOL[2] += ['H2-Db', 'H2-IAb', 'H2-Eb1', 'HLA-DRB1*15:01:01:01', 'HLA-A*24:02:01', 'HLA-B8', 'DQA1*05:01', 'Mamu-A1*001']
POOL[3] += ['flkekggl', 'GILGFVFTL' * 15, 'SIINFEKL', 'siinfekl ', 'NLVPMVATV']
EXTRA_NAMES = ['clone_count', 'trbv', 'CDR3', 'TRBV ', 'note', 'Epitope2', 'freq', 'MHC', 'cdr3b', 'Trav', 'EPITOPE', 'mhca', 'TRBD', 'TRGV',
               'CDR3C', ' TRAJ', 'TRBV_', 'Epitope ', 7, 0]
# the documented defaults (docstring 'Parameters'): what an omitted option must mean
DEFAULTS = dict(species='HomoSapiens', tcr_enforce_functional=True, tcr_precision='gene', mhc_precision='gene',
                strict_cdr3_standardization=False)
OPT_ORDER = ['species', 'tcr_enforce_functional', 'tcr_precision', 'mhc_precision', 'strict_cdr3_standardization']   # positional order after `standardize`


def missing(x):
    return x is None or x is pd.NA or (isinstance(x, float) and math.isnan(x))


def canon_cell(x):
    """None for missing; otherwise a text that identifies type class and value"""
    try:
        if x is None or x is pd.NA or (isinstance(x, (float, np.floating)) and math.isnan(x)) or x is pd.NaT:
            return None
    except Exception:
        pass
    if isinstance(x, str):
        return 's:' + x
    if isinstance(x, (bool, np.bool_)):
        return 'b:' + str(bool(x))
    if isinstance(x, (int, float, np.integer, np.floating)):
        return 'n:' + repr(float(x))
    return 'o:' + repr(x)


def canon_frame(df):
    return dict(index=[repr(i) for i in df.index.tolist()], index_name=repr(df.index.name),
                columns=[str(c) for c in df.columns],
                cells=[[canon_cell(v) for v in df.iloc[:, j].tolist()] for j in range(df.shape[1])])


def tt_cell(kind, s, opt):
    import tidytcells as tt
    if kind == 0:
        return tt.junction.standardize(seq=s, strict=opt['strict_cdr3_standardization'], suppress_warnings=True)
    if kind == 1:
        return tt.tr.standardize(gene=s, species=opt['species'], enforce_functional=opt['tcr_enforce_functional'],
                                 precision=opt['tcr_precision'], suppress_warnings=True)
    if kind == 2:
        return tt.mh.standardize(gene=s, species=opt['species'], precision=opt['mhc_precision'], suppress_warnings=True)
    return tt.aa.standardize(seq=s, on_fail='keep', suppress_warnings=True)


def gen_table(rng, big, huge=0):
    nrows = huge or rng.choice([0, 1, 1, 2, 3, 4, 6, 9] if not big else [5, 9, 14, 25])
    std = rng.sample(sorted(STD), rng.randint(0, len(STD)) if not huge else rng.randint(3, 6))
    mapper = {}
    cols = {}
    order = []
    dtypes = {}
    for c in std:
        name = c
        r = rng.random()
        if r < 0.3:                       # foreign name, renamed onto the standard one
            name = rng.choice(['foo', 'bar', 'baz', 'v_call', 'j_call', 'junction_aa', 'x1', 'x2', 'x3', 'q']) + '_' + c.lower()
            mapper[name] = c
        pool = POOL[STD[c]]
        cells = []
        for _ in range(nrows):
            r2 = rng.random()
            cells.append(rng.choice([None, np.nan, pd.NA]) if r2 < 0.25 else rng.choice(pool))
        if nrows and rng.random() < 0.06:
            cells = [rng.choice([None, np.nan])] * nrows      # a column that is missing throughout
        cols[name] = cells
        order.append(name)
        # how the column is stored: pandas' inference (str in pandas 3), genuine Python objects (None / nan / pd.NA kept apart),
        # the nullable string type, a categorical
        dtypes[name] = rng.choice([None, None, 'object', 'object', 'string', 'category'])
    extras = rng.sample(range(len(EXTRA_NAMES)), rng.randint(0, 3))
    for name in [EXTRA_NAMES[i] for i in extras]:
        kind = rng.choice(['int', 'float', 'str', 'bool', 'cat'])
        if kind == 'int':
            cols[name] = [rng.randint(0, 50) for _ in range(nrows)]
        elif kind == 'float':
            cols[name] = [rng.choice([np.nan, 0.5, 2.0, 1e-3]) for _ in range(nrows)]
        elif kind == 'bool':
            cols[name] = [rng.random() < 0.5 for _ in range(nrows)]
        else:
            cols[name] = [rng.choice([None, 'TRBV13*01', 'cassf', 'a2', 'text', 'bv13*1', 'gilg']) for _ in range(nrows)]
            if kind == 'cat':
                dtypes[name] = 'category'
        order.append(name)
    r = rng.random()
    away = [c for c in order if c in STD]
    if r < 0.15:
        if away:                          # a standard column renamed away: it is no longer standard
            mapper[away[0]] = 'old_' + away[0]
    elif r < 0.25 and len(away) >= 2:     # two standard columns exchanged by the mapper (names stay unique)
        a, b = rng.sample(away, 2)
        mapper[a], mapper[b] = b, a
    elif r < 0.32 and away:               # a standard column renamed onto another standard name that is free
        free = [c for c in sorted(STD) if c not in order and c not in mapper.values()]
        if free:
            mapper[away[0]] = rng.choice(free)
    if rng.random() < 0.2:
        mapper['absent_column'] = 'unused'     # a mapper key that names no column is ignored by pandas
    if rng.random() < 0.1:                     # ... also when it points at a standard name (one that is free, so names stay unique)
        free = [c for c in sorted(STD) if c not in order and c not in mapper.values()]
        if free:
            mapper['absent2'] = rng.choice(free)
    rng.shuffle(order)
    ik = rng.choice(['range', 'ints', 'strs', 'dup', 'named', 'multi', 'withnan'])
    if ik == 'range':
        index = None
    elif ik == 'ints':
        index = rng.sample(range(max(100, 2 * nrows)), nrows)
    elif ik == 'strs':
        index = ['r%d' % i for i in rng.sample(range(max(100, 2 * nrows)), nrows)]
    elif ik == 'dup':
        index = [rng.choice([5, 7]) for _ in range(nrows)]
    elif ik == 'multi':
        index = [[rng.choice(['d1', 'd2', 'd3']), rng.randint(0, 3)] for _ in range(nrows)]      # (donor, cell) pairs, repeats allowed
    elif ik == 'withnan':
        index = [rng.choice([None, 'a', 'b', 'c']) for _ in range(nrows)]                        # labels that are missing / repeated
    else:
        index = list(range(10, 10 + nrows))
    species = rng.choice(['HomoSapiens', 'HomoSapiens', 'MusMusculus', 'MusMusculus'] + (['homosapiens', 'musmusculus'] if rng.random() < 0.3 else []))
    opt = dict(species=species,
               tcr_enforce_functional=rng.random() < 0.5, tcr_precision=rng.choice(['gene', 'allele']),
               mhc_precision=rng.choice(['gene', 'protein', 'allele']),
               strict_cdr3_standardization=rng.random() < 0.5)
    flag = rng.random() < 0.85
    use_mapper = mapper if (mapper or rng.random() < 0.5) else None
    # ---- how the call is made: options left out (the documented default applies), handed by position, df by keyword / as df_old,
    # warnings not suppressed (the default), the mapper as some other Mapping
    omit = []
    r = rng.random()
    if r < 0.12:
        omit = list(OPT_ORDER) + ['standardize']                 # the bare call of the docstring examples
    elif r < 0.45:
        omit = [o for o in OPT_ORDER + ['standardize'] if rng.random() < 0.4]
    for o in omit:
        if o == 'standardize':
            flag = True
        else:
            opt[o] = DEFAULTS[o]
    style = rng.choice(['kw', 'kw', 'kw', 'positional', 'df_kw', 'df_old'])
    npos = rng.randint(1, 7) if style == 'positional' else 0     # how many arguments after df go by position
    call = dict(style=style, npos=npos, omit=omit, suppress=rng.choice(['true', 'true', 'false', 'omit']),
                mapper_kind=rng.choice(['dict', 'dict', 'proxy', 'ordered', 'mapping', 'userdict', 'series']) if use_mapper else 'dict',
                mapper_omitted=(use_mapper is None and rng.random() < 0.5))
    return dict(columns=[[c, cols[c]] for c in order], index=index, index_kind=ik, mapper=use_mapper, opt=opt, standardize=flag,
                dtypes=[dtypes.get(c) for c in order], call=call)


class PlainMapping:
    """the smallest thing collections.abc.Mapping accepts (neither a dict nor a subclass of one)"""
    def __init__(self, d):
        self._d = dict(d)

    def __getitem__(self, k):
        return self._d[k]

    def __iter__(self):
        return iter(self._d)

    def __len__(self):
        return len(self._d)


def make_mapper(mapper, kind):
    import types, collections
    from collections.abc import Mapping
    if mapper is None or kind in (None, 'dict'):
        return mapper
    if kind == 'proxy':
        return types.MappingProxyType(dict(mapper))
    if kind == 'ordered':
        return collections.OrderedDict(mapper)
    if kind == 'userdict':
        return collections.UserDict(mapper)
    if kind == 'series':
        return pd.Series(dict(mapper), dtype=object)
    cls = type('PlainMappingABC', (PlainMapping, Mapping), {})
    return cls(mapper)


def build_frame(case):
    dts = case.get('dtypes') or [None] * len(case['columns'])
    ik = case.get('index_kind')
    if case['index'] is None:
        index = None
    elif ik == 'multi':
        index = pd.MultiIndex.from_tuples([tuple(x) for x in case['index']], names=['donor', 'cell']) if case['index'] else \
            pd.MultiIndex.from_arrays([[], []], names=['donor', 'cell'])
    elif ik == 'withnan':
        index = pd.Index(list(case['index']), dtype=object)
    else:
        index = case['index']
    data = {}
    for (c, v), dt in zip(case['columns'], dts):
        if dt == 'object':                 # genuine Python objects: None, nan and pd.NA stay what they are
            data[c] = pd.Series(list(v), dtype=object)
        elif dt == 'string':
            data[c] = pd.Series(pd.array([None if missing(x) else x for x in v], dtype='string'))
        elif dt == 'category':
            data[c] = pd.Series(pd.Categorical([None if missing(x) else x for x in v]))
        else:
            data[c] = pd.Series(list(v)) if len(v) else pd.Series(list(v), dtype=object)
    if data:
        df = pd.DataFrame(data, columns=[c for c, _ in case['columns']])
        if index is not None:
            df.index = index
    else:
        df = pd.DataFrame(index=index)
    if ik == 'named':
        df.index.name = 'row_id'
    return df


def call_standardize(case, io, df):
    """one call of standardize_dataframe as the case prescribes it (case['call']; a case without it = every option by keyword)"""
    call = case.get('call') or {}
    omit = set(call.get('omit') or [])
    mapper = make_mapper(case['mapper'], call.get('mapper_kind'))
    named = [('col_mapper', mapper), ('standardize', case['standardize'])] + [(o, case['opt'][o]) for o in OPT_ORDER]
    sup = call.get('suppress', 'true')
    if sup != 'omit':
        named.append(('suppress_warnings', sup == 'true'))
    style = call.get('style', 'kw')
    args, kw = [], {}
    if style == 'positional':
        args = [df]
        npos = call.get('npos', 0)
        for i, (k, v) in enumerate(named):
            if i < npos:
                args.append(v)            # a positional slot cannot be left out: the value the case states is handed over
            elif k not in omit and not (k == 'col_mapper' and call.get('mapper_omitted')):
                kw[k] = v
    else:
        if style == 'df_kw':
            kw['df'] = df
        elif style == 'df_old':
            kw['df_old'] = df
        else:
            args = [df]
        for k, v in named:
            if k not in omit and not (k == 'col_mapper' and call.get('mapper_omitted') and v is None):
                kw[k] = v
    return call_impl(io.standardize_dataframe, *args, **kw)


def run_standardize(case, io, df=None):
    df = build_frame(case) if df is None else df
    before = canon_frame(df)
    dtypes_before = [str(t) for t in df.dtypes]
    impl = call_standardize(case, io, df)
    after = canon_frame(df)
    dtypes_after = [str(t) for t in df.dtypes]
    return df, before, after, dtypes_before == dtypes_after, impl


def expected_cells(case, before):
    """the property, cell by cell: (renamed column names, expected canonical cells, table (kind, text) -> tidytcells result)"""
    mapper = case['mapper'] or {}
    names = [mapper.get(c, c) for c in before['columns']]
    ftab = {}
    exp = []
    for n, cells in zip(names, before['cells']):
        if case['standardize'] and n in STD:
            col = []
            for c in cells:
                if c is None:
                    col.append(None)
                else:
                    key = (STD[n], c)
                    if key not in ftab:
                        ftab[key] = canon_cell(tt_cell(STD[n], c[2:], case['opt']))
                    col.append(ftab[key])
            exp.append(col)
        else:
            exp.append(list(cells))
    return names, exp, ftab


def std_violations(case, io, df=None):
    """list of (kind, message) for one case; [] when the property holds on it (df: a frame built earlier, handed over again)"""
    df, before, after, dt_same, impl = run_standardize(case, io, df)
    out = []
    if before != after or not dt_same:
        out.append(('property', 'standardize_dataframe modified the caller\'s table'))
    if impl[0] != 'ok':
        out.append(('property', 'standardize_dataframe raised %s on a table inside the stated domain' % impl[1]))
        return out, before, None
    res = impl[1]
    got = canon_frame(res)
    names, exp, ftab = expected_cells(case, before)
    if got['index'] != before['index'] or got['index_name'] != before['index_name']:
        out.append(('property', 'index changed: %s -> %s' % (before['index'], got['index'])))
    if got['columns'] != names:
        out.append(('property', 'columns are %s, expected the renamed input columns %s' % (got['columns'], names)))
    else:
        for j, n in enumerate(names):
            if len(got['cells'][j]) != len(exp[j]):
                out.append(('property', 'row count of column %s changed' % n))
                continue
            for i, (g, e) in enumerate(zip(got['cells'][j], exp[j])):
                if g != e:
                    what = ('standardize=False must return the renamed input' if not case['standardize'] else
                            'a non-standard column must be preserved' if n not in STD else
                            'missing must stay missing' if before['cells'][j][i] is None else
                            'the cell must equal the tidytcells standardisation of that cell alone under the same options')
                    out.append(('property', 'cell (row %d, column %s): input %r -> output %r, expected %r (%s)' %
                                (i, n, before['cells'][j][i], g, e, what)))
                    break
    if not case['standardize'] and not out:
        ref = df.rename(columns=dict(case['mapper'])) if case['mapper'] is not None else df
        if not res.equals(ref):
            out.append(('property', 'standardize=False: result differs from the renamed input (DataFrame.equals)'))
    return out, before, (got, names, ftab)


def shrink_std(case, io):
    """cell-locality makes a one-column one-row table the natural minimal input; keep it only if it still fails"""
    best = case
    dts = case.get('dtypes') or [None] * len(case['columns'])
    for jc, (c, cells) in enumerate(case['columns']):
        for i in range(len(cells)):
            small = dict(case, columns=[[c, [cells[i]]]], index=None, index_kind='range', dtypes=[dts[jc]])
            try:
                if any(k == 'property' for k, _ in std_violations(small, io)[0]):
                    return small
            except Exception:
                pass
    for jc, (c, cells) in enumerate(case['columns']):
        small = dict(case, columns=[[c, cells]], dtypes=[dts[jc]])
        try:
            if any(k == 'property' for k, _ in std_violations(small, io)[0]):
                return small
        except Exception:
            pass
    return best


def jsonable_case(case):
    def cell(x):
        return None if missing(x) else (x.item() if isinstance(x, np.generic) else x)
    return dict(case, columns=[[c, [cell(x) for x in v]] for c, v in case['columns']])


def check_standardize(ctx, ncases):
    import pyrepseq.io as io
    rng = ctx.rng
    cases = [gen_table(rng, big=(k % 25 == 24)) for k in range(ncases)]
    # tables long enough to cross any block size a reimplementation might introduce (one in the quick tier)
    cases += [gen_table(rng, big=True, huge=h) for h in ([1100] if ctx.quick else [255, 256, 1000, 1024, 4097, 2 ** 15 + 1])]
    # the docstring example
    doc = [["av26.1*1", "CIVRAPGRADMRF", "aj43*1", "bv13*1", "CASSYLPGQGDHYSNQPQHF", "bj1.5*1", "FLKEKGGL", "b8", "b2m"],
           ["TCRAV20*01", "CAVPSGAGSYQLTF", "TCRAJ28*01", "TCRBV28S1*01", "CASSLGQSGANVLTF", "TCRBJ2S6*01", "LQPFPQPELPYPQPQ", "HLA-DQA1*05", "HLA-DQB1*02"],
           ["unknown", "unknown", "unknown", "TRBV7-2*01", "CASSDWGSQNTLYF", "TRBJ2-4*01", "YMPYFFTLL", "HLA-A*02", "B2M"]]
    names = ["TRAV", "CDR3A", "TRAJ", "TRBV", "CDR3B", "TRBJ", "Epitope", "MHCA", "MHCB"]
    cases.insert(0, dict(columns=[[n, [r[j] for r in doc]] for j, n in enumerate(names)] + [['clone_count', [1, 2, 3]]],
                         index=None, index_kind='range', mapper=None, standardize=True,
                         opt=dict(species='HomoSapiens', tcr_enforce_functional=True, tcr_precision='gene',
                                  mhc_precision='gene', strict_cdr3_standardization=False)))
    reqs, keep = [], []
    nviol = 0
    for case in cases:
        viols, before, extra = std_violations(case, io)
        mapper = case['mapper'] or {}
        nstd = [mapper.get(c, c) for c, _ in case['columns'] if mapper.get(c, c) in STD]
        changed = extra is not None and any(k[1] != v for k, v in extra[2].items())
        has_na = any(c is None for n, cells in zip([mapper.get(c, c) for c in before['columns']], before['cells'])
                     if n in STD for c in cells)
        ctx.case(sample=dict(func='standardize_dataframe', columns=before['columns'], mapper=case['mapper'],
                             opt=case['opt'], standardize=case['standardize'], rows=len(before['index']))
                 if len(nstd) >= 3 and changed else None,
                 nontrivial_key=('std', repr(jsonable_case(case))) if (changed and has_na and case['standardize']) else None)
        ctx.count('table:%d standard columns' % min(len(nstd), 9))
        ctx.count('table:standardize=%s' % case['standardize'])
        ctx.count('table:index=%s' % case['index_kind'])
        ctx.count('table:species=%s' % case['opt']['species'])
        call = case.get('call') or {}
        ctx.count('table:call style=%s' % call.get('style', 'kw'))
        ctx.count('table:suppress_warnings=%s' % call.get('suppress', 'true'))
        ctx.count('table:options omitted=%d' % len(call.get('omit') or []))
        if 'standardize' in (call.get('omit') or []):
            ctx.count('table:standardize omitted')
        if case['mapper']:
            ctx.count('table:mapper kind=%s' % call.get('mapper_kind', 'dict'))
            if any(v in STD and k in STD for k, v in case['mapper'].items()):
                ctx.count('table:mapper sends a standard name to a standard name')
        for dt in set(d for (c, _), d in zip(case['columns'], case.get('dtypes') or []) if mapper.get(c, c) in STD):
            ctx.count('table:standard column stored as %s' % (dt or 'inferred'))
        if len(before['index']) >= 255:
            ctx.count('table:255 rows or more')
        if viols and nviol < 3:
            nviol += 1
            small = shrink_std(case, io)
            v2 = std_violations(small, io)[0] or viols
            ctx.violation('property', 'standardize_dataframe: ' + '; '.join(m for _, m in v2[:3]),
                          dict(kind='standardize', case=jsonable_case(small)), site='io.standardize_dataframe')
        if extra is not None:
            got, names2, ftab = extra
            tab = [(k[0], k[1], v) for k, v in ftab.items()]
            reqs.append(('api_c18_standardize', [sorted(mapper.items()), case['standardize'], tab, before['index'],
                                                 list(zip(before['columns'], before['cells']))]))
            keep.append((case, got))
    outs = ctx.oracle.run_parallel(reqs)
    ncorr = 0
    for (case, got), req, out in zip(keep, reqs, outs):
        if isinstance(out, Exception):
            raise out
        idx, cols = out
        model = dict(index=idx, columns=[c for c, _ in cols], cells=[list(v) for _, v in cols])
        mine = dict(index=got['index'], columns=got['columns'], cells=got['cells'])
        if model != mine and ncorr < 3:
            ncorr += 1
            ctx.violation('correspondence', 'standardize_dataframe: model and implementation differ: model %s vs implementation %s'
                          % (str(model)[:400], str(mine)[:400]), dict(kind='standardize', case=jsonable_case(case)),
                          site='io.standardize_dataframe')
        if len(ctx.vm_cases) < (50 if ctx.quick else 300) and len(req[1][4]) <= 4 and len(req[1][3]) <= 3:
            ctx.add_vm(req[0], req[1], out)
    # the column list the translator read from the source against the nine documented columns (after the table runs, so
    # that a concrete failing table is reported first)
    model_cols = dict(ctx.oracle.run([('api_c18_std_columns', [True])])[0])
    if model_cols != STD:
        ctx.violation('property', 'the columns the code standardises %s are not the nine documented ones %s' %
                      (sorted(model_cols.items()), sorted(STD.items())),
                      dict(kind='std_columns', code=sorted(model_cols.items())), site='io.standardize_dataframe:columns')


def gen_sequence(rng):
    """2-4 calls on ONE frame object: other options / call styles each time, and between the calls the caller overwrites a few cells
    of the standard columns in place.  Each step is a complete case (the content of the frame at that moment)."""
    base = gen_table(rng, big=False)
    while not base['columns'] or not base['columns'][0][1]:
        base = gen_table(rng, big=rng.random() < 0.3)
    mapper = base['mapper'] or {}
    steps = [base]
    for _ in range(rng.randint(1, 3)):
        other = gen_table(rng, big=False)
        cols = [[c, list(v)] for c, v in steps[-1]['columns']]
        if rng.random() < 0.6:
            for _ in range(rng.randint(1, 3)):
                j = rng.randrange(len(cols))
                name = mapper.get(cols[j][0], cols[j][0])
                holds_text = base['dtypes'][j] in ('object', 'string') or any(isinstance(x, str) for x in base['columns'][j][1])
                if name in STD and base['dtypes'][j] != 'category' and holds_text:     # (an all-missing inferred column is float64)
                    i = rng.randrange(len(cols[j][1]))
                    cols[j][1][i] = rng.choice(POOL[STD[name]] + [None])
        same = rng.random() < 0.25             # the very same call once more
        steps.append(dict(base, columns=cols, opt=steps[-1]['opt'] if same else other['opt'],
                          standardize=steps[-1]['standardize'] if same else other['standardize'],
                          call=dict(other['call'], mapper_kind=base['call']['mapper_kind'], mapper_omitted=base['call']['mapper_omitted'])))
        for o in steps[-1]['call']['omit']:
            if o == 'standardize':
                steps[-1]['standardize'] = True
            else:
                steps[-1]['opt'] = dict(steps[-1]['opt'], **{o: DEFAULTS[o]})
    return steps


def run_sequence(steps, io):
    """-> (step number, violations) of the first failing step, or None"""
    df = build_frame(steps[0])
    for n, case in enumerate(steps):
        if n:
            for j, ((_, old), (_, new)) in enumerate(zip(steps[n - 1]['columns'], case['columns'])):
                for i, (a, b) in enumerate(zip(old, new)):
                    if canon_cell(a) != canon_cell(b):
                        df.iat[i, j] = None if missing(b) else b
        viols = std_violations(case, io, df=df)[0]
        if viols:
            return n, viols
    return None


def check_sequences(ctx, seqs):
    import pyrepseq.io as io
    nviol = 0
    for steps in seqs:
        ctx.count('table sequence:%d calls on one frame' % len(steps))
        if any(jsonable_case(a)['columns'] != jsonable_case(b)['columns'] for a, b in zip(steps, steps[1:])):
            ctx.count('table sequence:cells overwritten in place between calls')
        ctx.case(nontrivial_key=('seq', repr([jsonable_case(c) for c in steps])))
        bad = run_sequence(steps, io)
        if bad and nviol < 3:
            nviol += 1
            n, viols = bad
            ctx.violation('property', 'standardize_dataframe, call %d of %d on the same frame object (options %s, standardize=%s): %s' %
                          (n + 1, len(steps), steps[n]['opt'], steps[n]['standardize'], '; '.join(m for _, m in viols[:3])),
                          dict(kind='standardize_seq', steps=[jsonable_case(c) for c in steps[:n + 1]]), site='io.standardize_dataframe:sequence')
    return nviol


# ===================================================================== (C) multimerge
def gen_merge(rng, index_column=False):
    """1-6 tables with partially overlapping keys.  A key may occur more than once inside a table (many-to-many join):
    `keymode` unique = every table has unique keys; repeated = keys drawn with replacement; shared = a later table may
    re-use an earlier table's key list verbatim or shuffled (identical indexes, where an alignment and a join differ only
    when a key repeats).  Beyond the tables themselves the case says HOW the call is made: the container of the tables (list, tuple,
    iterator, dict view), positional or keyword arguments, the container of the suffixes, an empty suffix list (= none given),
    further pd.merge keywords (how = outer / inner / left / right, sort), a second call on the same table objects."""
    nt = rng.choice([1, 2, 2, 2, 3, 3, 3, 4, 4, 4, 5, 6])
    intkeys = rng.random() < 0.4
    pool = [1, 2, 3, 5, 8, 13] if intkeys else ['a', 'b', 'c', 'd', 'e', 'f']
    sufpool = ['1', '2', 'x', 'left', 'B', 'tcr', 'y', 'R']
    suffixes = None if rng.random() < 0.5 else rng.sample(sufpool, nt)
    keymode = rng.choice(['unique', 'unique', 'repeated', 'repeated', 'shared']) if nt <= 4 else 'unique'
    # tables that share a value-column name although no suffixes are given (two or three count tables merged as they are): the join
    # is still demanded; how the clashing names are told apart is pandas' business, so only the stem of each name is compared
    overlap = suffixes is None and 2 <= nt <= 3 and rng.random() < 0.35
    on = rng.choice(['index', 'k', 'k', 'clonotype'])
    if index_column:
        # joined on the index, with suffixes, while a table also has an ordinary DATA column that is literally named 'index' (what reset_index()
        # leaves behind): the join key is still the index (seeded change C18-r8m3)
        on, overlap = 'index', False
        if suffixes is None:
            suffixes = rng.sample(sufpool, nt)
    tables = []
    for t in range(nt):
        if rng.random() < 0.05 and nt > 1:
            ks = []                                   # a table without rows
        elif keymode == 'unique':
            ks = rng.sample(pool, rng.randint(1, 5))
        elif keymode == 'shared' and tables and rng.random() < 0.7:
            ks = list(rng.choice(tables)['keys'])
            if rng.random() < 0.5:
                rng.shuffle(ks)
        else:
            small = pool[:rng.randint(1, 4)] if rng.random() < 0.6 else pool
            ks = [rng.choice(small) for _ in range(rng.randint(1, 5 if nt < 4 else 4))]
            if rng.random() < 0.3:
                ks.sort(key=repr)
        ncol = rng.randint(1, 2) if (overlap or rng.random() < 0.93) else 0      # 0: a table that holds the key only
        if index_column and ncol:
            names = (['index'] + rng.sample(['v', 'w', 'count'], ncol - 1))
        elif suffixes is not None or overlap:
            names = rng.sample(['v', 'w', 'count'], ncol)
        else:
            names = ['t%d_%s' % (t, s) for s in rng.sample(['v', 'w', 'count'], ncol)]
        cols = []
        for n in names:
            kind = rng.choice(['str', 'int', 'strna', 'float', 'bool'])
            if kind == 'int':
                cells = [rng.randint(0, 9) for _ in ks]
            elif kind == 'str':
                cells = [rng.choice(['p', 'q', 'r']) + str(t) for _ in ks]
            elif kind == 'float':
                cells = [rng.choice([0.5, 2.25, None]) for _ in ks]
            elif kind == 'bool':
                cells = [rng.random() < 0.5 for _ in ks]
            else:
                cells = [rng.choice([None, 'z' + str(t)]) for _ in ks]
            cols.append([n, cells])
        tab = dict(keys=ks, columns=cols)
        if on != 'index':
            # the table's own index has no say in a join on a column; the key column need not come first
            r = rng.random()
            if r < 0.25:
                tab['own_index'] = rng.sample(range(50), len(ks))
            elif r < 0.4:
                tab['own_index'] = [rng.choice(['r', 's']) for _ in ks]
            if rng.random() < 0.4:
                tab['keypos'] = rng.randint(0, ncol)
        elif rng.random() < 0.3:
            tab['index_name'] = rng.choice(['clonotype', 'k', 'id%d' % t])
        tables.append(tab)
    # how='right' only for one or two tables: what a right join of three tables is (the code folds pairwise from the left, so a key the
    # middle table lacks loses the first table's row) is not something the property text settles
    how = rng.choice([None, None, None, 'outer', 'inner', 'inner', 'left'] + (['right'] if nt <= 2 else []))
    case = dict(tables=tables, on=on, suffixes=suffixes, how=how, overlap=overlap,
                suffix_container=rng.choice(['list', 'list', 'tuple', 'iter', 'dict_keys']) if suffixes else None,
                container=rng.choice(['list', 'list', 'list', 'tuple', 'iter', 'dict_values']),
                call=rng.choice(['pos', 'pos', 'kw', 'on_kw']), sort=rng.choice([None, None, None, True, False]),
                empty_suffixes=rng.choice([None, None, 'list', 'tuple']) if suffixes is None else None)
    if suffixes and rng.random() < 0.3:
        # list-like suffixes that have no truth value (D20: `if suffixes:` raised on them; repaired in /repo by ef9126b)
        case['suffix_container'] = rng.choice(['ndarray', 'Index', 'Series'])
    if rng.random() < 0.3 and case['container'] in ('list', 'tuple') and case['suffix_container'] in (None, 'list', 'tuple'):
        # the same table objects merged a second time, differently
        names = [n for t in tables for n, _ in t['columns']]
        clash = len(set(names)) < len(names)          # without suffixes clashing names are admissible for two or three tables only
        case['twice'] = dict(suffixes=None if ((overlap or rng.random() < 0.4) and not (clash and nt > 3)) else rng.sample(sufpool, nt),
                             how=rng.choice([None, 'outer', 'inner', 'left'] + (['right'] if nt <= 2 else [])), sort=rng.choice([None, True]))
        if suffixes is None and case['twice']['suffixes'] is None and not overlap and rng.random() < 0.5:
            case['twice'] = dict(case['twice'], same=True, how=how, sort=case['sort'])    # the very same call once more
    return case


def second_call(case):
    tw = case['twice']
    names = [n for t in case['tables'] for n, _ in t['columns']]
    return dict(case, suffixes=tw['suffixes'], how=tw['how'], sort=tw.get('sort'), twice=None,
                suffix_container='list' if tw['suffixes'] else None, empty_suffixes=None,
                overlap=bool(case.get('overlap') or (not tw['suffixes'] and len(set(names)) < len(names))))


def merge_frames(case):
    allkeys = [k for t in case['tables'] for k in t['keys']]
    keydtype = pd.Index(allkeys).dtype if allkeys else object
    dfs = []
    for t in case['tables']:
        index = pd.Index(t['keys']) if t['keys'] else pd.Index([], dtype=keydtype)
        df = pd.DataFrame({c: (v if len(v) else pd.Series([], dtype=object)) for c, v in t['columns']}, index=index)
        if case['on'] != 'index':
            df = df.rename_axis(case['on']).reset_index()
            if t.get('keypos'):
                cols = [c for c in df.columns if c != case['on']]
                cols.insert(t['keypos'], case['on'])
                df = df[cols]
            if t.get('own_index') is not None:
                df.index = t['own_index']
        elif t.get('index_name'):
            df.index.name = t['index_name']
        dfs.append(df)
    return dfs


def canon_key(k):
    return canon_cell(k)


def unique_keys(case):
    return all(len(set(map(repr, t['keys']))) == len(t['keys']) for t in case['tables'])


def wrap(items, kind):
    if kind == 'tuple':
        return tuple(items)
    if kind == 'iter':
        return iter(list(items))
    if kind == 'dict_values':
        return dict(enumerate(items)).values()
    if kind == 'dict_keys':
        return dict.fromkeys(items).keys()
    if kind == 'ndarray':
        return np.array(list(items))
    if kind == 'Index':
        return pd.Index(list(items))
    if kind == 'Series':
        return pd.Series(list(items))
    return list(items)


def run_merge(case, io, dfs=None, holder=None):
    """-> (impl, dict(columns, rows) or None, inputs untouched).  rows: the (key, cells) pairs of the result, SORTED -
    the row order of a join is not part of the contract, the multiset of rows is.  dfs / holder: table objects (and their
    container) built by an earlier call and handed over again."""
    dfs = merge_frames(case) if dfs is None else dfs
    holder = wrap(dfs, case.get('container')) if holder is None else holder
    snap = [canon_frame(d) for d in dfs]
    kw = {} if case['how'] is None else dict(how=case['how'])
    if case.get('sort') is not None:
        kw['sort'] = case['sort']
    if case['suffixes']:
        kw['suffixes'] = wrap(case['suffixes'], case.get('suffix_container'))
    elif case.get('empty_suffixes'):
        kw['suffixes'] = wrap([], case['empty_suffixes'])
    style = case.get('call') or 'pos'
    if style == 'kw':
        impl = call_impl(io.multimerge, dfs=holder, on=case['on'], **kw)
    elif style == 'on_kw':
        impl = call_impl(io.multimerge, holder, on=case['on'], **kw)
    else:
        impl = call_impl(io.multimerge, holder, case['on'], **kw)
    untouched = snap == [canon_frame(d) for d in dfs] and (not isinstance(holder, (list, tuple)) or
                                                            (len(holder) == len(dfs) and all(a is b for a, b in zip(holder, dfs))))
    if impl[0] != 'ok':
        return impl, None, untouched
    res = impl[1]
    if case['on'] != 'index' and not case['suffixes']:
        if case['on'] not in res.columns:
            return impl, dict(columns=['<key column missing>'], rows=[]), untouched
        keys = res[case['on']].tolist()
        vals = res.drop(columns=[case['on']])
    else:
        keys = res.index.tolist()
        vals = res
    cols = [str(c) for c in vals.columns]
    rows = [[canon_key(k), [canon_cell(v) for v in vals.iloc[i].tolist()]] for i, k in enumerate(keys)]
    return impl, dict(columns=cols, rows=sorted(rows, key=repr)), untouched


def check_merge(ctx, ncases):
    rng = ctx.rng
    cases = [gen_merge(rng, index_column=(i % 10 == 3)) for i in range(ncases)]
    # the minimal D11 input first
    cases.insert(0, dict(tables=[dict(keys=['a', 'b'], columns=[['v', [1, 2]]]), dict(keys=['b', 'c'], columns=[['w', ['x', 'y']]])],
                         on='k', suffixes=None, how=None))
    # two count tables with the same value-column name, merged on the index / on a key column without suffixes
    for on in ('index', 'k'):
        cases.insert(1, dict(tables=[dict(keys=['a', 'b'], columns=[['count', [1, 2]]]), dict(keys=['b', 'c'], columns=[['count', [3, 4]]])],
                             on=on, suffixes=None, how=None, overlap=True))
    # tables long enough to cross a block size: unique keys, half of them shared
    for n in ([300] if ctx.quick else [255, 256, 1000, 1025, 4097]):
        ka = rng.sample(range(10 * n), n)
        kb = rng.sample(ka, n // 2) + rng.sample(range(10 * n, 20 * n), n - n // 2)
        rng.shuffle(kb)
        cases.append(dict(tables=[dict(keys=ka, columns=[['v', [rng.randint(0, 9) for _ in ka]]]),
                                  dict(keys=kb, columns=[['w', [rng.choice('pq') for _ in kb]]])],
                          on=rng.choice(['index', 'k']), suffixes=rng.choice([None, ['a', 'b']]), how=rng.choice([None, 'inner']), long=True))
    merge_cases(ctx, cases)


def merge_parts(case):
    return [case] + ([second_call(case)] if case.get('twice') else [])


def merge_requests(case):
    """oracle requests of one case (and of its second call): the many-to-many model always; the unique-key model of C18_merge_keys as
    well when every table has unique keys (C18_merge_m_unique says the two coincide there).  how = left / right: the outer join is
    asked for and restricted to the keys of the first / last table afterwards (merge_verdict)."""
    reqs = []
    for part in merge_parts(case):
        ts = [([c for c, _ in t['columns']],
               [(canon_key(k), [canon_cell(col[i]) for _, col in t['columns']]) for i, k in enumerate(t['keys'])])
              for t in part['tables']]
        args = [part['on'] == 'index', list(part['suffixes'] or []), part['how'] != 'inner', ts]
        reqs.append(('api_c18_multimerge_m', args))
        if unique_keys(part) and not part.get('long'):
            reqs.append(('api_c18_multimerge', args))
    return reqs


def group_counts(rows):
    out = {}
    for k, r in rows:
        out[k] = out.get(k, 0) + 1
    return out


def merge_verdict(case, outs, io):
    """(kind, message) when the case fails, else None.  outs: the oracle answers of merge_requests(case)."""
    dfs = merge_frames(case)
    holder = wrap(dfs, case.get('container'))
    parts = merge_parts(case)
    per = len(outs) // len(parts)
    for n, part in enumerate(parts):
        v = verdict_one(part, outs[n * per:(n + 1) * per], io, dfs, holder)
        if v:
            return (v[0], ('second call on the same table objects: ' if n else '') + v[1])
    return None


def verdict_one(case, outs, io, dfs, holder):
    code, mcols, mrows = outs[0]
    impl, got, untouched = run_merge(case, io, dfs, holder)
    extras = ''.join(', %s=%r' % (k, case[k]) for k in ('sort', 'container', 'suffix_container', 'empty_suffixes', 'call') if case.get(k) is not None)
    where = 'multimerge(on=%r, suffixes=%r, how=%r%s) of %d tables with keys %s' % (
        case['on'], case['suffixes'], case['how'], extras, len(case['tables']),
        [t['keys'] if len(t['keys']) <= 12 else '%d keys' % len(t['keys']) for t in case['tables']])
    if len(outs) > 1:
        c2, cols2, rows2 = outs[1]
        if (c2, list(cols2), sorted([[k, list(r)] for k, r in rows2], key=repr)) != \
           (code, list(mcols), sorted([[k, list(r)] for k, r in mrows], key=repr)):
            return 'correspondence', where + ': the unique-key model and the many-to-many model differ on unique keys'
    if impl[0] != 'ok':
        return 'property', where + ' raised %s; the property demands the join' % impl[1]
    if code != 0:
        return 'correspondence', where + ': model raises %s but the implementation returned a table' % CODE[code]
    if case['how'] in ('left', 'right'):
        # a left (right) join of all tables keeps exactly the keys of the first (last) table; per key the rows are those of the outer join
        keep = set(canon_key(k) for k in case['tables'][0 if case['how'] == 'left' else -1]['keys'])
        mrows = [(k, r) for k, r in mrows if k in keep]
    model_rows = sorted([[k, list(r)] for k, r in mrows], key=repr)
    if case.get('overlap'):
        if len(got['columns']) != len(mcols) or not all(g == m or g.startswith(m + '_') for g, m in zip(got['columns'], mcols)):
            return 'property', where + ': columns %s, expected the value columns %s in table order (clashing names told apart)' % (
                got['columns'], list(mcols))
    elif got['columns'] != list(mcols):
        return 'property', where + ': columns %s, expected %s' % (got['columns'], list(mcols))
    if got['rows'] != model_rows:
        gc, mc = group_counts(got['rows']), group_counts(model_rows)
        diff = sorted(set(gc) ^ set(mc), key=repr)
        if diff:
            what = 'keys differ: %s' % diff[:6]
        elif gc != mc:
            bad = [k for k in sorted(gc, key=repr) if gc[k] != mc[k]]
            what = ('row counts per key differ (a key must give one row per combination of the tables\' rows for it): %s' %
                    ', '.join('%s: %d rows, expected %d' % (k, gc[k], mc[k]) for k in bad[:3]))
        else:
            only_g = [r for r in got['rows'] if r not in model_rows][:2]
            only_m = [r for r in model_rows if r not in got['rows']][:2]
            what = 'rows differ (as multisets): got %s, expected %s' % (only_g, only_m)
        return 'property', where + ': ' + what
    if not untouched:
        return 'property', where + ' modified an input table'
    return None


def shrink_merge(ctx, case, io, rounds=25):
    """greedy: drop a table (keeping two), a value column or a row while the case keeps failing"""
    def candidates(c):
        ts = c['tables']
        if len(ts) > 2:
            for i in range(len(ts)):
                c2 = dict(c, tables=ts[:i] + ts[i + 1:])
                if c['suffixes']:
                    c2['suffixes'] = c['suffixes'][:i] + c['suffixes'][i + 1:]
                if c.get('twice') and c['twice'].get('suffixes'):
                    c2['twice'] = dict(c['twice'], suffixes=c['twice']['suffixes'][:i] + c['twice']['suffixes'][i + 1:])
                yield c2
        if c.get('twice') and c['twice'].get('same'):
            yield dict(c, twice=None)
        for k in ('sort', 'empty_suffixes'):
            if c.get(k) is not None:
                yield dict(c, **{k: None})
        for k in ('container', 'suffix_container'):
            if c.get(k) not in (None, 'list'):
                yield dict(c, **{k: 'list'})
        if c.get('call') not in (None, 'pos'):
            yield dict(c, call='pos')
        for i, t in enumerate(ts):
            if len(t['columns']) > 1:
                for j in range(len(t['columns'])):
                    yield dict(c, tables=ts[:i] + [dict(t, columns=t['columns'][:j] + t['columns'][j + 1:])] + ts[i + 1:])
            if len(t['keys']) > 1:
                for r in range(len(t['keys'])):
                    t2 = dict(t, keys=t['keys'][:r] + t['keys'][r + 1:],
                              columns=[[n, cells[:r] + cells[r + 1:]] for n, cells in t['columns']])
                    if t.get('own_index') is not None:
                        t2['own_index'] = t['own_index'][:r] + t['own_index'][r + 1:]
                    yield dict(c, tables=ts[:i] + [t2] + ts[i + 1:])
    best = case
    try:
        for _ in range(rounds):
            cands = list(candidates(best))
            if not cands:
                break
            reqs, spans = [], []
            for c in cands:
                r = merge_requests(c)
                spans.append((len(reqs), len(reqs) + len(r)))
                reqs += r
            outs = ctx.oracle.run(reqs)
            nxt = None
            for c, (a, b) in zip(cands, spans):
                o = outs[a:b]
                if any(isinstance(x, Exception) for x in o):
                    continue
                v = merge_verdict(c, o, io)
                if v and v[0] == 'property':
                    nxt = c
                    break
            if nxt is None:
                break
            best = nxt
    except Exception:
        pass
    return best


def merge_cases(ctx, cases, shrink=True):
    import pyrepseq.io as io
    reqs, spans = [], []
    for case in cases:
        r = merge_requests(case)
        spans.append((len(reqs), len(reqs) + len(r)))
        reqs += r
    outs = ctx.oracle.run_parallel(reqs)
    nviol = 0
    for case, (a, b) in zip(cases, spans):
        o = outs[a:b]
        for x in o:
            if isinstance(x, Exception):
                raise x
        keysets = [set(map(repr, t['keys'])) for t in case['tables']]
        union, inter = set.union(*keysets), set.intersection(*keysets)
        uniq = unique_keys(case)
        many = any(sum(1 for t in case['tables'] if t['keys'].count(k) > 1) >= 2 for t in case['tables'] for k in t['keys'])
        ctx.case(sample=dict(func='multimerge', on=case['on'], suffixes=case['suffixes'], how=case['how'],
                             keys=[t['keys'] for t in case['tables']]) if len(inter) and len(union) > len(inter) else None,
                 nontrivial_key=('merge', repr(case)) if (inter and union != inter) else None)
        ctx.count('merge:%d tables' % len(case['tables']))
        ctx.count('merge:on=%s suffixes=%s how=%s' % ('index' if case['on'] == 'index' else 'column',
                                                       'yes' if case['suffixes'] else 'no', case['how'] or 'default'))
        ctx.count('merge:keys %s' % ('unique in every table' if uniq else
                                     'repeated in two or more tables (many-to-many)' if many else 'repeated in one table'))
        if len(keysets) > 1 and all(t['keys'] == case['tables'][0]['keys'] for t in case['tables']):
            ctx.count('merge:identical key lists')
        ctx.count('merge:tables handed over as %s' % (case.get('container') or 'list'))
        ctx.count('merge:arguments %s' % {'kw': 'dfs=, on=', 'on_kw': 'dfs, on='}.get(case.get('call'), 'positional'))
        if case['suffixes']:
            ctx.count('merge:suffixes handed over as %s' % (case.get('suffix_container') or 'list'))
        for flag, label in ((case.get('empty_suffixes'), 'merge:empty suffix %s (= no suffixes)' % case.get('empty_suffixes')),
                            (case.get('sort') is not None, 'merge:sort=%s' % case.get('sort')),
                            (case.get('twice'), 'merge:same table objects merged twice'),
                            (case.get('long'), 'merge:255 keys or more'),
                            (any(not t['keys'] for t in case['tables']), 'merge:a table without rows'),
                            (any(not t['columns'] for t in case['tables']), 'merge:a table without value columns'),
                            (any(t.get('own_index') is not None for t in case['tables']), 'merge:join on a column, tables carry an index of their own'),
                            (any(t.get('keypos') for t in case['tables']), 'merge:key column not the first column'),
                            (any(t.get('index_name') for t in case['tables']), 'merge:named index')):
            if flag:
                ctx.count(label)
        site = 'io.multimerge[on=%s,suffixes=%s]' % ('index' if case['on'] == 'index' else 'column', bool(case['suffixes']))
        verdict = merge_verdict(case, o, io)
        if verdict and nviol < 3:
            nviol += 1
            kind, msg = verdict
            if kind == 'property' and shrink:
                small = shrink_merge(ctx, case, io)
                if small is not case:
                    v2 = merge_verdict(small, ctx.oracle.run(merge_requests(small)), io)
                    if v2 and v2[0] == 'property':
                        case, msg = small, v2[1]
            ctx.violation(kind, msg, dict(kind='multimerge', case=case), site=site)
        if len(ctx.vm_cases) < (60 if ctx.quick else 400) and len(case['tables']) == 2 and len(o[0][2]) <= 12:
            ctx.add_vm(reqs[a][0], reqs[a][1], o[0])


# ===================================================================== driver entry points
def run(ctx):
    logging.disable(logging.CRITICAL)
    rng = ctx.rng
    ctx.rule = ('predicates: non-trivial := the object is a container / bytes / generator, or isvalidaa holds for it (so the '
                'indexing path of isvalidcdr3 is reached); tables: non-trivial := standardize=True, at least one cell changed by '
                'standardisation and at least one missing cell in a standard column; joins: non-trivial := the key sets overlap '
                'but are not all equal (keys unique or repeated inside a table)')
    objs, n_exh = zoo(rng, ctx.quick)
    ctx.exhaustive = True
    ctx.note('all %d strings of length <= %d over {A,C,F,W,X,c} enumerated' % (n_exh, 3 if ctx.quick else 5))
    check_predicates(ctx, objs)
    check_outside(ctx)
    check_histories(ctx, [gen_history(rng) for _ in range(60 if ctx.quick else 1500)])
    check_standardize(ctx, 600 if ctx.quick else 15000)
    check_sequences(ctx, [gen_sequence(rng) for _ in range(80 if ctx.quick else 2000)])
    check_merge(ctx, 600 if ctx.quick else 15000)
    import json, os
    rp = os.path.join(os.path.dirname(os.path.dirname(os.path.abspath(__file__))), 'build', 'regen_status.json')
    try:
        for k, v in json.load(open(rp)).items():
            if k.startswith('c18.') and v.get('error'):
                ctx.note('regen %s: %s' % (k, v['error']))
                ctx.extra.setdefault('regen', {})[k] = v['error']
    except Exception:
        pass
    ctx.assumptions += [
        'Python protocol semantics of iter / len / [] / hash / == on the modelled object universe (language reference; tied by the zoo)',
        'tidytcells standardisers: the oracle for each cell (called directly on that cell alone); their adherence to IMGT is not examined',
        'pandas DataFrame.copy / rename / Series.map / merge / set_index / add_suffix contracts (modelled; tied by correspondence)',
        'standardize_dataframe leaving its argument untouched is observed (frame compared before/after), not proved: the model is functional',
        'domain: column names unique after renaming; standard-column cells are strings or missing; join keys are strings or ints, none missing (a key may repeat '
        'inside a table: many-to-many join, rows compared as a multiset); '
        'without suffixes the value columns of different tables have different names']


def replay(ctx, obj):
    logging.disable(logging.CRITICAL)
    import pyrepseq.io as io
    r = obj['replay']
    kind = r.get('kind')
    if kind == 'predicate':
        o = untokens([(a, Fraction(b), c) for a, b, c in r['tokens']])
        n = check_predicates(ctx, [o])
        ctx.note('replayed %s(%s): %s' % (r['func'], r['obj'], 'still fails' if n else 'holds now'))
    elif kind == 'predicate_outside':
        n = check_outside(ctx, only=r['obj'])
        ctx.note('replayed %s(%s): %s' % (r['func'], r['obj'], 'still fails' if n else 'holds now'))
    elif kind == 'predicate_history':
        n = check_histories(ctx, [r['history']])
        ctx.note('replayed history: %s' % ('still fails' if n else 'holds now'))
    elif kind == 'standardize':
        case = r['case']
        viols, before, extra = std_violations(case, io)
        ctx.case(sample=dict(func='standardize_dataframe', columns=before['columns']))
        if viols:
            ctx.violation('property', 'replay still fails: ' + '; '.join(m for _, m in viols[:3]), r, site='io.standardize_dataframe')
    elif kind == 'standardize_seq':
        n = check_sequences(ctx, [r['steps']])
        ctx.note('replayed sequence: %s' % ('still fails' if n else 'holds now'))
    elif kind == 'multimerge':
        merge_cases(ctx, [r['case']], shrink=False)
    else:
        run(ctx)
