"""C18 - input cleaning is total, cell-local and never alters the caller's table.

Three parts, each the extracted Coq model (coq/model/Clean.v under the facts re-read from io.py) side by side with
pyrepseq.io:  (A) isvalidaa / isvalidcdr3 over a zoo of Python objects (every string of length <= 3 (5 in the thorough tier) over
{A,C,F,W,X,c}, unicode, bytes, missing values, numbers, nested containers, generators);  (B) standardize_dataframe on
random tables, every output cell compared with a direct tidytcells call on that cell alone, the caller's frame compared
before / after;  (C) multimerge on 2-4 tables with partially overlapping keys, unique or repeated inside a table (many-to-many
join; result rows compared as a multiset with the per-key products of the extracted model).
Only public observations decide: return values, exceptions, the caller's objects afterwards."""
import itertools, logging, math
from fractions import Fraction
import numpy as np
import pandas as pd
from core import call_impl

AA = 'ACDEFGHIKLMNPQRSTVWY'
# the nine standard columns of the docstring and the tidytcells module that cleans each (0 junction, 1 tr, 2 mh, 3 aa)
STD = {'CDR3A': 0, 'CDR3B': 0, 'TRAV': 1, 'TRAJ': 1, 'TRBV': 1, 'TRBJ': 1, 'MHCA': 2, 'MHCB': 2, 'Epitope': 3}
CODE = {0: 'False', 1: 'True', 2: 'TypeError', 3: 'IndexError', 4: 'KeyError', 9: 'undecodable'}


# ===================================================================== (A) the object zoo
class Gen:
    """stands for a fresh generator over `items` (a real generator would be consumed by the first call)"""
    def __init__(self, items):
        self.items = list(items)

    def __repr__(self):
        return 'generator(%r)' % (self.items,)


class Opaque:
    def __init__(self, what):
        self.what = what

    def __repr__(self):
        return self.what


def realise(o):
    """zoo entry -> the Python object handed to the implementation (fresh on every call)"""
    if isinstance(o, Gen):
        items = [realise(x) for x in o.items]
        return (x for x in items)
    if isinstance(o, Opaque):
        return {'object()': object(), 'complex': 3 + 4j, 'inf': float('inf'), '-inf': float('-inf')}[o.what]
    if isinstance(o, list):
        return [realise(x) for x in o]
    if isinstance(o, tuple):
        return tuple(realise(x) for x in o)
    if isinstance(o, dict):
        return {realise(k): realise(v) for k, v in o.items()}
    if isinstance(o, frozenset):
        return frozenset(realise(x) for x in o)
    if isinstance(o, set):
        return {realise(x) for x in o}
    return o


def tokens(o, out=None):
    """pre-order token list (tag, number, text) of Api_c18.v"""
    out = [] if out is None else out
    if isinstance(o, str):
        out.append((0, 0, o))
    elif isinstance(o, bytes):
        out.append((1, 0, ''.join(chr(b) for b in o)))
    elif o is None:
        out.append((2, 0, ''))
    elif o is pd.NA:
        out.append((4, 0, ''))
    elif isinstance(o, bool):
        out.append((7, int(o), ''))
    elif isinstance(o, int):
        out.append((5, o, ''))
    elif isinstance(o, float):
        if math.isnan(o):
            out.append((3, 0, ''))
        elif math.isinf(o):
            out.append((14, 0, ''))
        else:
            out.append((6, Fraction(o), ''))
    elif isinstance(o, Opaque):
        out.append((14, 0, ''))
    elif isinstance(o, Gen):
        out.append((13, len(o.items), ''))
        for x in o.items:
            tokens(x, out)
    elif isinstance(o, (list, tuple, set, frozenset)):
        tag = {list: 8, tuple: 9, set: 10, frozenset: 11}[type(o)]
        items = list(o)
        out.append((tag, len(items), ''))
        for x in items:
            tokens(x, out)
    elif isinstance(o, dict):
        out.append((12, len(o), ''))
        for k, v in o.items():
            tokens(k, out)
            tokens(v, out)
    else:
        raise TypeError('outside the modelled universe: %r' % (o,))
    return out


def untokens(toks):
    """inverse of tokens (for replays)"""
    pos = [0]

    def one():
        tag, q, s = toks[pos[0]]
        pos[0] += 1
        q = Fraction(q)
        n = int(q)
        if tag == 0:
            return s
        if tag == 1:
            return bytes(ord(c) for c in s)
        if tag == 2:
            return None
        if tag == 3:
            return float('nan')
        if tag == 4:
            return pd.NA
        if tag == 5:
            return n
        if tag == 6:
            return float(q)
        if tag == 7:
            return bool(n)
        if tag == 14:
            return Opaque('object()')
        if tag == 12:
            d = {}
            for _ in range(n):
                k = one()
                d[k] = one()
            return d
        items = [one() for _ in range(n)]
        return {8: list, 9: tuple, 10: set, 11: frozenset, 13: Gen}[tag](items)
    return one()


def zoo(rng, quick):
    objs = []
    maxlen = 3 if quick else 5
    for n in range(0, maxlen + 1):
        objs += [''.join(p) for p in itertools.product('ACFWXc', repeat=n)]
    n_exh = len(objs)
    objs += ['Cé', 'ＣＦ', 'C\u0000F', 'C F', 'CAF\n', '\U0001F600', 'C\U0001F600F', ' ', 'CASSLGQSGANVLTF', 'cassf',
             'CASSYLPGQGDHYSNQPQHF', 'CAWSVGQGNTEAFF', 'CIVRAPGRADMRF', 'CASSB', 'CAS*F', 'CAS_F', 'ÇAF', 'СAF']  # Cyrillic С
    for _ in range(60 if quick else 1500):
        body = ''.join(rng.choice(AA if rng.random() < 0.8 else AA + 'BXZ*acf ') for _ in range(rng.randint(0, 18)))
        objs.append(rng.choice(['C', 'C', 'A', '', 'c']) + body + rng.choice(['F', 'W', 'C', 'A', '', 'f']))
    objs += [b'', b'C', b'CAF', b'\xff', b'CF']
    atoms = [None, float('nan'), pd.NA, 0, 1, -1, 67, 10 ** 30, 0.0, 1.5, -0.0, 1e300, -2.0, True, False,
             Opaque('inf'), Opaque('-inf'), Opaque('complex'), Opaque('object()')]
    objs += atoms
    objs += [[], (), set(), frozenset(), {}, ['C', 'A', 'F'], ('C', 'F'), ('C',), ['C'], ['C', 'A'], ['F', 'C'],
             ['C', []], ['X', []], [[]], [[], 'X'], ['CA', 'F'], ['C', ''], [''], {'C'}, {'C', 'F'}, frozenset({'C'}),
             {'C': 1}, {'C': 1, 'F': 2}, {0: 'C'}, {0: 'C', -1: 'F'}, {'C': 1, 0: 'C', -1: 'F'}, {False: 'C', -1.0: 'F'},
             {0.0: 'C'}, {'X': 0}, {'': 1}, [('C',)], [(['C'],)], [('C', ['x'])], [frozenset({'C'})], [frozenset()],
             ['C', 1], [1, 'C'], ['C', None], [None], [float('nan')], ['C', b'F'], [b'C'], ('C', ('F',)), ['C', {}],
             ['C', set()], (set(),), [(1, [2])], ['C', 'A', 'W'], ('C', 'A', 'C'), ['A', 'F'],
             Gen([]), Gen(['C', 'F']), Gen(['C', []]), Gen(['X']), Gen([1]), [Gen([])], ['C', Gen(['F'])]]

    def rnd(depth):
        r = rng.random()
        if depth == 0 or r < 0.45:
            return rng.choice(['C', 'A', 'F', 'W', 'X', '', 'CA', 'c'] + atoms[:15])
        items = [rnd(depth - 1) for _ in range(rng.randint(0, 3))]
        kind = rng.choice(['list', 'tuple', 'dict', 'set', 'frozenset', 'gen'])
        if kind == 'list':
            return items
        if kind == 'tuple':
            return tuple(items)
        if kind == 'gen':
            return Gen(items)
        hashable = []
        for x in items:
            try:
                hash(realise(x))
                if not isinstance(x, Gen) and not (isinstance(x, float) and math.isnan(x)):
                    hashable.append(x)
            except TypeError:
                pass
        if kind == 'dict':
            d = {}
            for x in hashable:
                d[x] = rnd(depth - 1)
            return d
        return set(hashable) if kind == 'set' else frozenset(hashable)
    for _ in range(400 if quick else 4000):
        objs.append(rnd(3))
    return objs, n_exh


def is_bool(v):
    return isinstance(v, (bool, np.bool_))


def describe(o):
    r = repr(o)
    return r if len(r) <= 80 else r[:77] + '...'


def check_predicates(ctx, objs, report=True):
    """Runs both predicates and both models on every zoo entry. Returns the number of violations added."""
    import pyrepseq.io as io
    before = len(ctx.violations)
    toks = [tokens(o) for o in objs]
    reqs = []
    for o, t in zip(objs, toks):
        reqs += [('api_c18_isvalidaa', [t]), ('api_c18_isvalidcdr3', [t]), ('api_c18_isvalidcdr3_original', [t])]
        if isinstance(o, str):
            reqs += [('api_c18_aa_spec', [o]), ('api_c18_cdr3_spec', [o])]
    outs = iter(ctx.oracle.run_parallel(reqs))
    seen = {}
    for k, (o, t) in enumerate(zip(objs, toks)):
        m_aa, m_cdr3, m_orig = next(outs), next(outs), next(outs)
        spec = (next(outs), next(outs)) if isinstance(o, str) else None
        cls = type(o).__name__
        ctx.count('object:' + cls)
        for name, f, model, sp in (('isvalidaa', io.isvalidaa, m_aa, spec[0] if spec else None),
                                   ('isvalidcdr3', io.isvalidcdr3, m_cdr3, spec[1] if spec else None)):
            impl = call_impl(f, realise(o))
            reached = (m_aa == 1)      # the indexing path of isvalidcdr3 is reached only when isvalidaa holds
            ctx.case(sample=dict(func=name, obj=describe(o), impl=str(impl), model=CODE[model]) if (k % 97 == 0) else None,
                     nontrivial_key=(name, describe(o)) if (reached or not isinstance(o, (str, type(None), int, float))) else None)
            replay = dict(kind='predicate', func=name, obj=describe(o), tokens=[[a, str(Fraction(b)), c] for a, b, c in t],
                          impl=str(impl), model=CODE[model])
            site = 'io.' + name
            bad = None
            if impl[0] == 'exc':
                bad = ('property', '%s(%s) raised %s; the property demands a bool for every object' % (name, describe(o), impl[1]))
                site += ':raises'
            elif not is_bool(impl[1]):
                bad = ('property', '%s(%s) returned %r which is not a bool' % (name, describe(o), impl[1]))
            elif sp is not None and bool(impl[1]) != sp:
                bad = ('property', '%s(%s) = %s but the string specification gives %s' % (name, describe(o), impl[1], sp))
            elif isinstance(o, (type(None), bool, int, float)) or o is pd.NA:
                if bool(impl[1]):
                    bad = ('property', '%s(%s) = True for a missing value / number' % (name, describe(o)))
            if bad is None and (impl[0] != 'ok' or model not in (0, 1) or bool(impl[1]) != bool(model)):
                bad = ('correspondence', '%s(%s): implementation %s, model %s' % (name, describe(o), impl, CODE[model]))
            if bad and report and seen.get((name, bad[0]), 0) < 3:
                seen[(name, bad[0])] = seen.get((name, bad[0]), 0) + 1
                ctx.violation(bad[0], bad[1], replay, site=site)
        if m_orig in (2, 3, 4):
            ctx.count('objects on which the pre-repair model raises')
        if k % 23 == 0 and len(ctx.vm_cases) < (30 if ctx.quick else 200):
            ctx.add_vm('api_c18_isvalidaa', [t], m_aa)
            ctx.add_vm('api_c18_isvalidcdr3', [t], m_cdr3)
    return len(ctx.violations) - before


# ===================================================================== (B) standardize_dataframe
POOL = {
    0: ['CASSF', 'CASSLGQSGANVLTF', 'cassf', 'ASSF', 'CASX', '', 'unknown', 'CASSW', 'C', 'CIVRAPGRADMRF', 'CAVPSGAGSYQLTF', 'casf '],
    1: ['TRBV13', 'TRBV28*01', 'TCRBV28S1*01', 'bv13*1', 'TRBV7-2*01', 'junk', 'TRBV1', 'TRAV1-1', 'TRAJ28', 'TRBJ2-4*01',
        'unknown', 'TRBV13-1', 'av26.1*1', 'aj43*1', 'bj1.5*1', 'TCRAV20*01', 'TRAV26-1', 'TRBJ1-5', 'TRBV20/OR9-2', '', 'TRAJ43*01'],
    2: ['HLA-A*02:01', 'A2', 'HLA-A*02:01:01', 'B2M', 'junk', 'HLA-DRA', 'b8', 'HLA-DQA1*05', 'HLA-DQB1*02', 'H2-Kb', 'H2-K',
        'b2m', 'HLA-A*02', 'HLA-B*08:01', '', 'DRB1*15:01'],
    3: ['GILGFVFTL', 'gilg', 'GILX', '', 'FLKEKGGL', 'not an epitope', 'LQPFPQPELPYPQPQ', 'YMPYFFTLL'],
}
EXTRA_NAMES = ['clone_count', 'trbv', 'CDR3', 'TRBV ', 'note', 'Epitope2', 'freq', 'MHC']


def missing(x):
    return x is None or x is pd.NA or (isinstance(x, float) and math.isnan(x))


def canon_cell(x):
    """None for missing; otherwise a text that identifies type class and value"""
    try:
        if x is None or x is pd.NA or (isinstance(x, (float, np.floating)) and math.isnan(x)) or x is pd.NaT:
            return None
    except Exception:
        pass
    if isinstance(x, str):
        return 's:' + x
    if isinstance(x, (bool, np.bool_)):
        return 'b:' + str(bool(x))
    if isinstance(x, (int, float, np.integer, np.floating)):
        return 'n:' + repr(float(x))
    return 'o:' + repr(x)


def canon_frame(df):
    return dict(index=[repr(i) for i in df.index.tolist()], index_name=repr(df.index.name),
                columns=[str(c) for c in df.columns],
                cells=[[canon_cell(v) for v in df.iloc[:, j].tolist()] for j in range(df.shape[1])])


def tt_cell(kind, s, opt):
    import tidytcells as tt
    if kind == 0:
        return tt.junction.standardize(seq=s, strict=opt['strict_cdr3_standardization'], suppress_warnings=True)
    if kind == 1:
        return tt.tr.standardize(gene=s, species=opt['species'], enforce_functional=opt['tcr_enforce_functional'],
                                 precision=opt['tcr_precision'], suppress_warnings=True)
    if kind == 2:
        return tt.mh.standardize(gene=s, species=opt['species'], precision=opt['mhc_precision'], suppress_warnings=True)
    return tt.aa.standardize(seq=s, on_fail='keep', suppress_warnings=True)


def gen_table(rng, big):
    nrows = rng.choice([0, 1, 1, 2, 3, 4, 6, 9] if not big else [5, 9, 14, 25])
    std = rng.sample(sorted(STD), rng.randint(0, len(STD)))
    mapper = {}
    cols = {}
    order = []
    for c in std:
        name = c
        r = rng.random()
        if r < 0.3:                       # foreign name, renamed onto the standard one
            name = rng.choice(['foo', 'bar', 'baz', 'v_call', 'j_call', 'junction_aa', 'x1', 'x2', 'x3', 'q']) + '_' + c.lower()
            mapper[name] = c
        pool = POOL[STD[c]]
        cells = []
        for _ in range(nrows):
            r2 = rng.random()
            cells.append(rng.choice([None, np.nan, pd.NA]) if r2 < 0.25 else rng.choice(pool))
        if nrows and rng.random() < 0.06:
            cells = [rng.choice([None, np.nan])] * nrows      # a column that is missing throughout
        cols[name] = cells
        order.append(name)
    for name in rng.sample(EXTRA_NAMES, rng.randint(0, 3)):
        kind = rng.choice(['int', 'float', 'str'])
        if kind == 'int':
            cols[name] = [rng.randint(0, 50) for _ in range(nrows)]
        elif kind == 'float':
            cols[name] = [rng.choice([np.nan, 0.5, 2.0, 1e-3]) for _ in range(nrows)]
        else:
            cols[name] = [rng.choice([None, 'TRBV13*01', 'cassf', 'a2', 'text']) for _ in range(nrows)]
        order.append(name)
    if rng.random() < 0.15:
        away = [c for c in order if c in STD]
        if away:                          # a standard column renamed away: it is no longer standard
            mapper[away[0]] = 'old_' + away[0]
    if rng.random() < 0.2:
        mapper['absent_column'] = 'unused'     # a mapper key that names no column is ignored by pandas
    rng.shuffle(order)
    ik = rng.choice(['range', 'ints', 'strs', 'dup', 'named'])
    if ik == 'range':
        index = None
    elif ik == 'ints':
        index = rng.sample(range(100), nrows)
    elif ik == 'strs':
        index = ['r%d' % i for i in rng.sample(range(100), nrows)]
    elif ik == 'dup':
        index = [rng.choice([5, 7]) for _ in range(nrows)]
    else:
        index = list(range(10, 10 + nrows))
    opt = dict(species=rng.choice(['HomoSapiens', 'HomoSapiens', 'MusMusculus']),
               tcr_enforce_functional=rng.random() < 0.5, tcr_precision=rng.choice(['gene', 'allele']),
               mhc_precision=rng.choice(['gene', 'protein', 'allele']),
               strict_cdr3_standardization=rng.random() < 0.5)
    flag = rng.random() < 0.85
    use_mapper = mapper if (mapper or rng.random() < 0.5) else None
    return dict(columns=[[c, cols[c]] for c in order], index=index, index_kind=ik, mapper=use_mapper, opt=opt, standardize=flag)


def build_frame(case):
    data = {c: list(v) for c, v in case['columns']}
    df = pd.DataFrame(data, columns=[c for c, _ in case['columns']],
                      index=case['index'] if case['index'] is not None else None)
    if case.get('index_kind') == 'named':
        df.index.name = 'row_id'
    return df


def run_standardize(case, io):
    df = build_frame(case)
    before = canon_frame(df)
    dtypes_before = [str(t) for t in df.dtypes]
    kw = dict(case['opt'])
    kw['suppress_warnings'] = True
    impl = call_impl(io.standardize_dataframe, df, col_mapper=case['mapper'], standardize=case['standardize'], **kw)
    after = canon_frame(df)
    dtypes_after = [str(t) for t in df.dtypes]
    return df, before, after, dtypes_before == dtypes_after, impl


def expected_cells(case, before):
    """the property, cell by cell: (renamed column names, expected canonical cells, table (kind, text) -> tidytcells result)"""
    mapper = case['mapper'] or {}
    names = [mapper.get(c, c) for c in before['columns']]
    ftab = {}
    exp = []
    for n, cells in zip(names, before['cells']):
        if case['standardize'] and n in STD:
            col = []
            for c in cells:
                if c is None:
                    col.append(None)
                else:
                    key = (STD[n], c)
                    if key not in ftab:
                        ftab[key] = canon_cell(tt_cell(STD[n], c[2:], case['opt']))
                    col.append(ftab[key])
            exp.append(col)
        else:
            exp.append(list(cells))
    return names, exp, ftab


def std_violations(case, io):
    """list of (kind, message) for one case; [] when the property holds on it"""
    df, before, after, dt_same, impl = run_standardize(case, io)
    out = []
    if before != after or not dt_same:
        out.append(('property', 'standardize_dataframe modified the caller\'s table'))
    if impl[0] != 'ok':
        out.append(('property', 'standardize_dataframe raised %s on a table inside the stated domain' % impl[1]))
        return out, before, None
    res = impl[1]
    got = canon_frame(res)
    names, exp, ftab = expected_cells(case, before)
    if got['index'] != before['index'] or got['index_name'] != before['index_name']:
        out.append(('property', 'index changed: %s -> %s' % (before['index'], got['index'])))
    if got['columns'] != names:
        out.append(('property', 'columns are %s, expected the renamed input columns %s' % (got['columns'], names)))
    else:
        for j, n in enumerate(names):
            if len(got['cells'][j]) != len(exp[j]):
                out.append(('property', 'row count of column %s changed' % n))
                continue
            for i, (g, e) in enumerate(zip(got['cells'][j], exp[j])):
                if g != e:
                    what = ('standardize=False must return the renamed input' if not case['standardize'] else
                            'a non-standard column must be preserved' if n not in STD else
                            'missing must stay missing' if before['cells'][j][i] is None else
                            'the cell must equal the tidytcells standardisation of that cell alone under the same options')
                    out.append(('property', 'cell (row %d, column %s): input %r -> output %r, expected %r (%s)' %
                                (i, n, before['cells'][j][i], g, e, what)))
                    break
    if not case['standardize'] and not out:
        ref = df.rename(columns=case['mapper']) if case['mapper'] is not None else df
        if not res.equals(ref):
            out.append(('property', 'standardize=False: result differs from the renamed input (DataFrame.equals)'))
    return out, before, (got, names, ftab)


def shrink_std(case, io):
    """cell-locality makes a one-column one-row table the natural minimal input; keep it only if it still fails"""
    best = case
    for c, cells in case['columns']:
        for i in range(len(cells)):
            small = dict(case, columns=[[c, [cells[i]]]], index=None, index_kind='range')
            try:
                if any(k == 'property' for k, _ in std_violations(small, io)[0]):
                    return small
            except Exception:
                pass
    for c, cells in case['columns']:
        small = dict(case, columns=[[c, cells]])
        try:
            if any(k == 'property' for k, _ in std_violations(small, io)[0]):
                return small
        except Exception:
            pass
    return best


def jsonable_case(case):
    def cell(x):
        return None if missing(x) else (x.item() if isinstance(x, np.generic) else x)
    return dict(case, columns=[[c, [cell(x) for x in v]] for c, v in case['columns']])


def check_standardize(ctx, ncases):
    import pyrepseq.io as io
    rng = ctx.rng
    cases = [gen_table(rng, big=(k % 25 == 24)) for k in range(ncases)]
    # the docstring example
    doc = [["av26.1*1", "CIVRAPGRADMRF", "aj43*1", "bv13*1", "CASSYLPGQGDHYSNQPQHF", "bj1.5*1", "FLKEKGGL", "b8", "b2m"],
           ["TCRAV20*01", "CAVPSGAGSYQLTF", "TCRAJ28*01", "TCRBV28S1*01", "CASSLGQSGANVLTF", "TCRBJ2S6*01", "LQPFPQPELPYPQPQ", "HLA-DQA1*05", "HLA-DQB1*02"],
           ["unknown", "unknown", "unknown", "TRBV7-2*01", "CASSDWGSQNTLYF", "TRBJ2-4*01", "YMPYFFTLL", "HLA-A*02", "B2M"]]
    names = ["TRAV", "CDR3A", "TRAJ", "TRBV", "CDR3B", "TRBJ", "Epitope", "MHCA", "MHCB"]
    cases.insert(0, dict(columns=[[n, [r[j] for r in doc]] for j, n in enumerate(names)] + [['clone_count', [1, 2, 3]]],
                         index=None, index_kind='range', mapper=None, standardize=True,
                         opt=dict(species='HomoSapiens', tcr_enforce_functional=True, tcr_precision='gene',
                                  mhc_precision='gene', strict_cdr3_standardization=False)))
    reqs, keep = [], []
    nviol = 0
    for case in cases:
        viols, before, extra = std_violations(case, io)
        mapper = case['mapper'] or {}
        nstd = [mapper.get(c, c) for c, _ in case['columns'] if mapper.get(c, c) in STD]
        changed = extra is not None and any(k[1] != v for k, v in extra[2].items())
        has_na = any(c is None for n, cells in zip([mapper.get(c, c) for c in before['columns']], before['cells'])
                     if n in STD for c in cells)
        ctx.case(sample=dict(func='standardize_dataframe', columns=before['columns'], mapper=case['mapper'],
                             opt=case['opt'], standardize=case['standardize'], rows=len(before['index']))
                 if len(nstd) >= 3 and changed else None,
                 nontrivial_key=('std', repr(jsonable_case(case))) if (changed and has_na and case['standardize']) else None)
        ctx.count('table:%d standard columns' % min(len(nstd), 9))
        ctx.count('table:standardize=%s' % case['standardize'])
        ctx.count('table:index=%s' % case['index_kind'])
        ctx.count('table:species=%s' % case['opt']['species'])
        if viols and nviol < 3:
            nviol += 1
            small = shrink_std(case, io)
            v2 = std_violations(small, io)[0] or viols
            ctx.violation('property', 'standardize_dataframe: ' + '; '.join(m for _, m in v2[:3]),
                          dict(kind='standardize', case=jsonable_case(small)), site='io.standardize_dataframe')
        if extra is not None:
            got, names2, ftab = extra
            tab = [(k[0], k[1], v) for k, v in ftab.items()]
            reqs.append(('api_c18_standardize', [sorted(mapper.items()), case['standardize'], tab, before['index'],
                                                 list(zip(before['columns'], before['cells']))]))
            keep.append((case, got))
    outs = ctx.oracle.run_parallel(reqs)
    ncorr = 0
    for (case, got), req, out in zip(keep, reqs, outs):
        if isinstance(out, Exception):
            raise out
        idx, cols = out
        model = dict(index=idx, columns=[c for c, _ in cols], cells=[list(v) for _, v in cols])
        mine = dict(index=got['index'], columns=got['columns'], cells=got['cells'])
        if model != mine and ncorr < 3:
            ncorr += 1
            ctx.violation('correspondence', 'standardize_dataframe: model and implementation differ: model %s vs implementation %s'
                          % (str(model)[:400], str(mine)[:400]), dict(kind='standardize', case=jsonable_case(case)),
                          site='io.standardize_dataframe')
        if len(ctx.vm_cases) < (50 if ctx.quick else 300) and len(req[1][4]) <= 4 and len(req[1][3]) <= 3:
            ctx.add_vm(req[0], req[1], out)
    # the column list the translator read from the source against the nine documented columns (after the table runs, so
    # that a concrete failing table is reported first)
    model_cols = dict(ctx.oracle.run([('api_c18_std_columns', [True])])[0])
    if model_cols != STD:
        ctx.violation('property', 'the columns the code standardises %s are not the nine documented ones %s' %
                      (sorted(model_cols.items()), sorted(STD.items())),
                      dict(kind='std_columns', code=sorted(model_cols.items())), site='io.standardize_dataframe:columns')


# ===================================================================== (C) multimerge
def gen_merge(rng):
    """2-4 tables with partially overlapping keys.  A key may occur more than once inside a table (many-to-many join):
    `keymode` unique = every table has unique keys; repeated = keys drawn with replacement; shared = a later table may
    re-use an earlier table's key list verbatim or shuffled (identical indexes, where an alignment and a join differ only
    when a key repeats)."""
    nt = rng.randint(2, 4)
    intkeys = rng.random() < 0.4
    pool = [1, 2, 3, 5, 8, 13] if intkeys else ['a', 'b', 'c', 'd', 'e', 'f']
    suffixes = None if rng.random() < 0.5 else rng.sample(['1', '2', 'x', 'left', 'B', 'tcr'], nt)
    keymode = rng.choice(['unique', 'unique', 'repeated', 'repeated', 'shared'])
    # tables that share a value-column name although no suffixes are given (two or three count tables merged as they are): the join
    # is still demanded; how the clashing names are told apart is pandas' business, so only the stem of each name is compared
    overlap = suffixes is None and nt <= 3 and rng.random() < 0.35
    tables = []
    for t in range(nt):
        if keymode == 'unique':
            ks = rng.sample(pool, rng.randint(1, 5))
        elif keymode == 'shared' and tables and rng.random() < 0.7:
            ks = list(rng.choice(tables)['keys'])
            if rng.random() < 0.5:
                rng.shuffle(ks)
        else:
            small = pool[:rng.randint(1, 4)] if rng.random() < 0.6 else pool
            ks = [rng.choice(small) for _ in range(rng.randint(1, 5 if nt < 4 else 4))]
            if rng.random() < 0.3:
                ks.sort(key=repr)
        ncol = rng.randint(1, 2)
        if suffixes is not None or overlap:
            names = rng.sample(['v', 'w', 'count'], ncol)
        else:
            names = ['t%d_%s' % (t, s) for s in rng.sample(['v', 'w', 'count'], ncol)]
        cols = []
        for n in names:
            kind = rng.choice(['str', 'int', 'strna'])
            if kind == 'int':
                cells = [rng.randint(0, 9) for _ in ks]
            elif kind == 'str':
                cells = [rng.choice(['p', 'q', 'r']) + str(t) for _ in ks]
            else:
                cells = [rng.choice([None, 'z' + str(t)]) for _ in ks]
            cols.append([n, cells])
        tables.append(dict(keys=ks, columns=cols))
    how = rng.choice([None, None, 'outer', 'inner'])
    on = rng.choice(['index', 'k', 'k', 'clonotype'])
    return dict(tables=tables, on=on, suffixes=suffixes, how=how, overlap=overlap,
                suffix_container=rng.choice(['list', 'list', 'tuple']) if suffixes else None)


def merge_frames(case):
    dfs = []
    for t in case['tables']:
        df = pd.DataFrame({c: v for c, v in t['columns']}, index=pd.Index(t['keys']))
        if case['on'] != 'index':
            df = df.rename_axis(case['on']).reset_index()
        dfs.append(df)
    return dfs


def canon_key(k):
    return canon_cell(k)


def unique_keys(case):
    return all(len(set(map(repr, t['keys']))) == len(t['keys']) for t in case['tables'])


def run_merge(case, io):
    """-> (impl, dict(columns, rows) or None, inputs untouched).  rows: the (key, cells) pairs of the result, SORTED -
    the row order of a join is not part of the contract, the multiset of rows is."""
    dfs = merge_frames(case)
    snap = [canon_frame(d) for d in dfs]
    kw = {} if case['how'] is None else dict(how=case['how'])
    if case['suffixes'] is None:
        impl = call_impl(io.multimerge, dfs, case['on'], **kw)
    else:
        sufs = tuple(case['suffixes']) if case.get('suffix_container') == 'tuple' else list(case['suffixes'])
        impl = call_impl(io.multimerge, dfs, case['on'], suffixes=sufs, **kw)
    untouched = snap == [canon_frame(d) for d in dfs]
    if impl[0] != 'ok':
        return impl, None, untouched
    res = impl[1]
    if case['on'] != 'index' and case['suffixes'] is None:
        if case['on'] not in res.columns:
            return impl, dict(columns=['<key column missing>'], rows=[]), untouched
        keys = res[case['on']].tolist()
        vals = res.drop(columns=[case['on']])
    else:
        keys = res.index.tolist()
        vals = res
    cols = [str(c) for c in vals.columns]
    rows = [[canon_key(k), [canon_cell(v) for v in vals.iloc[i].tolist()]] for i, k in enumerate(keys)]
    return impl, dict(columns=cols, rows=sorted(rows, key=repr)), untouched


def check_merge(ctx, ncases):
    rng = ctx.rng
    cases = [gen_merge(rng) for _ in range(ncases)]
    # the minimal D11 input first
    cases.insert(0, dict(tables=[dict(keys=['a', 'b'], columns=[['v', [1, 2]]]), dict(keys=['b', 'c'], columns=[['w', ['x', 'y']]])],
                         on='k', suffixes=None, how=None))
    # two count tables with the same value-column name, merged on the index / on a key column without suffixes
    for on in ('index', 'k'):
        cases.insert(1, dict(tables=[dict(keys=['a', 'b'], columns=[['count', [1, 2]]]), dict(keys=['b', 'c'], columns=[['count', [3, 4]]])],
                             on=on, suffixes=None, how=None, overlap=True))
    merge_cases(ctx, cases)


def merge_requests(case):
    """oracle requests of one case: the many-to-many model always; the unique-key model of C18_merge_keys as well when
    every table has unique keys (C18_merge_m_unique says the two coincide there)"""
    ts = [([c for c, _ in t['columns']],
           [(canon_key(k), [canon_cell(col[i]) for _, col in t['columns']]) for i, k in enumerate(t['keys'])])
          for t in case['tables']]
    args = [case['on'] == 'index', list(case['suffixes'] or []), case['how'] != 'inner', ts]
    reqs = [('api_c18_multimerge_m', args)]
    if unique_keys(case):
        reqs.append(('api_c18_multimerge', args))
    return reqs


def group_counts(rows):
    out = {}
    for k, r in rows:
        out[k] = out.get(k, 0) + 1
    return out


def merge_verdict(case, outs, io):
    """(kind, message) when the case fails, else None.  outs: the oracle answers of merge_requests(case)."""
    code, mcols, mrows = outs[0]
    impl, got, untouched = run_merge(case, io)
    where = 'multimerge(on=%r, suffixes=%r, how=%r) of %d tables with keys %s' % (
        case['on'], case['suffixes'], case['how'], len(case['tables']), [t['keys'] for t in case['tables']])
    if len(outs) > 1:
        c2, cols2, rows2 = outs[1]
        if (c2, list(cols2), sorted([[k, list(r)] for k, r in rows2], key=repr)) != \
           (code, list(mcols), sorted([[k, list(r)] for k, r in mrows], key=repr)):
            return 'correspondence', where + ': the unique-key model and the many-to-many model differ on unique keys'
    if impl[0] != 'ok':
        return 'property', where + ' raised %s; the property demands the join' % impl[1]
    if code != 0:
        return 'correspondence', where + ': model raises %s but the implementation returned a table' % CODE[code]
    model_rows = sorted([[k, list(r)] for k, r in mrows], key=repr)
    if case.get('overlap'):
        if len(got['columns']) != len(mcols) or not all(g == m or g.startswith(m + '_') for g, m in zip(got['columns'], mcols)):
            return 'property', where + ': columns %s, expected the value columns %s in table order (clashing names told apart)' % (
                got['columns'], list(mcols))
    elif got['columns'] != list(mcols):
        return 'property', where + ': columns %s, expected %s' % (got['columns'], list(mcols))
    if got['rows'] != model_rows:
        gc, mc = group_counts(got['rows']), group_counts(model_rows)
        diff = sorted(set(gc) ^ set(mc))
        if diff:
            what = 'keys differ: %s' % diff
        elif gc != mc:
            bad = [k for k in sorted(gc) if gc[k] != mc[k]]
            what = ('row counts per key differ (a key must give one row per combination of the tables\' rows for it): %s' %
                    ', '.join('%s: %d rows, expected %d' % (k, gc[k], mc[k]) for k in bad[:3]))
        else:
            only_g = [r for r in got['rows'] if r not in model_rows][:2]
            only_m = [r for r in model_rows if r not in got['rows']][:2]
            what = 'rows differ (as multisets): got %s, expected %s' % (only_g, only_m)
        return 'property', where + ': ' + what
    if not untouched:
        return 'property', where + ' modified an input table'
    return None


def shrink_merge(ctx, case, io, rounds=25):
    """greedy: drop a table (keeping two), a value column or a row while the case keeps failing"""
    def candidates(c):
        ts = c['tables']
        if len(ts) > 2:
            for i in range(len(ts)):
                c2 = dict(c, tables=ts[:i] + ts[i + 1:])
                if c['suffixes']:
                    c2['suffixes'] = c['suffixes'][:i] + c['suffixes'][i + 1:]
                yield c2
        for i, t in enumerate(ts):
            if len(t['columns']) > 1:
                for j in range(len(t['columns'])):
                    yield dict(c, tables=ts[:i] + [dict(t, columns=t['columns'][:j] + t['columns'][j + 1:])] + ts[i + 1:])
            if len(t['keys']) > 1:
                for r in range(len(t['keys'])):
                    t2 = dict(keys=t['keys'][:r] + t['keys'][r + 1:],
                              columns=[[n, cells[:r] + cells[r + 1:]] for n, cells in t['columns']])
                    yield dict(c, tables=ts[:i] + [t2] + ts[i + 1:])
    best = case
    try:
        for _ in range(rounds):
            cands = list(candidates(best))
            if not cands:
                break
            reqs, spans = [], []
            for c in cands:
                r = merge_requests(c)
                spans.append((len(reqs), len(reqs) + len(r)))
                reqs += r
            outs = ctx.oracle.run(reqs)
            nxt = None
            for c, (a, b) in zip(cands, spans):
                o = outs[a:b]
                if any(isinstance(x, Exception) for x in o):
                    continue
                v = merge_verdict(c, o, io)
                if v and v[0] == 'property':
                    nxt = c
                    break
            if nxt is None:
                break
            best = nxt
    except Exception:
        pass
    return best


def merge_cases(ctx, cases, shrink=True):
    import pyrepseq.io as io
    reqs, spans = [], []
    for case in cases:
        r = merge_requests(case)
        spans.append((len(reqs), len(reqs) + len(r)))
        reqs += r
    outs = ctx.oracle.run_parallel(reqs)
    nviol = 0
    for case, (a, b) in zip(cases, spans):
        o = outs[a:b]
        for x in o:
            if isinstance(x, Exception):
                raise x
        keysets = [set(map(repr, t['keys'])) for t in case['tables']]
        union, inter = set.union(*keysets), set.intersection(*keysets)
        uniq = unique_keys(case)
        many = any(sum(1 for t in case['tables'] if t['keys'].count(k) > 1) >= 2 for t in case['tables'] for k in t['keys'])
        ctx.case(sample=dict(func='multimerge', on=case['on'], suffixes=case['suffixes'], how=case['how'],
                             keys=[t['keys'] for t in case['tables']]) if len(inter) and len(union) > len(inter) else None,
                 nontrivial_key=('merge', repr(case)) if (inter and union != inter) else None)
        ctx.count('merge:%d tables' % len(case['tables']))
        ctx.count('merge:on=%s suffixes=%s how=%s' % ('index' if case['on'] == 'index' else 'column',
                                                       'yes' if case['suffixes'] else 'no', case['how'] or 'default'))
        ctx.count('merge:keys %s' % ('unique in every table' if uniq else
                                     'repeated in two or more tables (many-to-many)' if many else 'repeated in one table'))
        if len(keysets) > 1 and all(t['keys'] == case['tables'][0]['keys'] for t in case['tables']):
            ctx.count('merge:identical key lists')
        site = 'io.multimerge[on=%s,suffixes=%s]' % ('index' if case['on'] == 'index' else 'column', bool(case['suffixes']))
        verdict = merge_verdict(case, o, io)
        if verdict and nviol < 3:
            nviol += 1
            kind, msg = verdict
            if kind == 'property' and shrink:
                small = shrink_merge(ctx, case, io)
                if small is not case:
                    v2 = merge_verdict(small, ctx.oracle.run(merge_requests(small)), io)
                    if v2 and v2[0] == 'property':
                        case, msg = small, v2[1]
            ctx.violation(kind, msg, dict(kind='multimerge', case=case), site=site)
        if len(ctx.vm_cases) < (60 if ctx.quick else 400) and len(case['tables']) == 2 and len(o[0][2]) <= 12:
            ctx.add_vm(reqs[a][0], reqs[a][1], o[0])


# ===================================================================== driver entry points
def run(ctx):
    logging.disable(logging.CRITICAL)
    rng = ctx.rng
    ctx.rule = ('predicates: non-trivial := the object is a container / bytes / generator, or isvalidaa holds for it (so the '
                'indexing path of isvalidcdr3 is reached); tables: non-trivial := standardize=True, at least one cell changed by '
                'standardisation and at least one missing cell in a standard column; joins: non-trivial := the key sets overlap '
                'but are not all equal (keys unique or repeated inside a table)')
    objs, n_exh = zoo(rng, ctx.quick)
    ctx.exhaustive = True
    ctx.note('all %d strings of length <= %d over {A,C,F,W,X,c} enumerated' % (n_exh, 3 if ctx.quick else 5))
    check_predicates(ctx, objs)
    check_standardize(ctx, 600 if ctx.quick else 15000)
    check_merge(ctx, 600 if ctx.quick else 15000)
    import json, os
    rp = os.path.join(os.path.dirname(os.path.dirname(os.path.abspath(__file__))), 'build', 'regen_status.json')
    try:
        for k, v in json.load(open(rp)).items():
            if k.startswith('c18.') and v.get('error'):
                ctx.note('regen %s: %s' % (k, v['error']))
                ctx.extra.setdefault('regen', {})[k] = v['error']
    except Exception:
        pass
    ctx.assumptions += [
        'Python protocol semantics of iter / len / [] / hash / == on the modelled object universe (language reference; tied by the zoo)',
        'tidytcells standardisers: the oracle for each cell (called directly on that cell alone); their adherence to IMGT is not examined',
        'pandas DataFrame.copy / rename / Series.map / merge / set_index / add_suffix contracts (modelled; tied by correspondence)',
        'standardize_dataframe leaving its argument untouched is observed (frame compared before/after), not proved: the model is functional',
        'domain: column names unique after renaming; standard-column cells are strings or missing; join keys are strings or ints, none missing (a key may repeat '
        'inside a table: many-to-many join, rows compared as a multiset); '
        'without suffixes the value columns of different tables have different names']


def replay(ctx, obj):
    logging.disable(logging.CRITICAL)
    import pyrepseq.io as io
    r = obj['replay']
    kind = r.get('kind')
    if kind == 'predicate':
        o = untokens([(a, Fraction(b), c) for a, b, c in r['tokens']])
        n = check_predicates(ctx, [o])
        ctx.note('replayed %s(%s): %s' % (r['func'], r['obj'], 'still fails' if n else 'holds now'))
    elif kind == 'standardize':
        case = r['case']
        viols, before, extra = std_violations(case, io)
        ctx.case(sample=dict(func='standardize_dataframe', columns=before['columns']))
        if viols:
            ctx.violation('property', 'replay still fails: ' + '; '.join(m for _, m in viols[:3]), r, site='io.standardize_dataframe')
    elif kind == 'multimerge':
        merge_cases(ctx, [r['case']], shrink=False)
    else:
        run(ctx)
