"""Typed text protocol shared by the Python harness, the extracted OCaml oracle
and the generated Coq case files.

Types are nested tuples:
  'nat' 'N' 'Z' 'bool' 'str' 'Q'        atoms (str = list N of code points)
  ('list', t)  ('option', t)  ('tup', t1, ..., tn)

Wire format (whitespace separated tokens):
  nat   decimal                N / Z   [-]b<binary digits>   (b0 = zero)
  bool  T | F                  str     s<cp>.<cp>...  (s alone = empty)
  Q     <Z>/<positive>         list    ( item ... )
  option  None | Some v        tuple   components inline
"""
from fractions import Fraction


def L(t):
    return ('list', t)


def O(t):
    return ('option', t)


def T(*ts):
    return ('tup',) + ts


STRS = L('str')
TRIP = T('nat', 'nat', 'nat')
TRIPS = L(TRIP)


# ---------------------------------------------------------------- wire encode
def _bin(v):
    v = int(v)
    return ('-b' if v < 0 else 'b') + format(abs(v), 'b')


def enc(v, t, out):
    if t == 'nat':
        v = int(v)
        assert v >= 0
        out.append(str(v))
    elif t == 'N':
        assert int(v) >= 0
        out.append(_bin(v))
    elif t == 'Z':
        out.append(_bin(v))
    elif t == 'bool':
        out.append('T' if v else 'F')
    elif t == 'str':
        out.append('s' + '.'.join(str(ord(c)) for c in v))
    elif t == 'Q':
        f = Fraction(v)
        out.append(_bin(f.numerator) + '/' + _bin(f.denominator))
    elif t[0] == 'list':
        out.append('(')
        for x in v:
            enc(x, t[1], out)
        out.append(')')
    elif t[0] == 'option':
        if v is None:
            out.append('None')
        else:
            out.append('Some')
            enc(v, t[1], out)
    elif t[0] == 'tup':
        assert len(v) == len(t) - 1, (v, t)
        for x, tt in zip(v, t[1:]):
            enc(x, tt, out)
    else:
        raise ValueError(t)


def encode_request(func, args, argtys):
    out = [func]
    assert len(args) == len(argtys), (func, len(args), len(argtys))
    for a, t in zip(args, argtys):
        enc(a, t, out)
    return ' '.join(out)


# ---------------------------------------------------------------- wire decode
def _unbin(tok):
    neg = tok.startswith('-')
    if neg:
        tok = tok[1:]
    assert tok[0] == 'b', tok
    v = int(tok[1:], 2)
    return -v if neg else v


def dec(toks, pos, t):
    if t == 'nat':
        return int(toks[pos]), pos + 1
    if t in ('N', 'Z'):
        return _unbin(toks[pos]), pos + 1
    if t == 'bool':
        return toks[pos] == 'T', pos + 1
    if t == 'str':
        body = toks[pos][1:]
        return ''.join(chr(int(c)) for c in body.split('.')) if body else '', pos + 1
    if t == 'Q':
        n, d = toks[pos].split('/')
        return Fraction(_unbin(n), _unbin(d)), pos + 1
    if t[0] == 'list':
        assert toks[pos] == '(', toks[pos]
        pos += 1
        res = []
        while toks[pos] != ')':
            v, pos = dec(toks, pos, t[1])
            res.append(v)
        return res, pos + 1
    if t[0] == 'option':
        if toks[pos] == 'None':
            return None, pos + 1
        assert toks[pos] == 'Some'
        return dec(toks, pos + 1, t[1])
    if t[0] == 'tup':
        res = []
        for tt in t[1:]:
            v, pos = dec(toks, pos, tt)
            res.append(v)
        return tuple(res), pos
    raise ValueError(t)


def decode_result(line, t):
    toks = line.split()
    if toks and toks[0] == 'ERROR':
        raise RuntimeError('oracle: ' + line)
    v, pos = dec(toks, 0, t)
    assert pos == len(toks), (line, t)
    return v


# ---------------------------------------------------------------- Coq rendering
def coq_type(t):
    if t in ('nat', 'N', 'Z', 'bool', 'Q'):
        return t
    if t == 'str':
        return '(list N)'
    if t[0] == 'list':
        return '(list %s)' % coq_type(t[1])
    if t[0] == 'option':
        return '(option %s)' % coq_type(t[1])
    if t[0] == 'tup':
        return '(' + ' * '.join(coq_type(x) for x in t[1:]) + ')%type'
    raise ValueError(t)


def coq_term(v, t):
    if t == 'nat':
        return '%d%%nat' % int(v)
    if t == 'N':
        return '%d%%N' % int(v)
    if t == 'Z':
        return '(%d)%%Z' % int(v)
    if t == 'bool':
        return 'true' if v else 'false'
    if t == 'str':
        if not v:
            return '(@nil N)'
        return '[' + ';'.join(str(ord(c)) for c in v) + ']%N'
    if t == 'Q':
        f = Fraction(v)
        return '((%d) # %d)%%Q' % (f.numerator, f.denominator)
    if t[0] == 'list':
        if not v:
            return '(@nil %s)' % coq_type(t[1])
        return '[' + '; '.join(coq_term(x, t[1]) for x in v) + ']'
    if t[0] == 'option':
        if v is None:
            return '(@None %s)' % coq_type(t[1])
        return '(Some %s)' % coq_term(v, t[1])
    if t[0] == 'tup':
        return '(' + ', '.join(coq_term(x, tt) for x, tt in zip(v, t[1:])) + ')'
    raise ValueError(t)


# ---------------------------------------------------------------- OCaml codegen
def ml_parser(t):
    if t in ('nat', 'N', 'Z', 'bool', 'str', 'Q'):
        return 'p_' + t.lower()
    if t[0] == 'list':
        return '(p_list %s)' % ml_parser(t[1])
    if t[0] == 'option':
        return '(p_option %s)' % ml_parser(t[1])
    if t[0] == 'tup':
        n = len(t) - 1
        binds = ' '.join('let x%d = %s st in' % (i, ml_parser(tt)) for i, tt in enumerate(t[1:]))
        val = 'x0'
        for i in range(1, n):
            val = '(%s, x%d)' % (val, i)
        return '(fun st -> %s %s)' % (binds, val)
    raise ValueError(t)


def ml_printer(t):
    if t in ('nat', 'N', 'Z', 'bool', 'str', 'Q'):
        return 'w_' + t.lower()
    if t[0] == 'list':
        return '(w_list %s)' % ml_printer(t[1])
    if t[0] == 'option':
        return '(w_option %s)' % ml_printer(t[1])
    if t[0] == 'tup':
        n = len(t) - 1
        pat = 'x0'
        for i in range(1, n):
            pat = '(%s, x%d)' % (pat, i)
        body = ' '.join('%s buf x%d;' % (ml_printer(tt), i) for i, tt in enumerate(t[1:]))
        return '(fun buf %s -> %s ())' % (pat, body)
    raise ValueError(t)
