"""C10 - search results do not depend on output format or input container."""
import itertools
import numpy as np
import pandas as pd
import gens
from gens import repertoire, canon_triplets, canon_model
from core import call_impl
import c07
import customs
from fractions import Fraction


def containers(rng, seqs):
    n = len(seqs)
    perm = list(range(n))
    rng.shuffle(perm)
    return {
        'list': list(seqs), 'tuple': tuple(seqs), 'ndarray': np.array(seqs, dtype=object if '' in seqs and False else None) if seqs else np.array(seqs),
        'series_default': pd.Series(list(seqs)),
        'series_shifted': pd.Series(list(seqs), index=range(5, 5 + n)),
        'series_permuted': pd.Series(list(seqs), index=perm),
        'series_string': pd.Series(list(seqs), index=['r%d' % i for i in range(n)]),
    }


def run(ctx):
    import pyrepseq.nn as nn
    rng = ctx.rng
    ctx.rule = ('(a) every engine (symdel, nearest_neighbor, hash_based, kdtree; one- and two-collection symdel; default and Hamming '
                'mode) x container in {list, tuple, ndarray, Series with default / shifted / permuted / string index} x output_type in '
                '{triplets, coo_matrix, ndarray}: triplets equal the model, matrices equal the model\'s dense form of the triplets, shape '
                '(len(seqs), len(seqs2) or len(seqs)); (b) the full product of invalid-argument classes x engine must raise. '
                'non-trivial := non-default container or non-triplet output, with a non-empty expected result')
    cases = []
    engines = ['symdel', 'nearest_neighbor', 'hash_based', 'kdtree']
    conts = ['list', 'tuple', 'ndarray', 'series_default', 'series_shifted', 'series_permuted', 'series_string']
    outs_t = ['triplets', 'coo_matrix', 'ndarray']
    combos = list(itertools.product(engines, conts, outs_t, ['lev', 'ham', 'custom'], [False, True]))
    rng.shuffle(combos)
    if ctx.quick:
        combos = combos[:150]
    else:
        combos = combos * 4            # the full product four times over, fresh repertoires each time
    plan = []
    for eng, cont, ot, mode, two in combos:
        if two and eng not in ('symdel', 'nearest_neighbor'):
            two = False
        if mode == 'custom':
            # a callable distance with fractional / scaled values (lev/2, 3*lev, weighted): the matrix forms must carry d unchanged
            mode = ('custom', rng.choice([2, 2, 1, 4]), rng.choice([1, 2]))
        seqs = repertoire(rng, rng.randint(2, 14), extras=False, minlen=1) if mode != 'ham' else c07.ham_repertoire(rng, rng.randint(2, 14))
        seqs = [s for s in seqs if 1 <= len(s) <= 11] or ['CAF', 'CAW']
        seqs2 = None
        if two:
            seqs2 = rng.sample(seqs, min(len(seqs), 3)) + [gens.mutate(rng, rng.choice(seqs), gens.AA, 1) or 'A' for _ in range(rng.randint(1, 5))]
            seqs2 = [s for s in seqs2 if s]
        plan.append((eng, cont, ot, mode, seqs, seqs2))
    reqs = []
    for eng, cont, ot, mode, seqs, seqs2 in plan:
        if isinstance(mode, tuple):
            if seqs2 is None:
                reqs.append(('api_brute_self_custom', [mode[1], mode[2], None, seqs]))
            else:
                reqs.append(('api_brute_cross_custom', [mode[1], mode[2], None, seqs, seqs2]))
        elif seqs2 is None:
            reqs.append(('api_brute_self_%s' % mode, [1, seqs]))
        else:
            reqs.append(('api_brute_cross_%s' % mode, [1, seqs, seqs2]))
    trips = ctx.oracle.run_parallel(reqs)
    # dense form by the model; rational distances are scaled by 2 (the only denominators the custom distances produce) and scaled back
    dreqs = [('api_coo_dense', [len(p[4]), len(p[5]) if p[5] is not None else len(p[4]), [(a, b, int(Fraction(d) * 2)) for a, b, d in t]])
             for p, t in zip(plan, trips)]
    dense = [[[Fraction(x, 2) for x in row] for row in m] for m in ctx.oracle.run_parallel(dreqs)]
    for (eng, cont, ot, mode, seqs, seqs2), t, dm in zip(plan, trips, dense):
        fn = getattr(nn, eng)
        cs = containers(rng, seqs)[cont]
        kw = dict(max_edits=1, output_type=ot)
        if mode == 'ham':
            kw['custom_distance'] = 'hamming'
        elif isinstance(mode, tuple):
            kw['custom_distance'] = customs.make(mode[1])
            kw['max_edits'] = mode[2]
            ctx.count('custom_distance_matrix' if ot != 'triplets' else 'custom_distance_triplets')
        if seqs2 is not None:
            kw['seqs2'] = containers(rng, seqs2)[cont]
        g = call_impl(lambda: fn(cs, **kw))
        nt = bool(t) and (cont != 'list' or ot != 'triplets')
        desc = dict(engine=eng, container=cont, output_type=ot, mode=list(mode) if isinstance(mode, tuple) else mode, seqs=seqs, seqs2=seqs2)
        ctx.count('container=' + cont)
        ctx.count('output=' + ot)
        ctx.case(sample=desc if nt and len(ctx.samples) < 6 else None,
                 nontrivial_key=(eng, cont, ot, str(mode), tuple(seqs), tuple(seqs2 or ())) if nt else None)
        ok = g[0] == 'ok'
        why = None
        if ok:
            try:
                if ot == 'triplets':
                    ok = canon_triplets(g[1]) == canon_model(t)
                    why = 'triplets differ from the model'
                else:
                    m = g[1].toarray() if ot == 'coo_matrix' else np.asarray(g[1])
                    exp = np.array(dm, dtype=float).reshape(len(seqs), len(seqs2) if seqs2 is not None else len(seqs))
                    ok = m.shape == exp.shape and np.array_equal(np.asarray(m, dtype=float), exp)
                    why = 'matrix (shape %s) differs from the dense form of the triplets (shape %s)' % (m.shape, exp.shape)
            except Exception as e:
                ok, why = False, 'result not interpretable: %r' % (e,)
        else:
            why = 'raised %s' % g[1]
        if not ok:
            ctx.violation('property', '%s(%s as %s%s, output_type=%s, %s): %s' %
                          (eng, seqs, cont, '' if seqs2 is None else ', seqs2=%s' % seqs2, ot, mode, why), desc,
                          site='nn.%s[%s]' % (eng, 'series-index' if cont in ('series_shifted', 'series_permuted', 'series_string') else 'format'))
        if len(ctx.violations) > 8:
            break
    if plan:
        ctx.add_vm(*dreqs[0], [[int(x * 2) for x in row] for row in dense[0]])
    # (b) invalid arguments: must raise, never return a result
    good = dict(seqs=['CAF', 'CAW'], max_edits=1, max_returns=None, n_cpu=1, custom_distance=None, max_custom_distance=float('inf'),
                output_type='triplets')
    bad = {
        'seqs': [[], (), np.array([]), [1, 2], ['CAF', None], ['CAF', 3.5], 7, None, [b'CAF']],
        'max_edits': [0, -1, 1.0, 1.5, '1', None, True],
        'max_returns': [0, -2, 1.5, '3'],
        'n_cpu': [0, -1, 1.0, '2', None],
        # unknown names, near misses of the three valid ones included (another capitalisation, padding, a prefix, the class name)
        'output_type': ['dense', 'matrix', None, 3, 'Triplets', 'TRIPLETS', 'COO_matrix', 'coo_Matrix', 'NDARRAY', 'ndArray', ' triplets',
                        'ndarray ', 'coo', 'triplet', 'csr_matrix', '', b'ndarray', True],
        'max_custom_distance': [-1, '3', None],
        'custom_distance': ['levenshtein', (lambda a, b: 1), 5],
    }
    ninv = 0
    for eng in engines:
        fn = getattr(nn, eng)
        for arg, vals in bad.items():
            for v in vals:
                # every distance mode: an engine may take another code path (length buckets, substitution ball) in Hamming mode
                for mode_kw in ({}, dict(custom_distance='hamming')):
                    if arg == 'custom_distance' and mode_kw:
                        continue
                    kw = dict(good)
                    kw.update(mode_kw)
                    kw[arg] = v
                    seqs = kw.pop('seqs')
                    g = call_impl(lambda: fn(seqs, **kw))
                    ninv += 1
                    ctx.case(nontrivial_key=('invalid', eng, arg, repr(v), bool(mode_kw)))
                    ctx.count('invalid_' + arg)
                    if g[0] == 'ok':
                        ctx.violation('property', '%s accepted the invalid argument %s=%r%s and returned %s' %
                                      (eng, arg, v, ' (custom_distance=hamming)' if mode_kw else '', str(g[1])[:100]),
                                      dict(engine=eng, argument=arg, value=repr(v), mode=mode_kw), site='nn.%s[invalid:%s]' % (eng, arg))
        for v in [[1, 2], ['CAF', None], 5]:
            if eng in ('symdel', 'nearest_neighbor'):
                g = call_impl(lambda: fn(['CAF', 'CAW'], seqs2=v))
                ninv += 1
                ctx.case(nontrivial_key=('invalid', eng, 'seqs2', repr(v)))
                if g[0] == 'ok':
                    ctx.violation('property', '%s accepted invalid seqs2=%r' % (eng, v), dict(engine=eng, argument='seqs2', value=repr(v)),
                                  site='nn.%s[invalid:seqs2]' % eng)
    ctx.extra['invalid_argument_calls'] = ninv
    ctx.exhaustive = True
    ctx.assumptions += ['scipy.sparse.coo_matrix(...).toarray() sums entries with equal coordinates (modelled)',
                        'container theorem is definitional in the model (engines take the positional sequence); the tie is this correspondence']


def replay(ctx, obj):
    import pyrepseq.nn as nn
    r = obj['replay']
    if 'engine' in r and 'seqs' in r:
        fn = getattr(nn, r['engine'])
        cs = containers(ctx.rng, r['seqs'])[r['container']]
        kw = dict(max_edits=1, output_type=r['output_type'])
        if isinstance(r.get('mode'), list):
            kw.update(custom_distance=customs.make(r['mode'][1]), max_edits=r['mode'][2])
        elif r.get('mode') == 'ham':
            kw['custom_distance'] = 'hamming'
        g = call_impl(lambda: fn(cs, **kw))
        ctx.case(sample=r)
        if g[0] != 'ok':
            ctx.violation('property', 'replay still raises %s' % (g[1],), r)
