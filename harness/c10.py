"""C10 - search results do not depend on output format or input container."""
import contextlib
import io
import itertools
import math
import os
import random
import numpy as np
import pandas as pd
import gens
from gens import repertoire, canon_triplets, canon_model
from core import call_impl
import c07
import customs
from fractions import Fraction
from rapidfuzz.distance import Levenshtein as RL

ENGINES = ['symdel', 'nearest_neighbor', 'hash_based', 'kdtree']
DB_ENGINES = ['SymdelDB.lookup', 'LookupDB.lookup']
ANY_ALPHABET = ('symdel', 'nearest_neighbor', 'SymdelDB.lookup')      # the other engines are documented for amino-acid letters only
CONTS = ['list', 'tuple', 'ndarray', 'series_default', 'series_shifted', 'series_permuted', 'series_string']
# further containers of the same three kinds (list / NumPy array / pandas Series "with any index labels")
CONTS_MORE = ['ndarray_object', 'list_npstr', 'series_dup', 'series_float', 'series_negative', 'series_self', 'series_multi',
              'series_datetime', 'series_stringdtype', 'series_object', 'series_category', 'series_slice', 'series_named']
OUTS = ['triplets', 'coo_matrix', 'ndarray']
SERIES_INDEXED = set(c for c in CONTS + CONTS_MORE if c.startswith('series_') and c not in ('series_default', 'series_stringdtype', 'series_category'))


def container(kind, seqs, cseed=0):
    """The sequences `seqs` (a list of str) as a container of the given kind; label choices are a function of cseed (replayable)."""
    r = random.Random(cseed)
    n = len(seqs)
    s = list(seqs)
    if kind == 'list':
        return s
    if kind == 'tuple':
        return tuple(s)
    if kind == 'ndarray':
        return np.array(s)                                   # '<U..' dtype, elements np.str_
    if kind == 'ndarray_object':
        a = np.empty(n, dtype=object)                        # object dtype, elements str
        a[:] = s
        return a
    if kind == 'list_npstr':
        return [np.str_(x) for x in s]
    if kind == 'series_default':
        return pd.Series(s)
    if kind == 'series_shifted':
        return pd.Series(s, index=range(5, 5 + n))
    if kind == 'series_permuted':
        perm = list(range(n))
        r.shuffle(perm)
        if n > 1 and perm == list(range(n)):
            perm = perm[1:] + perm[:1]
        return pd.Series(s, index=perm)
    if kind == 'series_string':
        return pd.Series(s, index=['r%d' % i for i in range(n)])
    if kind == 'series_dup':                                 # equal labels: all one label / pairs / alternating / positions of other rows
        return pd.Series(s, index=r.choice([[0] * n, [i // 2 for i in range(n)], [i % 2 for i in range(n)],
                                            [r.randrange(n) for _ in range(n)]]))
    if kind == 'series_float':
        return pd.Series(s, index=[n - i - 0.5 for i in range(n)])
    if kind == 'series_negative':
        return pd.Series(s, index=[-1 - i for i in range(n)])
    if kind == 'series_self':                                # the sequences label themselves
        return pd.Series(s, index=list(s))
    if kind == 'series_multi':
        return pd.Series(s, index=pd.MultiIndex.from_tuples([(i % 2, n - i) for i in range(n)]))
    if kind == 'series_datetime':
        return pd.Series(s, index=pd.date_range('2020-01-01', periods=n)[::-1])
    if kind == 'series_stringdtype':
        return pd.Series(s, dtype='string')
    if kind == 'series_object':
        return pd.Series(s, index=range(n, 2 * n), dtype=object)
    if kind == 'series_category':
        return pd.Series(s, dtype='category')
    if kind == 'series_slice':                               # a window of a longer column, as after df[a:b] / a filter
        pad = ['CASSF', 'CASSW', 'CAF']
        return pd.Series(pad + s + pad).iloc[len(pad):len(pad) + n]
    if kind == 'series_named':
        return pd.Series(s, index=range(n - 1, -1, -1), name='CDR3B')
    raise KeyError(kind)


def scaled_distance(num, den):
    """num/den * Levenshtein (den a power of two: exact in binary floating point); symmetric, d(x, x) = 0."""
    if den == 1:
        return lambda a, b: num * RL.distance(a, b)
    return lambda a, b: num * RL.distance(a, b) / den


def mode_k(d):
    m = d['mode']
    return m[2] if isinstance(m, (list, tuple)) and m[0] == 'custom' else d.get('k', 1)


def thunk(nn, d, output_type=None, holder=None):
    """The search call described by d (every option a case needs is carried by d, so a replay re-runs the same call).
    holder: a dict the containers are stored in / taken from (repeated calls on one object)."""
    seqs, seqs2 = d['seqs'], d.get('seqs2')
    ot = output_type or d['output_type']
    if holder is not None and 'cs' in holder:
        cs, cs2 = holder['cs'], holder.get('cs2')
    else:
        cs = container(d['container'], seqs, d.get('cseed', 0))
        cs2 = None if seqs2 is None else container(d.get('container2') or d['container'], seqs2, d.get('cseed', 0) + 1)
        if holder is not None:
            holder['cs'], holder['cs2'] = cs, cs2
    mode, k = d['mode'], mode_k(d)
    opts = dict(d.get('opts') or {})
    cd = None
    if mode == 'ham':
        cd = 'hamming'
    elif isinstance(mode, (list, tuple)) and mode[0] == 'custom':
        cd = customs.make(mode[1])
    elif isinstance(mode, (list, tuple)) and mode[0] == 'scaled':
        cd = scaled_distance(mode[1], mode[2])
    if opts.get('max_custom_distance') == 'inf':
        opts['max_custom_distance'] = float('inf')
    quiet = opts.get('progress')
    eng = d['engine']
    kw = dict(output_type=ot)
    if cd is not None:
        kw['custom_distance'] = cd
    kw.update(opts)
    if eng in ENGINES:
        fn = getattr(nn, eng)
        kw['max_edits'] = k
        if seqs2 is not None:
            kw['seqs2'] = cs2
        call = lambda: fn(cs, **kw)
    elif eng == 'SymdelDB.lookup':
        call = lambda: nn.SymdelDB(cs, k).lookup(cs2, **kw)
    elif eng == 'LookupDB.lookup':
        call = lambda: nn.LookupDB(cs).lookup(cs2, max_edits=k, **kw)
    else:
        raise KeyError(eng)
    if not quiet:
        return call

    def silent():                                            # the progress bar goes to stderr
        with contextlib.redirect_stderr(io.StringIO()):
            return call()
    return silent


def model_request(d):
    """Oracle request for the triplets of the call d: all pairs inside the radius (radii), by the model's exhaustive definition."""
    mode, k, seqs, seqs2 = d['mode'], mode_k(d), d['seqs'], d.get('seqs2')
    base = 'api_brute_self_' if seqs2 is None else 'api_brute_cross_'
    tail = [seqs] if seqs2 is None else [seqs, seqs2]
    if isinstance(mode, (list, tuple)) and mode[0] == 'custom':
        maxc = (d.get('opts') or {}).get('max_custom_distance')
        maxc = None if maxc in (None, 'inf') or maxc == float('inf') else Fraction(maxc)
        return (base + 'custom', [mode[1], k, maxc] + tail)
    return (base + ('ham' if mode == 'ham' else 'lev'), [k] + tail)


def model_triplets(d, raw):
    t = canon_model(raw)
    m = d['mode']
    if isinstance(m, (list, tuple)) and m[0] == 'scaled':     # d = num/den * lev, no custom radius: kept iff lev <= k
        t = [(a, b, c * Fraction(m[1], m[2])) for a, b, c in t]
    return t


def dense_request(d, trip):
    """Dense form by the model (entries are integers there: rational distances are scaled by their common denominator)."""
    scale = 1
    for _, _, c in trip:
        scale = scale * Fraction(c).denominator // math.gcd(scale, Fraction(c).denominator)
    nrows = len(d['seqs'])
    ncols = len(d['seqs2']) if d.get('seqs2') is not None else nrows
    return ('api_coo_dense', [nrows, ncols, [(int(a), int(b), int(Fraction(c) * scale)) for a, b, c in trip]]), scale


def judge(d, ot, g, trip, dm):
    """-> (ok, why).  trip: expected triplets (canonical), dm: expected dense matrix (nested lists of Fraction)."""
    if g[0] != 'ok':
        return False, 'raised %s' % g[1]
    seqs, seqs2 = d['seqs'], d.get('seqs2')
    try:
        if ot == 'triplets':
            return canon_triplets(g[1]) == trip, 'triplets differ from the expected ones'
        m = g[1].toarray() if ot == 'coo_matrix' else np.asarray(g[1])
        exp = np.array(dm, dtype=float).reshape(len(seqs), len(seqs2) if seqs2 is not None else len(seqs))
        ok = m.shape == exp.shape and np.array_equal(np.asarray(m, dtype=float), exp)
        why = 'matrix (shape %s) differs from the dense form of the triplets (shape %s)' % (m.shape, exp.shape)
        if not ok and m.shape == exp.shape:
            bad = np.argwhere(np.asarray(m, dtype=float) != exp)
            r, q = (int(x) for x in bad[0])
            why += ': entry [r=%d, q=%d] is %s, expected %s (%d entries differ)' % (r, q, m[r, q], exp[r, q], len(bad))
        if ok and ot == 'coo_matrix':
            # the sparse form ENCODES the triplets: its stored entries (row r, column q, value d) are the triplets (q, r, d) one by one - also
            # those with d = 0 (identical sequences), which no dense view can show (seeded change C10-r8m2: eliminate_zeros on the result)
            c = g[1].tocoo()
            stored = sorted((int(q_), int(r_), Fraction(float(v_)).limit_denominator(10 ** 6)) for r_, q_, v_ in zip(c.row, c.col, c.data))
            want = sorted((int(a), int(b), Fraction(x)) for a, b, x in trip)
            if stored != want:
                lost = [t for t in want if t not in stored][:4]
                extra = [t for t in stored if t not in want][:4]
                return False, 'the stored entries of the sparse matrix are not the triplets: %d stored, %d triplets; missing %s, extra %s' % (
                    len(stored), len(want), [tuple(map(str, t)) for t in lost], [tuple(map(str, t)) for t in extra])
        return ok, why
    except Exception as e:
        return False, 'result not interpretable: %r' % (e,)


def site_of(d):
    eng = d['engine']
    if d.get('family') not in (None, 'product'):
        return 'nn.%s[%s]' % (eng, d['family'])
    return 'nn.%s[%s]' % (eng, 'series-index' if d['container'] in ('series_shifted', 'series_permuted', 'series_string') else 'format')


def describe(d):
    return '%s(%s as %s%s, output_type=%s, mode=%s, max_edits=%d%s)' % (
        d['engine'], d['seqs'] if len(d['seqs']) <= 16 else d['seqs'][:16] + ['... %d sequences' % len(d['seqs'])], d['container'],
        '' if d.get('seqs2') is None else ', seqs2=%s as %s' % (d['seqs2'] if len(d['seqs2']) <= 16 else d['seqs2'][:16] + ['...'],
                                                                  d.get('container2') or d['container']),
        d['output_type'], d['mode'], mode_k(d), ''.join(', %s=%s' % kv for kv in sorted((d.get('opts') or {}).items())))


def run_plan(ctx, nn, plan, vm=False):
    """Evaluate the calls of `plan` (list of case descriptions).  Expected triplets: the model; expected matrices: the model's dense
    form of those triplets.  A case with d['model'] False has no unambiguous model (max_returns with ties, an option the property does
    not pin): its matrix forms are compared with the dense form (by the model) of the triplets the same call returns with
    output_type='triplets' - the agreement the property states."""
    with_model = [d for d in plan if d.get('model', True)]
    raws = ctx.oracle.run_parallel([model_request(d) for d in with_model])
    trips = {}
    for d, raw in zip(with_model, raws):
        if isinstance(raw, Exception):
            raise raw
        trips[id(d)] = model_triplets(d, raw)
    for d in plan:
        if not d.get('model', True):
            g = call_impl(thunk(nn, d, output_type='triplets'))
            try:
                trips[id(d)] = canon_triplets(g[1]) if g[0] == 'ok' else None
            except Exception:
                trips[id(d)] = None
    dreqs, scales = [], []
    for d in plan:
        rq, sc = dense_request(d, trips[id(d)] or [])
        dreqs.append(rq)
        scales.append(sc)
    dense = [[[Fraction(x, sc) for x in row] for row in m] for m, sc in zip(ctx.oracle.run_parallel(dreqs), scales)]
    for d, dm in zip(plan, dense):
        t = trips[id(d)]
        ot = d['output_type']
        fam = d.get('family', 'product')
        if t is None:
            ok, why = False, 'the call with output_type=triplets raised or returned no triplet list'
        else:
            for extra in d.get('before') or []:                # earlier calls in the same process (module-level state, same objects)
                call_impl(thunk(nn, extra))
            ok, why = judge(d, ot, call_impl(thunk(nn, d)), t, dm)
        nt = bool(t) and (d['container'] != 'list' or ot != 'triplets' or fam != 'product')
        ctx.count('container=' + d['container'])
        if d.get('container2'):
            ctx.count('container2=' + d['container2'])
        ctx.count('output=' + ot)
        ctx.count('engine=' + d['engine'])
        if fam != 'product':
            ctx.count('family=' + fam)
        for o in sorted(d.get('opts') or {}):
            ctx.count('option=' + o)
        if isinstance(d['mode'], (list, tuple)) and d['mode'][0] == 'custom':
            ctx.count('custom_distance_matrix' if ot != 'triplets' else 'custom_distance_triplets')
        small = dict(d, seqs=d['seqs'][:12], seqs2=None if d.get('seqs2') is None else d['seqs2'][:12]) if len(d['seqs']) > 12 else d
        ctx.case(sample=small if nt and fam == 'product' and len(ctx.samples) < 6 else None,
                 nontrivial_key=(d['engine'], d['container'], d.get('container2'), ot, str(d['mode']), mode_k(d), tuple(d['seqs']),
                                 tuple(d.get('seqs2') or ()), str(sorted((d.get('opts') or {}).items())), fam) if nt else None)
        if not ok:
            ctx.violation('property', '%s: %s' % (describe(d), why), d, site=site_of(d))
        if len(ctx.violations) > 8:
            break
    if vm and plan:
        ctx.add_vm(*dreqs[0], [[int(x * scales[0]) for x in row] for row in dense[0]])


# ------------------------------------------------------------------ generators of the added case families
ALPHABETS = {'lower': 'acdefg', 'digits': '0123', 'greek': 'ΑΒΓΔ', 'cjk': '汉字表', 'astral': '\U0001F600\U0001F601\U00010348',
             'space': ' -_.', 'mixedcase': 'aAcC', 'aa': gens.AA}


def family(rng, alphabet, n, maxlen=8, minlen=1, maxmut=2):
    """n strings in small clonal families (neighbours at distance 0..maxmut guaranteed to occur)."""
    out = []
    while len(out) < n:
        root = ''.join(rng.choice(alphabet) for _ in range(rng.randint(max(minlen, 1), maxlen)))
        for _ in range(rng.randint(1, 4)):
            s = gens.mutate(rng, root, alphabet, rng.randint(0, maxmut))
            if minlen <= len(s) <= maxlen + 2:
                out.append(s)
    out = out[:n]
    rng.shuffle(out)
    return out


def star(rng, leaves):
    """A centre and `leaves` one-substitution variants at distinct positions (leaves are two substitutions apart)."""
    L = rng.randint(max(leaves, 5), max(leaves, 5) + 4)
    root = ''.join(rng.choice(gens.AA) for _ in range(L))
    out = [root]
    for pos in rng.sample(range(L), leaves):
        out.append(root[:pos] + rng.choice([c for c in gens.AA if c != root[pos]]) + root[pos + 1:])
    return out


def queries_for(rng, seqs, alphabet, nq):
    qs = [rng.choice(seqs) if rng.random() < 0.4 else (gens.mutate(rng, rng.choice(seqs), alphabet, 1) or rng.choice(alphabet)) for _ in range(nq)]
    return qs


def pick_mode(rng, eng, allow_custom=True):
    x = rng.random()
    if x < 0.45 or (not allow_custom and x >= 0.75):
        return 'lev'
    if x < 0.75:
        return 'ham'
    return ['custom', rng.choice([1, 2, 4]), 1 if eng in ('hash_based', 'LookupDB.lookup') else rng.choice([1, 2])]


def gen_cases(ctx):
    """The added case families (see NOTES.md of the coverage audit): each is a list of case descriptions for run_plan."""
    rng = ctx.rng
    q = ctx.quick
    plan = []

    def add(fam, eng, seqs, cont='list', ot='ndarray', mode='lev', k=1, seqs2=None, cont2=None, opts=None, model=True, before=None):
        if eng in DB_ENGINES and seqs2 is None:
            seqs2 = list(seqs)
        d = dict(family=fam, engine=eng, container=cont, container2=cont2, cseed=rng.randrange(10 ** 6), output_type=ot, mode=mode, k=k,
                 seqs=list(seqs), seqs2=None if seqs2 is None else list(seqs2), opts=opts or {}, model=model)
        if before:
            d['before'] = before
        plan.append(d)
        return d

    def aa_seqs(n, ham=False, maxlen=11):
        s = c07.ham_repertoire(rng, n) if ham else repertoire(rng, n, extras=False, minlen=1)
        return [x for x in s if 1 <= len(x) <= maxlen] or ['CAF', 'CAW']

    # -- radius: max_edits 2 and 3 in both distance modes, and a radius above every string length (every pair a neighbour)
    for _ in range(24 if q else 80):
        eng = rng.choice(ENGINES + DB_ENGINES)
        ham = rng.random() < 0.4
        k = rng.choice([2, 3])
        if eng in ('hash_based', 'LookupDB.lookup'):
            k, seqs = 2, family(rng, gens.AA, rng.randint(2, 6), maxlen=4)          # the edit ball grows as (40 L)^k
        else:
            seqs = aa_seqs(rng.randint(2, 10), ham)
        s2 = queries_for(rng, seqs, gens.AA, rng.randint(1, 5)) if eng in DB_ENGINES or (eng in ('symdel', 'nearest_neighbor') and rng.random() < 0.4) else None
        add('radius', eng, seqs, rng.choice(CONTS), rng.choice(OUTS), 'ham' if ham else 'lev', k, s2)
    for _ in range(8 if q else 30):
        eng = rng.choice(['symdel', 'nearest_neighbor', 'kdtree', 'SymdelDB.lookup'])
        seqs = family(rng, 'AC', rng.randint(2, 7), maxlen=3)
        add('radius_all_pairs', eng, seqs, rng.choice(CONTS), rng.choice(['coo_matrix', 'ndarray']), 'lev', rng.choice([4, 5, 6]),
            queries_for(rng, seqs, 'AC', rng.randint(1, 4)) if eng == 'SymdelDB.lookup' else None)

    # -- sizes: one sequence, one query, two equal sequences, all sequences equal, more queries than references and the reverse
    for eng in ENGINES + DB_ENGINES:
        for ot in OUTS if not q else [rng.choice(OUTS), 'ndarray']:
            one = [rng.choice(['CAF', 'A', 'CASSLGQETQYF'])]
            add('size_one', eng, one, rng.choice(CONTS + CONTS_MORE), ot, rng.choice(['lev', 'ham']))
            add('size_equal_seqs', eng, one * rng.choice([2, 5]), rng.choice(CONTS + CONTS_MORE), ot, rng.choice(['lev', 'ham']))
        if eng in ('symdel', 'nearest_neighbor') or eng in DB_ENGINES:
            seqs = aa_seqs(rng.randint(3, 8))
            add('size_one_query', eng, seqs, rng.choice(CONTS), rng.choice(OUTS), 'lev', 1, [rng.choice(seqs)], rng.choice(CONTS))
            add('size_one_reference', eng, [rng.choice(seqs)], rng.choice(CONTS), rng.choice(OUTS), 'lev', 1, seqs, rng.choice(CONTS))
            add('size_wide', eng, seqs[:2], rng.choice(CONTS), rng.choice(['coo_matrix', 'ndarray']), 'lev', 1,
                queries_for(rng, seqs[:2], gens.AA, rng.randint(9, 20)), rng.choice(CONTS))

    # -- further containers, and two collections in containers of different kinds
    kinds = list(CONTS_MORE)
    rng.shuffle(kinds)
    for i, cont in enumerate(kinds * (4 if q else 8)):
        for eng in (ENGINES + DB_ENGINES if not q else [ENGINES[i % 4], rng.choice(ENGINES + DB_ENGINES)]):
            mode = pick_mode(rng, eng)
            seqs = aa_seqs(rng.randint(2, 12), mode == 'ham')
            two = eng in DB_ENGINES or (eng in ('symdel', 'nearest_neighbor') and rng.random() < 0.4)
            s2 = queries_for(rng, seqs, gens.AA, rng.randint(1, 6)) if two else None
            add('container', eng, seqs, cont, rng.choice(OUTS), mode, 1, s2, rng.choice(CONTS + CONTS_MORE) if two else None)
    for _ in range(32 if q else 120):
        eng = rng.choice(['symdel', 'nearest_neighbor'] + DB_ENGINES)
        mode = pick_mode(rng, eng)
        seqs = aa_seqs(rng.randint(2, 10), mode == 'ham')
        c1, c2 = rng.sample(CONTS + CONTS_MORE, 2)
        add('container_mixed', eng, seqs, c1, rng.choice(OUTS), mode, 1, queries_for(rng, seqs, gens.AA, rng.randint(1, 7)), c2)

    # -- database objects: every output type and container (one object queried repeatedly: database_history_cases)
    for _ in range(40 if q else 150):
        eng = rng.choice(DB_ENGINES)
        mode = pick_mode(rng, eng)
        seqs = aa_seqs(rng.randint(2, 12), mode == 'ham')
        add('database', eng, seqs, rng.choice(CONTS), rng.choice(OUTS), mode, 1, queries_for(rng, seqs, gens.AA, rng.randint(1, 8)), rng.choice(CONTS))

    # -- options next to the output type (one or two non-default options at a time)
    eligible = {'n_cpu': ['kdtree', 'kdtree'] + ENGINES, 'max_returns': ['kdtree', 'kdtree'] + ENGINES, 'compression': ['kdtree'],
                'progress': ['symdel', 'hash_based'] + DB_ENGINES, 'maxc': ENGINES + DB_ENGINES, 'maxc_ignored': ENGINES + DB_ENGINES,
                'two': ['kdtree', 'kdtree'] + ENGINES}
    eligible['max_returns'] = eligible['two'] = ['kdtree'] * 8 + ENGINES
    for choice in sorted(eligible) * (6 if q else 30):
        eng = rng.choice(eligible[choice])
        mode = pick_mode(rng, eng, allow_custom=choice != 'maxc_ignored')
        seqs = aa_seqs(rng.randint(3, 12), mode == 'ham')
        opts, model = {}, True
        if choice in ('n_cpu', 'two'):
            opts['n_cpu'] = rng.choice([2, 3])                      # kdtree: worker processes; elsewhere ignored
        if choice in ('max_returns', 'two'):
            # kdtree: top-m per query; elsewhere documented as ignored: not pinned here.  A star (centre + leaves at pairwise distance 2)
            # makes the cut bite: the centre keeps m of its leaves, every leaf keeps the centre - the triplets are not symmetric
            opts['max_returns'] = rng.choice([1, 1, 2, 3])
            model = False
            if mode not in ('lev', 'ham'):
                mode = 'lev'
            seqs = star(rng, opts['max_returns'] + rng.randint(1, 3)) + aa_seqs(rng.randint(1, 4), mode == 'ham')
            rng.shuffle(seqs)
        if choice == 'compression' or (choice == 'two' and eng == 'kdtree'):
            opts['compression'] = rng.choice([2, 3, 20])
        if choice == 'progress':
            opts['progress'] = True
        if choice == 'maxc':
            mode = ['custom', rng.choice([1, 2, 4]), 1 if eng in ('hash_based', 'LookupDB.lookup') else rng.choice([1, 2])]
            opts['max_custom_distance'] = rng.choice([0, 1, 1.5, 2, 3, 4.0, 6])
        if choice == 'maxc_ignored':
            opts['max_custom_distance'] = rng.choice([0, 0.5, 3])    # documented as ignored without a custom distance: not pinned here
            model = False
        two = eng in DB_ENGINES or (eng in ('symdel', 'nearest_neighbor') and rng.random() < 0.3)
        add('option_' + choice, eng, seqs, rng.choice(CONTS), rng.choice(['coo_matrix', 'ndarray']), mode, mode[2] if isinstance(mode, list) else 1,
            queries_for(rng, seqs, gens.AA, rng.randint(1, 6)) if two else None, None, opts, model)

    # -- hash_based beyond max_edits = 2 (Hamming mode on three-letter strings keeps the ball small) in both matrix forms (seeded change C10-r9m1: calls with
    # max_edits > 2 handed to another engine without the output type)
    for ot in ('ndarray', 'coo_matrix', 'triplets'):
        add('hash_based_max_edits_3', 'hash_based', ['CAS', 'CDT', 'ACS', 'CAS', 'WWW'], 'list', ot, 'ham', 3)     # Hamming mode: substitutions only
    # -- more than 2**16 triplets in one result (two expanded clones): the matrix forms still hold every one of them (seeded change C10-r9m3:
    # triplets turned into matrix columns block by block, the last partial block dropped)
    big = ['CASSLGF'] * 190 + ['CATTWGF'] * 190
    import pyrepseq.nn as nn
    for eng in ('symdel', 'kdtree'):
        # (compared directly: the dense model is quadratic in the matrix size times the number of triplets)
        fn = getattr(nn, eng)
        tr = call_impl(lambda: fn(list(big), max_edits=1, output_type='triplets'))
        co = call_impl(lambda: fn(list(big), max_edits=1, output_type='coo_matrix'))
        de = call_impl(lambda: fn(list(big), max_edits=1, output_type='ndarray'))
        ctx.count('more than 2**16 triplets in one result')
        ctx.case(nontrivial_key=('big-result', eng))
        why = None
        if tr[0] != 'ok' or co[0] != 'ok' or de[0] != 'ok':
            why = 'outcomes %s / %s / %s' % (tr[0], co[0], de[0])
        else:
            want = sorted((int(a), int(b), int(d_)) for a, b, d_ in tr[1])
            exp_n = 2 * 190 * 189
            c_ = co[1].tocoo()
            stored = sorted((int(q_), int(r_), int(v_)) for r_, q_, v_ in zip(c_.row, c_.col, c_.data))
            dense = np.zeros((380, 380))
            for a, b, d_ in want:
                dense[b, a] += d_
            if len(want) != exp_n:
                why = '%d triplets, expected %d (two clones of 190 identical sequences)' % (len(want), exp_n)
            elif stored != want:
                why = 'the sparse matrix stores %d entries, the triplet form of the same search has %d' % (len(stored), len(want))
            elif np.asarray(de[1]).shape != (380, 380) or not np.array_equal(np.asarray(de[1], dtype=float), dense):
                why = 'the dense matrix differs from the dense form of the triplets'
        if why:
            ctx.violation('property', '%s(two clones of 190 identical sequences each, max_edits=1): %s' % (eng, why),
                          dict(family='more_than_65536_triplets', engine=eng), site='nn.%s[more than 65536 triplets]' % eng)
    # -- max_returns together with a second collection and a matrix output, on the engines that take a second collection: the matrix has the shape
    # (len(seqs), len(seqs2)) and encodes the triplets of the same call, whatever the engine makes of max_returns (seeded change C10-r8m3)
    for eng in ('nearest_neighbor', 'symdel'):
        for m_ in (1, 2):
            for ot in ('coo_matrix', 'ndarray'):
                seqs = star(rng, m_ + 2) + aa_seqs(rng.randint(1, 3))
                rng.shuffle(seqs)
                nq = len(seqs) + rng.choice([-2, 3])
                add('option_max_returns_two_collections', eng, seqs, rng.choice(CONTS), ot, 'lev', 1, queries_for(rng, seqs, gens.AA, max(1, nq)), None,
                    dict(max_returns=m_), False)

    # -- distance values across integer widths and fractions: d = num/den * lev must be carried unchanged
    for num, den in [(100, 1), (255, 1), (256, 1), (65536, 1), (2 ** 24 + 1, 1), (2 ** 31, 1), (2 ** 33, 1), (2 ** 53 - 1, 1), (1, 4), (3, 8), (10 ** 6 + 1, 2)] * (1 if q else 4):
        eng = rng.choice(ENGINES + ['SymdelDB.lookup'])
        k = rng.choice([1, 2]) if eng != 'hash_based' else 1
        seqs = star(rng, rng.randint(1, 3)) + aa_seqs(rng.randint(1, 7))          # distances 1 and 2 occur
        rng.shuffle(seqs)
        s2 = queries_for(rng, seqs, gens.AA, 4) if eng == 'SymdelDB.lookup' else None
        for ot in (['coo_matrix', 'ndarray'] if rng.random() < 0.7 else OUTS):
            add('distance_values', eng, seqs, rng.choice(CONTS), ot, ['scaled', num, den], k, s2)

    # -- alphabets other than amino acids (engines taking arbitrary strings), empty strings among the sequences
    for name in sorted(ALPHABETS):
        if name == 'aa':
            continue
        al = ALPHABETS[name]
        for _ in range(2 if q else 6):
            eng = rng.choice(ANY_ALPHABET)
            seqs = family(rng, al, rng.randint(2, 9), maxlen=6)
            two = eng == 'SymdelDB.lookup' or rng.random() < 0.4
            # default (Levenshtein) mode: C01 / C03 quantify over any alphabet, the Hamming statement (C07) over amino-acid strings
            add('alphabet_' + name, eng, seqs, rng.choice(CONTS + ['ndarray_object', 'series_self', 'series_stringdtype']), rng.choice(OUTS),
                'lev', rng.choice([1, 2]), queries_for(rng, seqs, al, rng.randint(1, 5)) if two else None)
    for eng in ENGINES + DB_ENGINES:
        seqs = family(rng, 'AC', rng.randint(2, 6), maxlen=3) + ['', rng.choice('AC')] + ([''] if rng.random() < 0.5 else [])
        rng.shuffle(seqs)
        add('empty_string', eng, seqs, rng.choice(CONTS + ['ndarray_object']), rng.choice(OUTS), 'lev', 1,
            ['', 'A', 'CA'] if eng in DB_ENGINES else None)

    # -- long sequences (beyond 127 / 255 residues)
    for _ in range(3 if q else 8):
        L = rng.choice([128, 130, 256, 300])
        root = ''.join(rng.choice(gens.AA) for _ in range(L))
        seqs = [root] + [gens.mutate(rng, root, gens.AA, rng.randint(0, 2)) for _ in range(rng.randint(1, 3))]
        eng = rng.choice(['symdel', 'nearest_neighbor', 'kdtree', 'SymdelDB.lookup'])
        add('long_sequences', eng, seqs, rng.choice(['list', 'ndarray', 'series_permuted']), rng.choice(OUTS), 'lev', 2,
            seqs[::-1] if eng == 'SymdelDB.lookup' else None)

    # -- repeated calls: an earlier call with other sequences / another output type in the same process (module-level state)
    for _ in range(12 if q else 40):
        eng = rng.choice(ENGINES)
        mode = pick_mode(rng, eng)
        seqs = aa_seqs(rng.randint(2, 10), mode == 'ham')
        other = dict(family='repeat', engine=rng.choice(ENGINES), container=rng.choice(CONTS), cseed=1, output_type=rng.choice(OUTS),
                     mode=rng.choice(['lev', 'ham']), k=rng.choice([1, 2]), seqs=aa_seqs(rng.randint(2, 12)), seqs2=None,
                     opts=dict(n_cpu=2) if rng.random() < 0.3 else {})
        if other['engine'] == 'hash_based':
            other['k'] = 1
        add('repeat_after_other_call', eng, seqs, rng.choice(CONTS), rng.choice(OUTS), mode, mode[2] if isinstance(mode, list) else 1, before=[other])
    return plan


def large_cases(ctx):
    """Collections crossing 127/128 and 255/256 positions (index widths of the sparse form), one expected result shared by the calls."""
    rng = ctx.rng
    plan = []
    n = rng.choice([258, 270, 300])
    seqs = [s for s in repertoire(rng, n + 40, extras=False, minlen=2) if 2 <= len(s) <= 12][:n]
    combos = [('symdel', 'ndarray'), ('kdtree', 'coo_matrix'), ('hash_based', 'ndarray'), ('nearest_neighbor', 'coo_matrix'), ('kdtree', 'triplets')]
    for eng, ot in (combos if not ctx.quick else rng.sample(combos[:4], 3)):
        plan.append(dict(family='large_square', engine=eng, container=rng.choice(['list', 'ndarray', 'series_permuted', 'series_shifted']),
                         container2=None, cseed=rng.randrange(10 ** 6), output_type=ot, mode='lev', k=1, seqs=seqs, seqs2=None, opts={}, model=True))
    nr, nq = rng.choice([(130, 262), (262, 130), (129, 257)])
    refs = seqs[:nr]
    qs = [rng.choice(refs) if rng.random() < 0.3 else (gens.mutate(rng, rng.choice(refs), gens.AA, 1) or 'A') for _ in range(nq)]
    for eng, ot in [('symdel', 'ndarray'), ('SymdelDB.lookup', 'coo_matrix'), ('LookupDB.lookup', 'ndarray')][:2 if ctx.quick else 3]:
        plan.append(dict(family='large_rectangular', engine=eng, container=rng.choice(['list', 'series_string']),
                         container2=rng.choice(['ndarray', 'series_permuted']), cseed=rng.randrange(10 ** 6), output_type=ot, mode='lev', k=1,
                         seqs=refs, seqs2=qs, opts={}, model=True))
    return plan


def run_same_object(ctx, nn, script):
    """script: dict(container, cseed, contents=[first content, content after the refill in place ...], calls=[[(engine, output_type) ...] per
    content]).  Returns False after reporting a violation (the replay carries the whole script)."""
    cont, cseed, contents = script['container'], script['cseed'], script['contents']
    exp = ctx.oracle.run([('api_brute_self_lev', [1, c]) for c in contents])
    holder = {}
    for step, content in enumerate(contents):
        t = canon_model(exp[step])
        base = dict(family='same_object', engine='symdel', container=cont, container2=None, cseed=cseed, output_type='triplets', mode='lev', k=1,
                    seqs=list(content), seqs2=None, opts={}, model=True)
        rq, sc = dense_request(base, t)
        dm = [[Fraction(x, sc) for x in row] for row in ctx.oracle.run([rq])[0]]
        if step > 0:                                            # refill the caller's object in place
            holder['cs'][:] = content
        for n, (eng, ot) in enumerate(script['calls'][step]):
            d = dict(base, engine=eng, output_type=ot)
            ok, why = judge(d, ot, call_impl(thunk(nn, d, holder=holder)), t, dm)
            ctx.count('family=same_object' + ('_refilled' if step else ''))
            ctx.count('container=' + cont)
            ctx.count('output=' + ot)
            ctx.case(nontrivial_key=('same_object', eng, cont, ot, step, tuple(content)) if t else None)
            if not ok:
                ctx.violation('property', '%s, call %d on one %s object%s (earlier calls on it: %s): %s' %
                              (describe(d), n + 1, cont, ' refilled in place, before: %s' % contents[step - 1] if step else '',
                               [list(c) for c in script['calls'][step][:n]], why),
                              dict(family='same_object', script=script, failing_step=step, failing_call=[eng, ot]), site='nn.%s[same_object]' % eng)
                return False
    return True


def same_object_cases(ctx, nn):
    """One container object handed to several calls in a row (every engine, every output type), and an array / list refilled in
    place between two calls: each answer must be the one for the content at the time of the call."""
    rng = ctx.rng
    for rnd in range(6 if ctx.quick else 30):
        cont = rng.choice(['ndarray', 'ndarray_object', 'list', 'series_permuted', 'series_default', 'tuple'])
        n = rng.randint(3, 9)
        first = [s for s in repertoire(rng, n + 4, extras=False, minlen=2) if 2 <= len(s) <= 12][:n] or ['CAF', 'CAW', 'CAFF']
        second = [gens.mutate(rng, s, gens.AA, rng.choice([0, 1, 1])) or 'A' for s in first]
        rng.shuffle(second)
        width = max(len(s) for s in first)                      # a '<U' array keeps its item size when refilled
        second = [s[:width] for s in second]
        contents = [first, second] if cont in ('ndarray', 'ndarray_object', 'list') else [first]
        calls = []
        for _ in contents:
            c = [[e, o] for e in ENGINES for o in OUTS]
            rng.shuffle(c)
            calls.append(c[:6 if ctx.quick else 12])
        if not run_same_object(ctx, nn, dict(container=cont, cseed=rng.randrange(10 ** 6), contents=contents, calls=calls)):
            return


def run_database_history(ctx, nn, script):
    """script: dict(cls, ham, refs, container, cseed, steps=[[queries, container of the queries, output_type] ...])."""
    cls, ham, refs, cont, cseed, steps = (script[x] for x in ('cls', 'ham', 'refs', 'container', 'cseed', 'steps'))
    cs = container(cont, refs, cseed)
    built = call_impl(lambda: nn.SymdelDB(cs, 1) if cls == 'SymdelDB' else nn.LookupDB(cs))
    exp = ctx.oracle.run([('api_brute_cross_' + ('ham' if ham else 'lev'), [1, refs, qs]) for qs, _, _ in steps])
    for n, ((qs, cont2, ot), raw) in enumerate(zip(steps, exp)):
        d = dict(family='database_history', engine=cls + '.lookup', container=cont, container2=cont2, cseed=cseed, output_type=ot,
                 mode='ham' if ham else 'lev', k=1, seqs=refs, seqs2=qs, opts={}, model=True)
        t = canon_model(raw)
        rq, sc = dense_request(d, t)
        dm = [[Fraction(x, sc) for x in row] for row in ctx.oracle.run([rq])[0]]
        if built[0] != 'ok':
            ok, why = False, 'building the database raised %s' % built[1]
        else:
            cs2 = container(cont2, qs, cseed + 1 + n)
            kw = dict(output_type=ot)
            if ham:
                kw['custom_distance'] = 'hamming'
            if cls == 'LookupDB':
                kw['max_edits'] = 1
            ok, why = judge(d, ot, call_impl(lambda: built[1].lookup(cs2, **kw)), t, dm)
        ctx.count('family=database_history')
        ctx.count('output=' + ot)
        ctx.count('container=' + cont)
        ctx.count('container2=' + cont2)
        ctx.case(nontrivial_key=('database_history', cls, cont, cont2, ot, n, tuple(refs), tuple(qs)) if t else None)
        if not ok:
            ctx.violation('property', '%s, lookup %d on one %s object (earlier lookups: %s): %s' %
                          (describe(d), n + 1, cls, [(a, c) for a, _, c in steps[:n]], why),
                          dict(family='database_history', script=script, failing_lookup=n), site='nn.%s.lookup[database_history]' % cls)
            return False
    return True


def database_history_cases(ctx, nn):
    """One SymdelDB / LookupDB object built once and queried several times with changing query collections, containers and output
    types: every answer is the one of a fresh search (the matrix forms of a later lookup carry nothing of an earlier one)."""
    rng = ctx.rng
    for rnd in range(6 if ctx.quick else 40):
        ham = rng.random() < 0.3
        refs = c07.ham_repertoire(rng, rng.randint(2, 10)) if ham else repertoire(rng, rng.randint(2, 10), extras=False, minlen=1)
        refs = [x for x in refs if 1 <= len(x) <= 11] or ['CAF', 'CAW']
        steps = [[queries_for(rng, refs, gens.AA, rng.randint(1, 7)), rng.choice(CONTS + CONTS_MORE), rng.choice(OUTS)] for _ in range(rng.randint(3, 6))]
        if not run_database_history(ctx, nn, dict(cls=rng.choice(['SymdelDB', 'LookupDB']), ham=ham, refs=refs, container=rng.choice(CONTS + CONTS_MORE),
                                                  cseed=rng.randrange(10 ** 6), steps=steps)):
            return


# ------------------------------------------------------------------ invalid arguments
NS = dict(np=np, pd=pd, float=float, Fraction=Fraction)
LONG_OK = ['CASSLGQETQYF', 'CASSLGQETQFF'] * 100


def _long(bad, where):
    s = list(LONG_OK)
    s[dict(first=0, middle=len(s) // 2, last=len(s) - 1)[where]] = bad
    return s


def value_of(expr):
    """Invalid values are written as source text (kept in replays); only text from the tables below is ever evaluated."""
    if expr not in KNOWN_EXPRS:
        raise KeyError('not a value of the invalid-argument tables: %r' % (expr,))
    return eval(expr, dict(NS, _long=_long))


BAD = {
    'seqs': ['[]', '()', 'np.array([])', '[1, 2]', "['CAF', None]", "['CAF', 3.5]", '7', 'None', "[b'CAF']"],
    'max_edits': ['0', '-1', '1.0', '1.5', "'1'", 'None', 'True'],
    'max_returns': ['0', '-2', '1.5', "'3'"],
    'n_cpu': ['0', '-1', '1.0', "'2'", 'None'],
    # unknown names, near misses of the three valid ones included (another capitalisation, padding, a prefix, the class name)
    'output_type': ["'dense'", "'matrix'", 'None', '3', "'Triplets'", "'TRIPLETS'", "'COO_matrix'", "'coo_Matrix'", "'NDARRAY'", "'ndArray'",
                    "' triplets'", "'ndarray '", "'coo'", "'triplet'", "'csr_matrix'", "''", "b'ndarray'", 'True'],
    'max_custom_distance': ['-1', "'3'", 'None'],
    'custom_distance': ["'levenshtein'", '(lambda a, b: 1)', '5'],
}
# the classes the statement names, in more shapes
BAD_MORE = {
    # empty input in every container; non-string elements (first / middle / last, short and long collections, every container)
    'seqs': ["np.array([], dtype=str)", "np.array([], dtype=object)", "pd.Series([], dtype=object)", "pd.Series([], dtype=str)",
             "pd.Series([], dtype=float)", "pd.Series([], index=pd.Index([], dtype=str), dtype=object)", "''", '{}', 'set()', 'frozenset()', 'range(0)',
             "np.empty((0, 3), dtype=str)", 'iter([])',
             "[None]", "[None, 'CAF']", "['CAF', None, 'CAW']", "['CAF', 'CAW', 3]", "[3, 'CAF']", "[float('nan'), 'CAF']", "['CAF', float('nan')]",
             "['CAF', True]", "['CAF', ('C', 'A')]", "['CAF', ['CAW']]", "['CAF', b'CAW']", "['CAF', np.bytes_(b'CAW')]", "['CAF', np.int64(3)]",
             "['CAF', np.float64(3.5)]", "['CAF', np.array('CAW')]", "('CAF', None)", "(1, 2)", "(None,)",
             "np.array([1, 2])", "np.array([1.5, 2.5])", "np.array([b'CAF', b'CAW'])", "np.array(['CAF', None], dtype=object)",
             "np.array([None, 'CAF'], dtype=object)", "np.array(['CAF', 3], dtype=object)", "np.array([['CAF', 'CAW'], ['CAF', 'CAW']])",
             "np.array([True, False])",
             "pd.Series([1, 2])", "pd.Series([1.5, 2.5], index=['a', 'b'])", "pd.Series(['CAF', None])", "pd.Series(['CAF', None], dtype=object)",
             "pd.Series(['CAF', 3], index=[5, 6])", "pd.Series([None, 'CAF'], index=[1, 0], dtype=object)", "pd.Series(['CAF', float('nan')])",
             "pd.Series(['CAF', pd.NA], dtype='string')", "pd.Series([b'CAF', b'CAW'])", "pd.Series([('C', 'A'), ('C', 'W')])",
             "range(3)", "[[]]", "[{}]", "{'CAF': 1, 3: 2}", "{3, 'CAF'}",
             "_long(None, 'first')", "_long(None, 'middle')", "_long(None, 'last')", "_long(3, 'last')", "_long(b'CAF', 'middle')",
             "tuple(_long(3.5, 'last'))", "np.array(_long(None, 'last'), dtype=object)", "np.array(_long(7, 'middle'), dtype=object)",
             "pd.Series(_long(None, 'last'), dtype=object)", "pd.Series(_long(3, 'middle'), index=range(7, 207))",
             "pd.Series(_long(None, 'last'))"],
    'max_edits': ['-3', '-2**31', '-10**30', 'False', '0.0', '-0.0', '0.5', '0.999', '2.5', 'np.float64(0.5)', "float('nan')", "float('inf')",
                  "-float('inf')", '[1]', '(1,)', '{1}', "'2'", "'one'", "b'1'", '1j', 'np.int64(0)', 'np.int64(-1)', 'np.int32(0)', 'np.array(0)',
                  'np.array([1])', 'Fraction(1, 2)', 'Fraction(-1)', 'np.bool_(False)'],
    'n_cpu': ['-3', '-8', '-2**31', 'False', 'np.int64(0)', 'np.int64(-2)', '-1.0', '0.0', '0.5', "float('-inf')",
              'Fraction(1, 2)', 'np.bool_(False)'],
    'output_type': ["'array'", "'numpy'", "'sparse'", "'list'", "'triplets\\n'", "'coo_matrix,ndarray'", "'ndarray\\x00'", "'coo-matrix'", "'coo matrix'",
                    "'nd_array'", "'np.ndarray'", "'tripletS'", "'Ndarray'", "['triplets']", "('ndarray',)", "{'coo_matrix'}", "np.str_('dense')", '0', '1.0',
                    "b'triplets'", "b'coo_matrix'", 'False', 'np.ndarray', 'list', "float('nan')"],
    'seqs2': ['[1, 2]', "['CAF', None]", '5', "[None]", "['CAF', 3.5]", "[b'CAF']", "['CAF', ('C',)]", "[['CAF']]", "('CAF', 3)", '0', 'True', '1.5',
              "np.array([1, 2])", "np.array(['CAF', None], dtype=object)", "np.array([b'CAF'])", "pd.Series([1, 2])", "pd.Series(['CAF', None], dtype=object)",
              "pd.Series(['CAF', 3], index=[4, 2])", "pd.Series(['CAF', float('nan')])", "_long(None, 'last')", "_long(3, 'middle')",
              "np.array(_long(None, 'first'), dtype=object)", "pd.Series(_long(2.5, 'last'), dtype=object)", "[float('nan')]", "{3}", "range(2)"],
}
# one or two representatives per class of the statement, to be combined with every other (valid, non-default) option
REPRESENTATIVES = [('seqs', '[]'), ('seqs', "['CAF', None]"), ('seqs', "[3, 'CAF']"), ('seqs', "np.array(['CAF', 3], dtype=object)"),
                   ('seqs', "pd.Series([], dtype=object)"), ('seqs', "_long(None, 'last')"),
                   ('max_edits', '0'), ('max_edits', '-1'), ('max_edits', '1.5'), ('max_edits', '-2'),
                   ('n_cpu', '0'), ('n_cpu', '-1'), ('output_type', "'dense'"), ('output_type', "'Ndarray'"), ('output_type', 'None')]
CONTEXTS = [dict(output_type='coo_matrix'), dict(output_type='ndarray'), dict(seqs2=['CAF', 'CAY']), dict(custom_distance='lev3'),
            dict(custom_distance='hamming', output_type='ndarray'), dict(max_edits=2), dict(max_edits=3, custom_distance='hamming'), dict(max_returns=2),
            dict(n_cpu=2), dict(n_cpu=2, output_type='coo_matrix'), dict(max_custom_distance=1.0), dict(compression=2), dict(progress=True),
            dict(seqs='series_shifted'), dict(seqs='ndarray'), dict(seqs='tuple'), dict(seqs='series_string', seqs2=['CAF']),
            dict(seqs2=['CAF'], output_type='coo_matrix'), dict(seqs2=['CAF'], custom_distance='hamming', output_type='ndarray')]
KNOWN_EXPRS = set(e for tab in (BAD, BAD_MORE) for vals in tab.values() for e in vals) | set(e for _, e in REPRESENTATIVES)
ENGINE_PARAMS = {'symdel': {'seqs2', 'progress'}, 'nearest_neighbor': {'seqs2'}, 'hash_based': {'progress'}, 'kdtree': {'compression'}}
GOOD = dict(seqs=['CAF', 'CAW'], max_edits=1, max_returns=None, n_cpu=1, custom_distance=None, max_custom_distance=float('inf'), output_type='triplets')


def invalid_call(nn, r):
    """r: dict(engine, bad={argument: source text of the value}, context={option: valid value}) -> outcome of the call."""
    kw = dict(GOOD)
    for o, v in (r.get('context') or {}).items():
        if o == 'custom_distance' and v == 'lev3':
            v = customs.make(1)
        if o == 'seqs':
            v = container(v, GOOD['seqs'], 3)
        kw[o] = v
    for arg, expr in r['bad'].items():
        kw[arg] = value_of(expr)
    seqs = kw.pop('seqs')
    fn = getattr(nn, r['engine'])
    pos = []
    if r.get('spelling') == 'positional':
        # the documented leading parameters by POSITION, the rest by keyword: an argument is validated however it is spelled (seeded change
        # C10-r7m2: validation moved into a wrapper that looks at keyword arguments only)
        for name in ('max_edits', 'max_returns', 'n_cpu', 'custom_distance', 'max_custom_distance', 'output_type'):
            pos.append(kw.pop(name))

    def call():
        with contextlib.redirect_stderr(io.StringIO()):
            return fn(seqs, *pos, **kw)
    return call_impl(call)


def check_invalid(ctx, nn, r, family):
    g = invalid_call(nn, r)
    ctx.case(nontrivial_key=('invalid', r['engine'], str(sorted(r['bad'].items())), str(sorted((r.get('context') or {}).items(), key=str))))
    for arg in r['bad']:
        ctx.count('invalid_' + arg)
    if family:
        ctx.count('family=' + family)
    if g[0] == 'ok':
        ctx.violation('property', '%s accepted the invalid argument%s %s%s and returned %s' %
                      (r['engine'], 's' if len(r['bad']) > 1 else '', ', '.join('%s=%s' % kv for kv in sorted(r['bad'].items())),
                       (' (with the valid options %s)' % r['context']) if r.get('context') else '' + (' [arguments by position]' if r.get('spelling') == 'positional' else ''),
                       str(g[1])[:100].replace('\n', ' ')),
                      dict(r, family=family or 'invalid'), site='nn.%s[invalid:%s]' % (r['engine'], '+'.join(sorted(r['bad']))))
        return False
    return True


def invalid_cases(ctx, nn):
    rng = ctx.rng
    ninv = 0
    for eng in ENGINES:
        for arg, vals in BAD.items():
            for v in vals:
                # every distance mode: an engine may take another code path (length buckets, substitution ball) in Hamming mode
                for mode_kw in ({}, dict(custom_distance='hamming')):
                    if arg == 'custom_distance' and mode_kw:
                        continue
                    check_invalid(ctx, nn, dict(engine=eng, bad={arg: v}, context=mode_kw), None)
                    ninv += 1
                if arg in GOOD and arg != 'seqs':
                    check_invalid(ctx, nn, dict(engine=eng, bad={arg: v}, context={}, spelling='positional'), 'invalid_positional')
                    ninv += 1
        for v in ['[1, 2]', "['CAF', None]", '5']:
            if eng in ('symdel', 'nearest_neighbor'):
                check_invalid(ctx, nn, dict(engine=eng, bad={'seqs2': v}, context={}), None)
                ninv += 1
    # the classes of the statement in more shapes (containers, positions, lengths, number types), in both distance modes and with a matrix output
    more = [(eng, arg, v) for eng in ENGINES for arg, vals in BAD_MORE.items() for v in vals if arg != 'seqs2' or 'seqs2' in ENGINE_PARAMS[eng]]
    rng.shuffle(more)
    for eng, arg, v in more * (1 if ctx.quick else 3):
        cx = rng.choice([{}, {}, dict(custom_distance='hamming'), dict(output_type='ndarray'), dict(output_type='coo_matrix', custom_distance='hamming'),
                         dict(custom_distance='lev3', max_edits=2)])
        cx = {o: x for o, x in cx.items() if o != arg}
        check_invalid(ctx, nn, dict(engine=eng, bad={arg: v}, context=cx), 'invalid_shapes')
        ninv += 1
    # an invalid argument next to each valid non-default option
    for eng in ENGINES:
        usable = []
        for cx in CONTEXTS:
            if any(o in ('seqs2', 'progress', 'compression') and o not in ENGINE_PARAMS[eng] for o in cx):
                continue
            # not vacuous: the option set alone is accepted (otherwise a rejection below would say nothing about the invalid argument)
            if invalid_call(nn, dict(engine=eng, bad={}, context=cx))[0] == 'ok':
                usable.append(cx)
            else:
                ctx.note('%s raises on the valid options %s alone; combinations with them skipped' % (eng, cx))
        ctx.count('valid_option_sets_accepted', len(usable))
        for arg, v in REPRESENTATIVES:
            for cx in usable:
                if arg in cx:
                    continue
                check_invalid(ctx, nn, dict(engine=eng, bad={arg: v}, context=cx), 'invalid_with_option')
                ninv += 1
    # two invalid arguments at once
    names = ['seqs', 'max_edits', 'n_cpu', 'output_type', 'seqs2']
    for _ in range(120 if ctx.quick else 600):
        eng = rng.choice(ENGINES)
        a1, a2 = rng.sample([a for a in names if a != 'seqs2' or 'seqs2' in ENGINE_PARAMS[eng]], 2)
        bad = {a1: rng.choice((BAD.get(a1) or []) + BAD_MORE[a1]), a2: rng.choice((BAD.get(a2) or []) + BAD_MORE[a2])}
        check_invalid(ctx, nn, dict(engine=eng, bad=bad, context={}), 'invalid_pair')
        ninv += 1
    ctx.extra['invalid_argument_calls'] = ninv


def run(ctx):
    import pyrepseq.nn as nn
    rng = ctx.rng
    ctx.rule = ('(a) every engine (symdel, nearest_neighbor, hash_based, kdtree; one- and two-collection symdel; default and Hamming '
                'mode) x container in {list, tuple, ndarray, Series with default / shifted / permuted / string index} x output_type in '
                '{triplets, coo_matrix, ndarray}: triplets equal the model, matrices equal the model\'s dense form of the triplets, shape '
                '(len(seqs), len(seqs2) or len(seqs)); (a\') the same comparison on the added families (counters family=...): SymdelDB / LookupDB '
                'lookups, max_edits 2..6, one-element and all-equal collections, 258-300 sequences, further container kinds and mixed kinds for the '
                'two collections, n_cpu / max_returns / compression / progress / max_custom_distance next to the output type, distances of several '
                'magnitudes, other alphabets, empty and long strings, repeated calls and one object refilled in place; (b) the full product of '
                'invalid-argument classes x engine must raise, also next to every valid option, in every container and in pairs. '
                'non-trivial := non-default container or non-triplet output or an added family, with a non-empty expected result')
    combos = list(itertools.product(ENGINES, CONTS, OUTS, ['lev', 'ham', 'custom'], [False, True]))
    rng.shuffle(combos)
    if ctx.quick:
        combos = combos[:150]
    else:
        combos = combos * 4            # the full product four times over, fresh repertoires each time
    plan = []
    for eng, cont, ot, mode, two in combos:
        if two and eng not in ('symdel', 'nearest_neighbor'):
            two = False
        if mode == 'custom':
            # a callable distance with fractional / scaled values (lev/2, 3*lev, weighted): the matrix forms must carry d unchanged
            mode = ['custom', rng.choice([2, 2, 1, 4]), rng.choice([1, 2])]
        seqs = repertoire(rng, rng.randint(2, 14), extras=False, minlen=1) if mode != 'ham' else c07.ham_repertoire(rng, rng.randint(2, 14))
        seqs = [s for s in seqs if 1 <= len(s) <= 11] or ['CAF', 'CAW']
        seqs2 = None
        if two:
            seqs2 = rng.sample(seqs, min(len(seqs), 3)) + [gens.mutate(rng, rng.choice(seqs), gens.AA, 1) or 'A' for _ in range(rng.randint(1, 5))]
            seqs2 = [s for s in seqs2 if s]
        plan.append(dict(family='product', engine=eng, container=cont, container2=None, cseed=rng.randrange(10 ** 6), output_type=ot, mode=mode, k=1,
                         seqs=seqs, seqs2=seqs2, opts={}, model=True))
    run_plan(ctx, nn, plan, vm=True)
    # (a') the added families
    if len(ctx.violations) <= 8:
        run_plan(ctx, nn, gen_cases(ctx))
    if len(ctx.violations) <= 8:
        run_plan(ctx, nn, large_cases(ctx))
    if len(ctx.violations) <= 8:
        same_object_cases(ctx, nn)
    if len(ctx.violations) <= 8:
        database_history_cases(ctx, nn)
    # (b) invalid arguments: must raise, never return a result
    invalid_cases(ctx, nn)
    ctx.exhaustive = True
    ctx.assumptions += ['scipy.sparse.coo_matrix(...).toarray() sums entries with equal coordinates (modelled)',
                        'container theorem is definitional in the model (engines take the positional sequence); the tie is this correspondence']


def replay(ctx, obj):
    import pyrepseq.nn as nn
    r = obj['replay']
    if 'bad' in r and 'engine' in r:
        check_invalid(ctx, nn, r, r.get('family'))
    elif r.get('family') == 'same_object' and 'script' in r:
        run_same_object(ctx, nn, r['script'])                  # the object's history is part of the input
    elif r.get('family') == 'database_history' and 'script' in r:
        run_database_history(ctx, nn, r['script'])
    elif 'engine' in r and 'seqs' in r:
        d = dict(r)
        d.setdefault('k', 1)
        d.setdefault('opts', {})
        run_plan(ctx, nn, [d])
    else:
        run(ctx)
