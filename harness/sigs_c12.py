"""Oracle entry points of coq/extract/Api_c12.v (modelled nndist_hamming loops)."""
from proto import L, O, T, STRS

SIGS = {
    'api_c12_nndist': (['nat', 'str', STRS], O('nat')),
    'api_c12_isdist2': (['str', STRS], 'bool'),
    'api_c12_isdist3': (['str', STRS], 'bool'),
    # C12 (source tie): the functions regenerated from the source text of distance.py (coq/gen/Gen_c12.v)
    'api_c12g_lev_nbrs': (['str', 'str'], STRS),
    'api_c12g_ham_nbrs': (['str', L('nat'), 'str'], STRS),
    'api_c12g_ham_nbrs_default': (['str', 'str'], STRS),
    'api_c12g_isdist2': (['str', STRS], 'bool'),
    'api_c12g_isdist3': (['str', STRS], 'bool'),
}
