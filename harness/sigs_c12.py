"""Oracle entry points of coq/extract/Api_c12.v (modelled nndist_hamming loops)."""
from proto import L, O, T, STRS

SIGS = {
    'api_c12_nndist': (['nat', 'str', STRS], O('nat')),
    'api_c12_isdist2': (['str', STRS], 'bool'),
    'api_c12_isdist3': (['str', STRS], 'bool'),
}
