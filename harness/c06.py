"""C06 - pc and its variance estimator are unbiased under multinomial sampling."""
import itertools, math
from fractions import Fraction
import numpy as np
from core import call_impl, close


def compositions(N, K):
    if K == 1:
        yield (N,)
        return
    for a in range(N + 1):
        for rest in compositions(N - a, K - 1):
            yield (a,) + rest


def multinomial_prob(c, p):
    N = sum(c)
    coef = math.factorial(N)
    for x in c:
        coef //= math.factorial(x)
    pr = Fraction(coef)
    for x, q in zip(c, p):
        pr *= q ** x
    return pr


NARROW_DTYPES = ('int8', 'uint8', 'int16', 'uint16', 'int32', 'uint32', 'int64', 'uint64')
# N (N-1) (N-2) is formed in the 64-bit integer that np.sum returns; the generated vectors stay below the size where that product
# itself leaves int64 (N = 2^21), so that every intermediate of the unchanged formulas is exact
NCAP = 2 * 10 ** 6


def ff(n, r):
    out = 1
    for j in range(r):
        out *= n - j
    return out


def max_count(dtype, r):
    """largest count n whose falling factorial n (n-1) ... (n-r+1) still fits the integer dtype"""
    top = int(np.iinfo(dtype).max)
    n = max(r, int(round(top ** (1.0 / r))) - 2)
    while ff(n + 1, r) <= top:
        n += 1
    while ff(n, r) > top:
        n -= 1
    return n


def narrow_vectors(rng, quick):
    """count vectors to be stored in a fixed-width integer dtype.  order 2: every n_i (n_i - 1) fits the dtype (pc_n is exact
    term by term); order 3: every n_i (n_i - 1) (n_i - 2) fits as well (varpc_n / stdpc_n too).  Counts are concentrated near
    the largest admissible value so that the SUMS of the terms leave the range of the dtype although no single term does."""
    out = []
    for dt in NARROW_DTYPES:
        top = int(np.iinfo(dt).max)
        for order in (2, 3):
            m = min(max_count(dt, order), NCAP // 2)
            need = {r: top // ff(m, r) + 1 for r in range(2, order + 1)}     # entries equal to m that push sum ff(n, r) over the top
            vs = []
            for r, k in need.items():
                if k * m <= NCAP - 3 and k <= (1600 if quick else 10 ** 5):
                    vs.append([m] * k + [m - 1, 1, 0])
            kbig = [k for k in need.values() if k * m <= NCAP and k <= 1600]
            for j in range(6 if quick else 40):
                if j % 3 == 2 and kbig and max(kbig) > 8 and (not quick or j == 2):
                    # many entries, almost all next to the largest admissible count: the lower-order sum leaves the range as well
                    lo = max(kbig) + max(kbig) // 10 + 1
                    K = rng.randint(min(lo, NCAP // m), min(2 * max(kbig), NCAP // m))
                    v = [max(0, m - rng.randint(0, 2)) if rng.random() < 0.9 else rng.randint(0, m) for _ in range(K)]
                else:
                    K = rng.randint(2, 8) if j % 3 else rng.randint(2, 40)
                    v = [max(0, rng.choice([m, m, m - 1, m - rng.randint(0, 3), rng.randint(0, m), rng.randint(0, m), 0, 1, 2]))
                         for _ in range(K)]
                while sum(v) > NCAP:
                    v.pop()
                vs.append(v)
            vs.sort(key=len)
            out += [(v, dt, order) for v in vs]
    return out


def show(v):
    return str(v) if len(v) <= 12 else '[%s, ... (%d counts, N=%d, max %d)]' % (', '.join(map(str, v[:6])), len(v), sum(v), max(v))


def var_scale(v):
    """magnitude of the three terms of varpc_n (their sum may cancel by many orders of magnitude)"""
    N = sum(v)
    if N < 4:
        return 0.0
    p2 = Fraction(sum(ff(c, 2) for c in v), ff(N, 2))
    p3 = Fraction(sum(ff(c, 3) for c in v), ff(N, 3))
    beta = Fraction(2 * (2 * N - 3), (N - 2) * (N - 3))
    return float(4 * Fraction(N - 2, ff(N, 2)) * (1 + beta) * p3 + beta * p2 ** 2 + Fraction(2, ff(N, 2)) * (1 + beta) * p2)


def run(ctx):
    import pyrepseq.stats as st
    import pandas as pd
    rng = ctx.rng
    ctx.rule = ('(a) every count vector with N <= Nmax over K <= 4 categories: pc_n, varpc_n, stdpc_n, stdpc, pc against the '
                'generated exact-rational functions; (b) random vectors up to N = 10^6, and count vectors stored as int8 ... uint64 arrays / Series '
                'whose terms n(n-1), n(n-1)(n-2) fit the dtype while their sums do not (N < 2*10^6); (c) the expectation itself on the '
                'implementation: for each (N, K, p) on a rational grid, sum over ALL count vectors of implementation value x exact '
                'multinomial probability compared with sum p^2 and Var(pc). non-trivial := at least two categories occupied, N >= 4')
    Nmax = 9 if ctx.quick else 13
    vecs = [c for K in (1, 2, 3, 4) for N in range(2, Nmax + 1) for c in compositions(N, K)]
    vecs = [list(c) for c in vecs]
    for _ in range(100 if ctx.quick else 2000):
        K = rng.randint(1, 40)
        vecs.append([rng.choice([0, 1, 1, 2, 3, 10, 500, rng.randint(0, 10 ** 5)]) for _ in range(K)])
    ctx.exhaustive = True
    entries = [(v, None, 3) for v in vecs] + narrow_vectors(rng, ctx.quick)
    # repertoires of realistic size: N above 2^21 (where N(N-1)(N-2) leaves int64) up to a few 10^8, a few dominant clones and a tail
    large = [[1500000, 600000, 100000], [2 ** 21, 1, 1], [2 ** 21 + 2], [3000000, 3000000]]
    for _ in range(12 if ctx.quick else 200):
        big = [rng.randint(10 ** 5, rng.choice([10 ** 6, 10 ** 7, 10 ** 8])) for _ in range(rng.randint(1, 4))]
        tail = [rng.choice([1, 1, 2, 3, 10, 1000]) for _ in range(rng.randint(0, 30))]
        v = big + tail
        if sum(v) > 2 ** 21:
            large.append(v)
    entries += [(v, 'int64', 3) for v in large]
    ctx.count('count_vectors_N_above_2^21', len(large))
    reqs = []
    for v, _, _ in entries:
        reqs += [('api_gen_pc_n', [v]), ('api_gen_varpc_n', [v])]
    outs = ctx.oracle.run_parallel(reqs)
    over = {}
    for k, (v, dt, order) in enumerate(entries):
        (pdef, pq), (vdef, vq) = outs[2 * k], outs[2 * k + 1]
        N = sum(v)
        nt = N >= 4 and sum(1 for x in v if x > 0) >= 2
        pexp, vexp = (pq if pdef else None), (vq if vdef else None)
        if dt is None:
            arr = np.array(v)
            sample = np.repeat(np.arange(len(v)), arr)
            checks = [('pc_n', st.pc_n, arr, pexp), ('pc_n[list]', st.pc_n, list(v), pexp), ('varpc_n', st.varpc_n, arr, vexp)]
            if N >= 2:
                checks.append(('pc[sample]', st.pc, sample, pexp))
            if vdef and vq >= 0:
                checks.append(('stdpc_n', st.stdpc_n, arr, ('sqrt', vq)))
                checks.append(('stdpc[sample]', st.stdpc, sample, ('sqrt', vq)))
            tag = ''
        else:
            # the same counts held in a fixed-width integer dtype (array and pandas Series); the same objects go through all calls
            arr = np.array(v, dtype=dt)
            ser = pd.Series(arr.copy(), index=['c%d' % i for i in range(len(v))])
            assert arr.tolist() == v
            top = int(np.iinfo(dt).max)
            for r in range(2, order + 1):
                if sum(ff(c, r) for c in v) > top:
                    over[(dt, order, r)] = over.get((dt, order, r), 0) + 1
            tag = '[%s]' % dt
            checks = [('pc_n' + tag, st.pc_n, arr, pexp), ('pc_n[Series %s]' % dt, st.pc_n, ser, pexp)]
            if order >= 3:
                checks += [('varpc_n' + tag, st.varpc_n, arr, vexp), ('varpc_n[Series %s]' % dt, st.varpc_n, ser, vexp)]
                if vdef and vq >= 0:
                    checks.append(('stdpc_n' + tag, st.stdpc_n, arr, ('sqrt', vq)))
        vs = var_scale(v) if vdef else 0.0
        for name, fn, arg, exp in checks:
            impl = call_impl(fn, arg)
            if impl[0] == 'ok' and isinstance(impl[1], pd.Series):
                impl = ('exc', 'returned a Series instead of a number')
            ctx.case(sample=dict(func=name, counts=v, impl=str(impl), model=str(exp)) if nt and k % 97 == 0 and len(v) < 50 else None,
                     nontrivial_key=(name, tuple(v)) if nt else None)
            if exp is None:
                # undefined in the model (zero denominator): implementation gives nan/inf or raises
                ok = impl[0] == 'exc' or not np.isfinite(impl[1])
            elif isinstance(exp, tuple):
                ok = impl[0] == 'ok' and (abs(float(impl[1]) - math.sqrt(exp[1])) <= 1e-9 * max(1, math.sqrt(exp[1])) or
                                          (exp[1] < 1e-18 and (impl[1] != impl[1] or abs(impl[1]) < 1e-6)))
            else:
                ok = impl[0] == 'ok' and close(impl[1], exp, rel=1e-9, abs_=1e-12)
                if ok and name.startswith('varpc_n'):
                    # the three terms of varpc_n cancel; measured against their size, not against an absolute floor
                    ok = abs(float(impl[1]) - float(exp)) <= 1e-9 * abs(float(exp)) + 1e-10 * vs
            if not ok:
                ctx.violation('property', '%s(%s) = %s but the formula the unbiasedness theorems are about gives %s' %
                              (name, show(v), impl, exp if not isinstance(exp, Fraction) else '%s (= %r)' % (exp, float(exp))),
                              dict(func=name, dtype=dt, counts=v, impl=str(impl), expected=str(exp)),
                              site='stats.' + name.split('[')[0])
        # the estimators are functions of the counts: the caller's count vector is the same afterwards
        for nm, obj in ([('array', arr)] if dt is None else [('array', arr), ('Series', ser)]):
            after = np.asarray(obj).tolist()
            ctx.case(nontrivial_key=None)
            if after != v or str(np.asarray(obj).dtype) != (dt or str(np.array(v).dtype)):
                ctx.violation('property', 'the count %s %s%s handed to pc_n / varpc_n / stdpc_n holds %s afterwards: a second estimate from the '
                              'same counts is no longer the estimator of the theorems' % (nm, show(v), tag, show(after)),
                              dict(func='input-unchanged', dtype=dt, counts=v, after=after), site='stats.pc_n')
        if k < 30:
            ctx.add_vm('api_gen_varpc_n', [v], outs[2 * k + 1])
        if len(ctx.violations) > 10:
            return
    # (a') a resampling loop: ONE preallocated buffer per sample size, refilled in place with sample after sample (bootstrap / permutation
    # buffer), pc and stdpc evaluated on it each time - every value is the estimator of the sample the buffer holds NOW
    for N in range(2, Nmax + 1):
        for kind in ('int', 'str'):
            buf = np.empty(N, dtype=np.int64) if kind == 'int' else np.empty(N, dtype='<U4')
            seen = 0
            for k, (v, dt, order) in enumerate(entries):
                if dt is not None or sum(v) != N or len(v) > 4:
                    continue
                (pdef, pq), (vdef, vq) = outs[2 * k], outs[2 * k + 1]
                smp = np.repeat(np.arange(len(v)), np.array(v))
                rng.shuffle(smp)
                buf[:] = smp if kind == 'int' else ['c%d' % x for x in smp]
                seen += 1
                ctx.count('resampling_buffer_refills')
                for name, fn, exp in (('pc', st.pc, pq if pdef else None), ('stdpc', st.stdpc, ('sqrt', vq) if vdef and vq >= 0 else 'skip')):
                    if exp == 'skip':
                        continue
                    impl = call_impl(fn, buf)
                    ctx.case(nontrivial_key=('buffer', name, kind, tuple(v)) if seen > 1 else None)
                    if exp is None:
                        ok = impl[0] == 'exc' or not np.isfinite(impl[1])
                    elif isinstance(exp, tuple):
                        ok = impl[0] == 'ok' and (abs(float(impl[1]) - math.sqrt(exp[1])) <= 1e-9 * max(1, math.sqrt(exp[1])) or
                                                  (exp[1] < 1e-18 and (impl[1] != impl[1] or abs(impl[1]) < 1e-6)))
                    else:
                        ok = impl[0] == 'ok' and close(impl[1], exp, rel=1e-9, abs_=1e-12)
                    if not ok:
                        ctx.violation('property', '%s(buffer) = %s for the buffer holding a sample with counts %s (refill number %d of one '
                                      'preallocated %s array of size %d), but the formula gives %s' % (name, impl, show(v), seen, kind, N, exp),
                                      dict(func=name + '[refilled buffer]', counts=v, refill=seen, kind=kind, impl=str(impl), expected=str(exp)),
                                      site='stats.%s[refilled buffer]' % name)
            if len(ctx.violations) > 10:
                return
    # the generator is only worth something if sums beyond the dtype actually occurred (term by term in range)
    for dt in NARROW_DTYPES[:5]:
        for order, r in ((2, 2), (3, 2), (3, 3)):
            ctx.case(nontrivial_key=('overflowing-sum', dt, order, r))
            if not over.get((dt, order, r)):
                ctx.violation('proof', 'generator: no %s count vector (all terms of order %d in range) whose sum of order-%d falling '
                              'factorials exceeds the dtype' % (dt, order, r), dict(dtype=dt, order=order, r=r), site='harness.c06')
    ctx.note('fixed-width count vectors with a sum beyond the dtype range, dtype/terms in range up to order/order of the sum: %s' %
             ', '.join('%s/%d/%d: %d' % (d, o, r, c) for (d, o, r), c in sorted(over.items())))
    # (c) unbiasedness evaluated on the implementation by exact enumeration
    grid = [(N, K) for N in (4, 5, 6, 7) for K in (2, 3)] if ctx.quick else \
           [(N, K) for N in range(4, 11) for K in (2, 3, 4) if not (N > 8 and K == 4)]
    for N, K in grid:
        for _ in range(2 if ctx.quick else 12):
            w = [rng.randint(1, 6) for _ in range(K)]
            p = [Fraction(x, sum(w)) for x in w]
            e_pc = e_pc2 = e_var = Fraction(0)
            for c in compositions(N, K):
                pr = multinomial_prob(c, p)
                a = np.array(c)
                g1, g2 = call_impl(st.pc_n, a), call_impl(st.varpc_n, a)
                if g1[0] != 'ok' or g2[0] != 'ok':
                    ctx.violation('property', 'pc_n / varpc_n raised %s on the count vector %s (probability %s under p=%s): the estimator has no '
                                  'expectation there' % ((g1, g2), list(c), pr, p), dict(counts=list(c), p=[str(q) for q in p]), site='stats.pc_n')
                    return
                pcv = Fraction(float(g1[1])).limit_denominator(10 ** 12)
                vv = Fraction(float(g2[1])).limit_denominator(10 ** 12)
                e_pc += pr * pcv
                e_pc2 += pr * pcv * pcv
                e_var += pr * vv
            s2 = sum(q * q for q in p)
            ctx.case(sample=dict(N=N, K=K, p=[str(q) for q in p], E_pc=float(e_pc), sum_p2=float(s2),
                                 E_varpc=float(e_var), Var_pc=float(e_pc2 - e_pc ** 2)),
                     nontrivial_key=('E', N, K, tuple(p)))
            if abs(e_pc - s2) > 1e-9:
                ctx.violation('property', 'E[pc_n] = %s differs from sum p^2 = %s for N=%d p=%s' % (float(e_pc), float(s2), N, p),
                              dict(N=N, K=K, p=[str(q) for q in p], E_pc=str(e_pc), sum_p2=str(s2)), site='stats.pc_n')
            if abs(e_var - (e_pc2 - e_pc ** 2)) > 1e-9:
                ctx.violation('property', 'E[varpc_n] = %s differs from Var(pc) = %s for N=%d p=%s' %
                              (float(e_var), float(e_pc2 - e_pc ** 2), N, p),
                              dict(N=N, K=K, p=[str(q) for q in p], E_var=str(e_var), Var=str(e_pc2 - e_pc ** 2)),
                              site='stats.varpc_n')
    # two-sample estimator, exact enumeration on the implementation
    for N1, N2, K in ([(2, 3, 2), (3, 2, 3)] if ctx.quick else [(2, 3, 2), (3, 2, 3), (4, 4, 3), (1, 5, 3), (5, 1, 2), (3, 6, 3), (6, 3, 2), (2, 2, 4), (5, 5, 2)]):
        w1 = [rng.randint(1, 5) for _ in range(K)]
        w2 = [rng.randint(1, 5) for _ in range(K)]
        p = [Fraction(x, sum(w1)) for x in w1]
        q = [Fraction(x, sum(w2)) for x in w2]
        e = Fraction(0)
        for c1 in compositions(N1, K):
            for c2 in compositions(N2, K):
                s1 = np.repeat(np.arange(K), c1)
                s2_ = np.repeat(np.arange(K), c2)
                g = call_impl(st.pc, s1, s2_)
                if g[0] != 'ok':
                    ctx.violation('property', 'pc(%s, %s) raised %s: the two-sample estimator is undefined on a sample of positive probability, '
                                  'so E[pc(a,b)] = sum p_i q_i fails' % (s1.tolist(), s2_.tolist(), g[1]),
                                  dict(a=s1.tolist(), b=s2_.tolist(), p=[str(x) for x in p], q=[str(x) for x in q]), site='stats.pc')
                    return
                v = Fraction(float(g[1])).limit_denominator(10 ** 12)
                e += multinomial_prob(c1, p) * multinomial_prob(c2, q) * v
        tgt = sum(a * b for a, b in zip(p, q))
        ctx.case(sample=dict(N1=N1, N2=N2, p=[str(x) for x in p], q=[str(x) for x in q], E=float(e), target=float(tgt)),
                 nontrivial_key=('E2', N1, N2, tuple(p), tuple(q)))
        if abs(e - tgt) > 1e-9:
            ctx.violation('property', 'E[pc(a,b)] = %s differs from sum p_i q_i = %s' % (float(e), float(tgt)),
                          dict(N1=N1, N2=N2, p=[str(x) for x in p], q=[str(x) for x in q]), site='stats.pc')
    ctx.assumptions += ['float64 evaluation of the formulas within 1e-9 of the exact rational on the enumerated vectors',
                        'Coq.Reals axioms: ClassicalDedekindReals.sig_forall_dec, FunctionalExtensionality.functional_extensionality_dep',
                        'the two-sample estimator pc2R is hand-written (np.unique/intersect1d route tied by C02 correspondence)']


def replay(ctx, obj):
    run(ctx)
