"""C06 - pc and its variance estimator are unbiased under multinomial sampling."""
import itertools, math
from fractions import Fraction
import numpy as np
from core import call_impl, close


def compositions(N, K):
    if K == 1:
        yield (N,)
        return
    for a in range(N + 1):
        for rest in compositions(N - a, K - 1):
            yield (a,) + rest


def multinomial_prob(c, p):
    N = sum(c)
    coef = math.factorial(N)
    for x in c:
        coef //= math.factorial(x)
    pr = Fraction(coef)
    for x, q in zip(c, p):
        pr *= q ** x
    return pr


def run(ctx):
    import pyrepseq.stats as st
    rng = ctx.rng
    ctx.rule = ('(a) every count vector with N <= Nmax over K <= 4 categories: pc_n, varpc_n, stdpc_n, stdpc, pc against the '
                'generated exact-rational functions; (b) random vectors up to N = 10^6; (c) the expectation itself on the '
                'implementation: for each (N, K, p) on a rational grid, sum over ALL count vectors of implementation value x exact '
                'multinomial probability compared with sum p^2 and Var(pc). non-trivial := at least two categories occupied, N >= 4')
    Nmax = 9 if ctx.quick else 13
    vecs = [c for K in (1, 2, 3, 4) for N in range(2, Nmax + 1) for c in compositions(N, K)]
    vecs = [list(c) for c in vecs]
    for _ in range(100 if ctx.quick else 2000):
        K = rng.randint(1, 40)
        vecs.append([rng.choice([0, 1, 1, 2, 3, 10, 500, rng.randint(0, 10 ** 5)]) for _ in range(K)])
    ctx.exhaustive = True
    reqs = []
    for v in vecs:
        reqs += [('api_gen_pc_n', [v]), ('api_gen_varpc_n', [v])]
    outs = ctx.oracle.run_parallel(reqs)
    for k, v in enumerate(vecs):
        (pdef, pq), (vdef, vq) = outs[2 * k], outs[2 * k + 1]
        N = sum(v)
        nt = N >= 4 and sum(1 for x in v if x > 0) >= 2
        arr = np.array(v)
        sample = np.repeat(np.arange(len(v)), arr)
        checks = [('pc_n', call_impl(st.pc_n, arr), pq if pdef else None),
                  ('pc_n[list]', call_impl(st.pc_n, list(v)), pq if pdef else None),
                  ('varpc_n', call_impl(st.varpc_n, arr), vq if vdef else None)]
        if N >= 2:
            checks.append(('pc[sample]', call_impl(st.pc, sample), pq if pdef else None))
        if vdef and vq >= 0:
            checks.append(('stdpc_n', call_impl(st.stdpc_n, arr), ('sqrt', vq)))
            checks.append(('stdpc[sample]', call_impl(st.stdpc, sample), ('sqrt', vq)))
        for name, impl, exp in checks:
            ctx.case(sample=dict(func=name, counts=v, impl=str(impl), model=str(exp)) if nt and k % 97 == 0 else None,
                     nontrivial_key=(name, tuple(v)) if nt else None)
            if exp is None:
                # undefined in the model (zero denominator): implementation gives nan/inf or raises
                ok = impl[0] == 'exc' or not np.isfinite(impl[1])
            elif isinstance(exp, tuple):
                ok = impl[0] == 'ok' and (abs(float(impl[1]) - math.sqrt(exp[1])) <= 1e-9 * max(1, math.sqrt(exp[1])) or
                                          (exp[1] < 1e-18 and (impl[1] != impl[1] or abs(impl[1]) < 1e-6)))
            else:
                ok = impl[0] == 'ok' and close(impl[1], exp, rel=1e-9, abs_=1e-12)
            if not ok:
                ctx.violation('property', '%s(%s) = %s but the formula the unbiasedness theorems are about gives %s' %
                              (name, v, impl, exp), dict(func=name, counts=v, impl=str(impl), expected=str(exp)),
                              site='stats.' + name.split('[')[0])
        if k < 30:
            ctx.add_vm('api_gen_varpc_n', [v], outs[2 * k + 1])
        if len(ctx.violations) > 10:
            return
    # (c) unbiasedness evaluated on the implementation by exact enumeration
    grid = [(N, K) for N in (4, 5, 6, 7) for K in (2, 3)] if ctx.quick else \
           [(N, K) for N in range(4, 11) for K in (2, 3, 4) if not (N > 8 and K == 4)]
    for N, K in grid:
        for _ in range(2 if ctx.quick else 12):
            w = [rng.randint(1, 6) for _ in range(K)]
            p = [Fraction(x, sum(w)) for x in w]
            e_pc = e_pc2 = e_var = Fraction(0)
            for c in compositions(N, K):
                pr = multinomial_prob(c, p)
                a = np.array(c)
                g1, g2 = call_impl(st.pc_n, a), call_impl(st.varpc_n, a)
                if g1[0] != 'ok' or g2[0] != 'ok':
                    ctx.violation('property', 'pc_n / varpc_n raised %s on the count vector %s (probability %s under p=%s): the estimator has no '
                                  'expectation there' % ((g1, g2), list(c), pr, p), dict(counts=list(c), p=[str(q) for q in p]), site='stats.pc_n')
                    return
                pcv = Fraction(float(g1[1])).limit_denominator(10 ** 12)
                vv = Fraction(float(g2[1])).limit_denominator(10 ** 12)
                e_pc += pr * pcv
                e_pc2 += pr * pcv * pcv
                e_var += pr * vv
            s2 = sum(q * q for q in p)
            ctx.case(sample=dict(N=N, K=K, p=[str(q) for q in p], E_pc=float(e_pc), sum_p2=float(s2),
                                 E_varpc=float(e_var), Var_pc=float(e_pc2 - e_pc ** 2)),
                     nontrivial_key=('E', N, K, tuple(p)))
            if abs(e_pc - s2) > 1e-9:
                ctx.violation('property', 'E[pc_n] = %s differs from sum p^2 = %s for N=%d p=%s' % (float(e_pc), float(s2), N, p),
                              dict(N=N, K=K, p=[str(q) for q in p], E_pc=str(e_pc), sum_p2=str(s2)), site='stats.pc_n')
            if abs(e_var - (e_pc2 - e_pc ** 2)) > 1e-9:
                ctx.violation('property', 'E[varpc_n] = %s differs from Var(pc) = %s for N=%d p=%s' %
                              (float(e_var), float(e_pc2 - e_pc ** 2), N, p),
                              dict(N=N, K=K, p=[str(q) for q in p], E_var=str(e_var), Var=str(e_pc2 - e_pc ** 2)),
                              site='stats.varpc_n')
    # two-sample estimator, exact enumeration on the implementation
    for N1, N2, K in ([(2, 3, 2), (3, 2, 3)] if ctx.quick else [(2, 3, 2), (3, 2, 3), (4, 4, 3), (1, 5, 3), (5, 1, 2), (3, 6, 3), (6, 3, 2), (2, 2, 4), (5, 5, 2)]):
        w1 = [rng.randint(1, 5) for _ in range(K)]
        w2 = [rng.randint(1, 5) for _ in range(K)]
        p = [Fraction(x, sum(w1)) for x in w1]
        q = [Fraction(x, sum(w2)) for x in w2]
        e = Fraction(0)
        for c1 in compositions(N1, K):
            for c2 in compositions(N2, K):
                s1 = np.repeat(np.arange(K), c1)
                s2_ = np.repeat(np.arange(K), c2)
                g = call_impl(st.pc, s1, s2_)
                if g[0] != 'ok':
                    ctx.violation('property', 'pc(%s, %s) raised %s: the two-sample estimator is undefined on a sample of positive probability, '
                                  'so E[pc(a,b)] = sum p_i q_i fails' % (s1.tolist(), s2_.tolist(), g[1]),
                                  dict(a=s1.tolist(), b=s2_.tolist(), p=[str(x) for x in p], q=[str(x) for x in q]), site='stats.pc')
                    return
                v = Fraction(float(g[1])).limit_denominator(10 ** 12)
                e += multinomial_prob(c1, p) * multinomial_prob(c2, q) * v
        tgt = sum(a * b for a, b in zip(p, q))
        ctx.case(sample=dict(N1=N1, N2=N2, p=[str(x) for x in p], q=[str(x) for x in q], E=float(e), target=float(tgt)),
                 nontrivial_key=('E2', N1, N2, tuple(p), tuple(q)))
        if abs(e - tgt) > 1e-9:
            ctx.violation('property', 'E[pc(a,b)] = %s differs from sum p_i q_i = %s' % (float(e), float(tgt)),
                          dict(N1=N1, N2=N2, p=[str(x) for x in p], q=[str(x) for x in q]), site='stats.pc')
    ctx.assumptions += ['float64 evaluation of the formulas within 1e-9 of the exact rational on the enumerated vectors',
                        'Coq.Reals axioms: ClassicalDedekindReals.sig_forall_dec, FunctionalExtensionality.functional_extensionality_dep',
                        'the two-sample estimator pc2R is hand-written (np.unique/intersect1d route tied by C02 correspondence)']


def replay(ctx, obj):
    run(ctx)
