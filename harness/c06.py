"""C06 - pc and its variance estimator are unbiased under multinomial sampling."""
import itertools, math, os
from fractions import Fraction
import numpy as np
from core import call_impl, close


def compositions(N, K):
    if K == 1:
        yield (N,)
        return
    for a in range(N + 1):
        for rest in compositions(N - a, K - 1):
            yield (a,) + rest


def multinomial_prob(c, p):
    N = sum(c)
    coef = math.factorial(N)
    for x in c:
        coef //= math.factorial(x)
    pr = Fraction(coef)
    for x, q in zip(c, p):
        pr *= q ** x
    return pr


NARROW_DTYPES = ('int8', 'uint8', 'int16', 'uint16', 'int32', 'uint32', 'int64', 'uint64')
# N (N-1) (N-2) is formed in the 64-bit integer that np.sum returns; the generated vectors stay below the size where that product
# itself leaves int64 (N = 2^21), so that every intermediate of the unchanged formulas is exact
NCAP = 2 * 10 ** 6


def ff(n, r):
    out = 1
    for j in range(r):
        out *= n - j
    return out


def max_count(dtype, r):
    """largest count n whose falling factorial n (n-1) ... (n-r+1) still fits the integer dtype"""
    top = int(np.iinfo(dtype).max)
    n = max(r, int(round(top ** (1.0 / r))) - 2)
    while ff(n + 1, r) <= top:
        n += 1
    while ff(n, r) > top:
        n -= 1
    return n


def narrow_vectors(rng, quick):
    """count vectors to be stored in a fixed-width integer dtype.  order 2: every n_i (n_i - 1) fits the dtype (pc_n is exact
    term by term); order 3: every n_i (n_i - 1) (n_i - 2) fits as well (varpc_n / stdpc_n too).  Counts are concentrated near
    the largest admissible value so that the SUMS of the terms leave the range of the dtype although no single term does."""
    out = []
    for dt in NARROW_DTYPES:
        top = int(np.iinfo(dt).max)
        for order in (2, 3):
            m = min(max_count(dt, order), NCAP // 2)
            need = {r: top // ff(m, r) + 1 for r in range(2, order + 1)}     # entries equal to m that push sum ff(n, r) over the top
            vs = []
            for r, k in need.items():
                if k * m <= NCAP - 3 and k <= (1600 if quick else 10 ** 5):
                    vs.append([m] * k + [m - 1, 1, 0])
            kbig = [k for k in need.values() if k * m <= NCAP and k <= 1600]
            for j in range(6 if quick else 40):
                if j % 3 == 2 and kbig and max(kbig) > 8 and (not quick or j == 2):
                    # many entries, almost all next to the largest admissible count: the lower-order sum leaves the range as well
                    lo = max(kbig) + max(kbig) // 10 + 1
                    K = rng.randint(min(lo, NCAP // m), min(2 * max(kbig), NCAP // m))
                    v = [max(0, m - rng.randint(0, 2)) if rng.random() < 0.9 else rng.randint(0, m) for _ in range(K)]
                else:
                    K = rng.randint(2, 8) if j % 3 else rng.randint(2, 40)
                    v = [max(0, rng.choice([m, m, m - 1, m - rng.randint(0, 3), rng.randint(0, m), rng.randint(0, m), 0, 1, 2]))
                         for _ in range(K)]
                while sum(v) > NCAP:
                    v.pop()
                vs.append(v)
            vs.sort(key=len)
            out += [(v, dt, order) for v in vs]
    return out


def show(v):
    return str(v) if len(v) <= 12 else '[%s, ... (%d counts, N=%d, max %d)]' % (', '.join(map(str, v[:6])), len(v), sum(v), max(v))


def var_scale(v):
    """magnitude of the three terms of varpc_n (their sum may cancel by many orders of magnitude)"""
    N = sum(v)
    if N < 4:
        return 0.0
    p2 = Fraction(sum(ff(c, 2) for c in v), ff(N, 2))
    p3 = Fraction(sum(ff(c, 3) for c in v), ff(N, 3))
    beta = Fraction(2 * (2 * N - 3), (N - 2) * (N - 3))
    return float(4 * Fraction(N - 2, ff(N, 2)) * (1 + beta) * p3 + beta * p2 ** 2 + Fraction(2, ff(N, 2)) * (1 + beta) * p2)


# ---------------------------------------------------------------------------------------------------------------------------------
# Widened input kinds (coverage audit): containers of counts and of samples, label kinds, sizes beyond internal thresholds, buffers
# refilled in place, two-sample values, row samples (DataFrame / deprecated pair tuple), stdpc_joint.  Every expected value is the
# regenerated formula evaluated by the oracle on the count vector obtained by counting the PYTHON-LEVEL labels (collections.Counter),
# or (two samples) the model's pc2 on an injective relabelling / the exact rational sum c1_i c2_i / (N1 N2) for sizes the unary
# naturals of the extracted model do not reach.

def _scalar(impl):
    import pandas as pd
    if impl[0] == 'ok' and (isinstance(impl[1], (pd.Series, pd.DataFrame)) or np.ndim(impl[1]) != 0):
        return ('exc', 'returned a %s instead of a number' % type(impl[1]).__name__)
    return impl


def _judge(impl, what, exp, vs):
    """what: 'pc' (also the two-sample value), 'var', 'std'; exp: exact rational or None (undefined in the model: zero denominator).
    The variance is compared relative to the size vs of its three (cancelling) terms, the standard deviation through its square."""
    if exp is None:
        return impl[0] == 'exc' or not np.isfinite(impl[1])
    if impl[0] != 'ok':
        return False
    try:
        x = float(impl[1])
    except Exception:
        return False
    q = float(exp)
    if what == 'pc':
        return close(x, exp, rel=1e-9, abs_=1e-300)
    tol = 1e-9 * abs(q) + 1e-10 * vs
    if what == 'var':
        return abs(x - q) <= tol
    if x != x:
        # the float64 variance may round below zero only where the exact one is inside the rounding of its terms; where all three terms
        # vanish exactly (no element repeated: vs = 0) the estimate is exactly 0.0 and so is its root (seeded change C06-r8m3)
        return q <= tol and vs > 0
    return x >= 0 and (abs(x * x - q) <= tol or abs(x - math.sqrt(max(q, 0.0))) <= 1e-12 * math.sqrt(max(q, 0.0)))


def _counts_of(labels):
    from collections import Counter
    return sorted(Counter(labels).values(), reverse=True)


def _labels(kind, K):
    """K pairwise different Python-level labels of one kind (different as Python objects AND as numpy array elements)."""
    if kind == 'int':
        return [i - 2 for i in range(K)]
    if kind == 'int_wide':
        base = [2 ** 53, 2 ** 53 + 1, 2 ** 63 - 1, -2 ** 63, -2 ** 53 - 1, 2 ** 53 + 2, 0, 2 ** 62, 2 ** 62 + 1, -1]
        return (base + [2 ** 53 + 3 + i for i in range(K)])[:K]
    if kind == 'uint64':
        return [2 ** 64 - 1 - i if i % 2 == 0 else i for i in range(K)]
    if kind == 'int8':
        return [(-128 + i) if i % 2 == 0 else (127 - i) for i in range(K)]
    if kind == 'bool':
        return [True, False][:K]
    if kind == 'float':
        base = [0.5, 0.25, 0.1 + 0.2, 0.3, 1e-300, 1e300, -0.5, 5e-324, 1.0, 1.0 + 2 ** -52, 2.0 ** 53, 2.0 ** 53 + 2]
        return (base + [float(i) + 0.125 for i in range(K)])[:K]
    if kind == 'str_cdr3':
        base = ['CASS', 'CASSL', 'CASSLG', 'CASSLGF', 'CAS', 'CASSLGQ', 'CSAS', 'CASSF', 'CASSLGFF', 'C']
        return (base + ['CASSL' + 'GQ' * (i + 1) + 'F' for i in range(K)])[:K]
    if kind == 'str_case_ws':
        base = ['a', 'A', 'a ', ' a', '', 'ab', 'Ab', 'a\t', '1', '01', '1.0', '1e0', ' 1', 'nan', 'None', ' ']
        return (base + ['w%d' % i for i in range(K)])[:K]
    if kind == 'str_long':
        base = []
        for n in (126, 127, 128, 254, 255, 256, 999):
            base += ['A' * n + 'C', 'A' * n + 'D']
        base += ['C' + 'A' * 300, 'D' + 'A' * 300]
        return (base + ['A' * (1001 + i) for i in range(K)])[:K]
    if kind == 'str_unicode':
        # precomposed / base letter / combining sequence, sharp s / ss, upper / lower case, Greek, a letter outside the BMP
        base = ['\u00e9', 'e', '\u00df', 'ss', '\u00c9', 'e\u0301', '\u03b1', '\u03b2', '\U0001d6fc', 'a']
        return (base + ['\u03b1%d' % i for i in range(K)])[:K]
    if kind == 'bytes':
        base = [b'a', b'ab', b'abc', b'A', b'a ', b'b', b'CASS', b'CASSL']
        return (base + [b'x%d' % i for i in range(K)])[:K]
    raise KeyError(kind)


KIND_DTYPE = {'int': None, 'int_wide': np.int64, 'uint64': np.uint64, 'int8': np.int8, 'bool': None, 'float': None, 'str_cdr3': None,
              'str_case_ws': None, 'str_long': None, 'str_unicode': None, 'bytes': None}
SAMPLE_KINDS = tuple(KIND_DTYPE)
STR_KINDS = ('str_cdr3', 'str_case_ws', 'str_long', 'str_unicode')


def _native(s, kind):
    return np.array(s, dtype=KIND_DTYPE[kind]) if KIND_DTYPE[kind] is not None else np.array(s)


def _sample_container(cont, s, kind, rng):
    """the sample s (Python list of labels) in one container kind"""
    import pandas as pd
    if cont == 'list':
        return list(s)
    if cont == 'tuple':
        return tuple(s)
    if cont == 'ndarray':
        return _native(s, kind)
    if cont == 'ndarray[object]':
        a = np.empty(len(s), dtype=object)
        a[:] = s
        return a
    if cont == 'ndarray[read-only]':
        a = _native(s, kind)
        a.setflags(write=False)
        return a
    if cont == 'ndarray[strided view]':
        inter = []
        for x in s:
            inter += [x, s[0]]
        return _native(inter, kind)[::2]
    if cont == 'Series':
        return pd.Series(_native(s, kind)) if kind not in STR_KINDS else pd.Series(list(s))
    if cont == 'Series[permuted index]':
        idx = list(range(len(s)))
        rng.shuffle(idx)
        return pd.Series(_native(s, kind) if kind not in STR_KINDS else list(s), index=idx)
    if cont == 'Series[str index]':
        return pd.Series(_native(s, kind) if kind not in STR_KINDS else list(s), index=['r%d' % (len(s) - i) for i in range(len(s))])
    if cont == 'Series[duplicate index]':
        return pd.Series(_native(s, kind) if kind not in STR_KINDS else list(s), index=[0] * len(s))
    if cont == 'Index':
        return pd.Index(_native(s, kind) if kind not in STR_KINDS else list(s))
    if cont == 'DataFrame[1 column]':
        return pd.DataFrame({'CDR3B': list(s)})
    raise KeyError(cont)


SAMPLE_CONTAINERS = ('list', 'tuple', 'ndarray', 'ndarray[object]', 'ndarray[read-only]', 'ndarray[strided view]', 'Series',
                     'Series[permuted index]', 'Series[str index]', 'Series[duplicate index]', 'Index', 'DataFrame[1 column]')


def _count_container(cont, v, rng):
    """the count vector v in one container kind"""
    import pandas as pd, array as pyarray
    K = len(v)
    if cont == 'tuple':
        return tuple(v)
    if cont == 'list[np.int64]':
        return [np.int64(x) for x in v]
    if cont == 'array.array':
        return pyarray.array('q', v)
    if cont == 'ndarray[float64]':
        return np.array(v, dtype=np.float64)
    if cont == 'ndarray[float32]':
        return np.array(v, dtype=np.float32)
    if cont == 'ndarray[object]':
        return np.array(v, dtype=object)
    if cont == 'ndarray[read-only]':
        a = np.array(v)
        a.setflags(write=False)
        return a
    if cont == 'ndarray[strided view]':
        inter = []
        for x in v:
            inter += [x, 7]
        return np.array(inter)[::2]
    if cont == 'ndarray[reversed view]':
        return np.array(v[::-1])[::-1]
    if cont == 'Series':
        return pd.Series(v)
    if cont == 'Series[shifted index]':
        return pd.Series(v, index=range(5, 5 + K))
    if cont == 'Series[permuted index]':
        idx = list(range(K))
        rng.shuffle(idx)
        return pd.Series(v, index=idx)
    if cont == 'Series[Int64]':
        return pd.Series(v, dtype='Int64')
    if cont == 'Series[float64]':
        return pd.Series(v, dtype='float64')
    if cont == 'Series[value_counts]':
        smp = ['CAS%sF' % ('L' * i) for i, c in enumerate(v) for _ in range(c)]
        rng.shuffle(smp)
        return pd.Series(smp).value_counts()
    if cont == 'Series[groupby size]':
        smp = [i * 3 - 1 for i, c in enumerate(v) for _ in range(c)]
        rng.shuffle(smp)
        return pd.Series(smp).groupby(smp).size()
    if cont == 'Index':
        return pd.Index(v)
    raise KeyError(cont)


COUNT_CONTAINERS = ('tuple', 'list[np.int64]', 'array.array', 'ndarray[float64]', 'ndarray[float32]', 'ndarray[object]',
                    'ndarray[read-only]', 'ndarray[strided view]', 'ndarray[reversed view]', 'Series', 'Series[shifted index]',
                    'Series[permuted index]', 'Series[Int64]', 'Series[float64]', 'Series[value_counts]', 'Series[groupby size]', 'Index')


def _content(obj):
    import pandas as pd
    if isinstance(obj, pd.DataFrame):
        return obj.to_numpy().tolist()
    return np.asarray(obj).tolist()


def _short(x, n=40):
    r = repr(x) if not isinstance(x, str) else x
    return r if len(r) <= n else r[:n - 12] + '...(%d chars)' % len(r)


def _show_sample(s):
    s = list(s)
    if len(s) <= 16:
        return '[%s]' % ', '.join(_short(repr(x)) for x in s)
    return '[%s, ... (%d elements)]' % (', '.join(_short(repr(x)) for x in s[:8]), len(s))


class _Jobs:
    """calls on the implementation queued with the count vector that decides the expected value; the exact values are fetched from
    the oracle in one batch, then the calls run in the order they were queued (so sequences on one object stay sequences)."""

    def __init__(self, ctx):
        self.ctx, self.jobs, self.pc2 = ctx, [], []

    def add(self, family, name, fn, args, what, counts=None, kwargs=None, pre=None, exp=None, pc2=None, keep=None, desc='', replay=None):
        """counts: count vector (what in pc / var / std); pc2: (tokens1, tokens2) for the model's two-sample value; exp: given exact value;
        pre: action just before the call (refill of a buffer); keep: (object, content) that must hold the same content afterwards"""
        j = dict(family=family, name=name, fn=fn, args=args, kwargs=kwargs or {}, what=what, counts=None if counts is None else tuple(counts),
                 pre=pre, exp=exp, pc2=pc2, keep=keep, desc=desc, replay=replay or {})
        if pc2 is not None:
            j['pc2_at'] = len(self.pc2)
            self.pc2.append(('api_pc2', [list(pc2[0]), list(pc2[1])]))
        self.jobs.append(j)

    def run(self):
        ctx = self.ctx
        vecs = sorted({j['counts'] for j in self.jobs if j['counts'] is not None})
        reqs = []
        for v in vecs:
            reqs += [('api_gen_pc_n', [list(v)]), ('api_gen_varpc_n', [list(v)])]
        outs = ctx.oracle.run_parallel(reqs + self.pc2)
        val = {v: (outs[2 * k], outs[2 * k + 1]) for k, v in enumerate(vecs)}
        p2 = outs[len(reqs):]
        scale = {}
        for n, j in enumerate(self.jobs):
            what, v = j['what'], j['counts']
            if j['pre'] is not None:
                j['pre']()
            if j['pc2'] is not None:
                num, den = p2[j['pc2_at']]
                exp = Fraction(num, den) if den else None
            elif j['exp'] is not None:
                exp = j['exp']
            else:
                (pdef, pq), (vdef, vq) = val[v]
                if what == 'pc':
                    exp = pq if pdef else None
                else:
                    exp = vq if vdef else None
                    if what == 'std' and vdef and vq < 0:
                        continue            # negative estimate: the root is not demanded (nan in the code), see C06_std
            vs = 0.0
            if what in ('var', 'std') and v is not None:
                if v not in scale:
                    scale[v] = var_scale(list(v))
                vs = scale[v]
            impl = _scalar(call_impl(j['fn'], *j['args'], **j['kwargs']))
            ctx.count('widened:' + j['family'])
            nt = exp is not None and (v is None or (sum(v) >= 4 and sum(1 for x in v if x > 0) >= 2))
            ctx.case(sample=dict(func=j['name'], input=j['desc'], impl=str(impl), model=str(exp)) if nt and n % 211 == 0 else None,
                     nontrivial_key=(j['family'], j['name'], j['desc'], v) if nt else None)
            if not _judge(impl, 'pc' if what == 'pc2' else what, exp, vs):
                shown = 'undefined (zero denominator)' if exp is None else '%s (= %r)' % (exp, float(exp)) if what != 'std' else \
                    'sqrt(%s) = %r' % (exp, math.sqrt(max(float(exp), 0.0)))
                ctx.violation('property', '%s on %s = %s but the formula the unbiasedness theorems are about gives %s%s' %
                              (j['name'], j['desc'], impl, shown, '' if v is None else ' for the counts %s' % show(list(v))),
                              dict(j['replay'], func=j['name'], family=j['family'], input=j['desc'], counts=None if v is None else list(v)[:200],
                                   impl=str(impl), expected=str(exp)),
                              site='stats.' + j['name'].split('[')[0].split('(')[0])
            if j['keep'] is not None:
                obj, before = j['keep']
                after = _content(obj)
                ctx.case(nontrivial_key=None)
                if after != before:
                    ctx.violation('property', 'the counts %s handed to %s hold %s afterwards: a second estimate from the same object is no '
                                  'longer the estimator of the theorems' % (show(before), j['name'], show(after)),
                                  dict(j['replay'], func='input-unchanged', via=j['name'], counts=before[:200], after=after[:200]), site='stats.pc_n')
            if len(ctx.violations) > 10:
                return False
        return True


def _patterns(rng, quick):
    pats = [[1, 1], [2, 1], [2, 2], [3, 1], [1, 1, 1, 1], [2, 1, 1], [4], [3, 2, 1], [2, 2, 2, 1, 1], [5, 3, 1, 1, 1, 1], [4, 4, 1], [6, 1]]
    for _ in range(2 if quick else 30):
        pats.append([rng.choice([1, 1, 1, 2, 2, 3, 4, 6]) for _ in range(rng.randint(6, 12))])
    return pats


def widened(ctx, st, pd):
    rng, quick = ctx.rng, ctx.quick
    J = _Jobs(ctx)

    # (c9) samples with MISSING labels: NumPy's unique puts all NaN of a float sample into one category and pc counts them like any other
    # element (N includes them, they coincide with each other); in a table a missing cell is an empty value IN ITS COLUMN, so
    # ('x', missing) and (missing, 'x') are different rows (seeded changes C06-r8m1, C06-r8m2)
    for t in range(10 if quick else 120):
        K = rng.randint(2, 5)
        cnt = [rng.choice([1, 2, 2, 3, 4]) for _ in range(K)]
        vals = [float(i) + 0.5 for i in range(K - 1)] + [float('nan')]
        sample = [vals[i] for i, c in enumerate(cnt) for _ in range(c)]
        rng.shuffle(sample)
        cont = ['ndarray', 'Series', 'list'][t % 3]
        obj = np.array(sample, dtype=np.float64) if cont == 'ndarray' else pd.Series(sample, dtype='float64') if cont == 'Series' else list(sample)
        J.add('missing labels', 'pc[float64 %s with a NaN category]' % cont, st.pc, (obj,), 'pc', counts=sorted(cnt, reverse=True),
              desc='%s of %s' % (cont, sample), replay=dict(sample=[repr(x) for x in sample], container=cont))
        if cont != 'list':
            J.add('missing labels', 'stdpc[float64 %s with a NaN category]' % cont, st.stdpc, (obj,), 'std', counts=sorted(cnt, reverse=True),
                  desc='%s of %s' % (cont, sample), replay=dict(sample=[repr(x) for x in sample], container=cont))
        # rows: the same value in different columns, the other cell missing
        rows = []
        for v, c in zip(['CAVRF', 'CASSL', 'CAT'][:K], cnt):
            rows += [(v, None)] * c + [(None, v)] * rng.choice([1, 2])
        rows += [('CAVRF', 'CASSL')] * rng.choice([1, 2]) + [(None, None)] * rng.choice([0, 2])
        rng.shuffle(rows)
        dfm = pd.DataFrame({'CDR3A': [r[0] for r in rows], 'CDR3B': [r[1] for r in rows]})
        J.add('missing labels', 'pc[DataFrame, missing cells in different columns]', st.pc, (dfm,), 'pc', counts=_counts_of(rows),
              desc='DataFrame with rows %s' % _show_sample(rows), replay=dict(rows=[list(r) for r in rows]))
    # (d0) float count vectors that are whole numbers only up to round-off (frequencies times depth, e.g. 0.29 * 100 = 28.999999999999996):
    # pc_n is the formula on the numbers as given - nothing is truncated or rounded to integers on the way (seeded change C06-r7m3)
    for t in range(12 if quick else 150):
        K = rng.randint(2, 6)
        ints = [rng.randint(1, 60) for _ in range(K)]
        N = sum(ints)
        fl = [(c / N) * N for c in ints] if t % 3 else [c * (1 - 2.0 ** -52) for c in ints]
        if t % 3 == 1:
            fl = [0.29 * 100, 0.57 * 100, 7.0, float(rng.randint(1, 9))]
        vals = [Fraction(x) for x in fl]
        Nq = sum(vals)
        exp = sum(x * (x - 1) for x in vals) / (Nq * (Nq - 1))
        J.add('float counts', 'pc_n[float64 counts, whole up to round-off]', st.pc_n, (np.array(fl, dtype=np.float64),), 'pc', exp=exp,
              desc='float64 counts %s' % [repr(x) for x in fl], replay=dict(counts_float=[x.hex() for x in fl]))
    # (d) count vectors in the container kinds a caller has at hand: pc_n, varpc_n, stdpc_n and pc_n again on the SAME object
    base = [list(c) for K in (1, 2, 3) for N in (2, 3, 4, 5, 6) for c in compositions(N, K)]
    if quick:
        base = [v for i, v in enumerate(base) if i % 3 == rng.randint(0, 2) or sum(v) == 4]
    for _ in range(6 if quick else 60):
        base.append([rng.choice([0, 1, 1, 2, 3, 10, 500, rng.randint(0, 10 ** 4)]) for _ in range(rng.randint(1, 30))])
    for v in base:
        if sum(v) < 2:
            continue
        for cont in COUNT_CONTAINERS:
            if cont in ('Series[value_counts]', 'Series[groupby size]') and sum(v) > 5000:
                continue
            obj = _count_container(cont, v, rng)
            vv = [int(x) for x in _content(obj)]                # what the container holds (value_counts / groupby drop empty categories, reorder)
            assert sorted(x for x in vv if x) == sorted(x for x in v if x), (cont, v, vv)
            mutable = cont not in ('tuple',)
            seq = [('pc_n', st.pc_n, 'pc'), ('varpc_n', st.varpc_n, 'var'), ('stdpc_n', st.stdpc_n, 'std'), ('pc_n', st.pc_n, 'pc')]
            if cont == 'ndarray[float32]':
                seq = seq[1:3]           # float32 in, float32 arithmetic out for pc_n: rounding of the container, not of the estimator
            if rng.random() < 0.5:
                seq = seq[1:3] + seq[:1] + seq[1:2]
            for nm, fn, what in seq:
                J.add('count container', '%s[%s]' % (nm, cont), fn, (obj,), what, counts=vv, keep=(obj, _content(obj)) if mutable else None,
                      desc='%s of %s' % (cont, show(vv)), replay=dict(container=cont))
    # range objects are count vectors too (0, 1, ..., K-1)
    for K in (3, 4, 7, 50):
        for nm, fn, what in (('pc_n', st.pc_n, 'pc'), ('varpc_n', st.varpc_n, 'var'), ('stdpc_n', st.stdpc_n, 'std')):
            J.add('count container', '%s[range]' % nm, fn, (range(K),), what, counts=list(range(K)), desc='range(%d)' % K, replay=dict(container='range'))

    # (e) ONE preallocated count buffer (array, Series, list) refilled in place with count vector after count vector of the same length
    # and the same total; pc_n / varpc_n / stdpc_n in rotating order
    for K, N in ((2, 5), (3, 4), (3, 6)) if quick else ((2, 5), (3, 4), (3, 6), (2, 9), (4, 6), (3, 8)):
        abuf = np.zeros(K, dtype=np.int64)
        sbuf = pd.Series(np.zeros(K, dtype=np.int64), index=['c%d' % i for i in range(K)])
        lbuf = [0] * K
        fns = [('pc_n', st.pc_n, 'pc'), ('varpc_n', st.varpc_n, 'var'), ('stdpc_n', st.stdpc_n, 'std')]
        comps = [list(c) for c in compositions(N, K)]
        # buffer after buffer (no call on another object between two refills of one buffer)
        for bname, buf in (('ndarray', abuf), ('Series', sbuf), ('list', lbuf)):
            rng.shuffle(comps)
            for r, v in enumerate(comps):
                def fill(buf=buf, v=v):
                    buf[:] = v
                order = fns[r % 3:] + fns[:r % 3]
                for q, (nm, fn, what) in enumerate(order):
                    J.add('count buffer refilled in place', '%s[refilled %s]' % (nm, bname), fn, (buf,), what, counts=v,
                          pre=fill if q == 0 else None, desc='one preallocated %s of %d counts holding %s (refill number %d)' % (bname, K, v, r + 1),
                          replay=dict(container=bname, refill=r + 1, K=K, N=N))

    # (f) many categories: K beyond 2^10, 2^12, 2^15, 2^16, 10^5 (2^20), mostly small counts and a few clones
    for K in (1000, 4097, 2 ** 15 + 1, 2 ** 16 + 3, 10 ** 5 + 3) if quick else (1000, 4097, 2 ** 15 + 1, 2 ** 16 + 3, 10 ** 5 + 3, 250000, 2 ** 20 + 1):
        v = [rng.choice([1, 1, 1, 1, 2, 2, 3, 5, 0]) for _ in range(K)]
        for _ in range(3):
            v[rng.randrange(K)] = rng.randint(50, 5000)
        for cont, obj in (('ndarray', np.array(v)), ('list', list(v)), ('Series', pd.Series(v, index=['c%d' % i for i in range(K)]))):
            if cont == 'list' and K > 5000:
                continue
            for nm, fn, what in (('pc_n', st.pc_n, 'pc'), ('varpc_n', st.varpc_n, 'var'), ('stdpc_n', st.stdpc_n, 'std')):
                J.add('many categories', '%s[%s]' % (nm, cont), fn, (obj,), what, counts=v, keep=(obj, list(v)) if cont != 'list' else None,
                      desc='%s of %s' % (cont, show(v)), replay=dict(container=cont, K=K))

    # (g) samples: label kinds x containers; pc, stdpc, pc again on the same object
    for pi, pat in enumerate(_patterns(rng, quick)):
        for kind in SAMPLE_KINDS:
            if kind == 'bool' and len(pat) > 2:
                continue
            labs = _labels(kind, len(pat))
            rng.shuffle(labs)
            s = [labs[i] for i, c in enumerate(pat) for _ in range(c)]
            rng.shuffle(s)
            v = _counts_of(s)
            assert v == sorted(pat, reverse=True)
            for cont in SAMPLE_CONTAINERS:
                if cont == 'DataFrame[1 column]' and kind not in STR_KINDS + ('int',):
                    continue
                if kind == 'uint64' and cont in ('list', 'tuple') and not os.environ.get('PV_PENDING_C06'):
                    continue        # NOTES.md, POSSIBLE DEFECT 1: a Python list mixing labels below 2^63 and above becomes float64 in np.asarray
                obj = _sample_container(cont, s, kind, rng)
                desc = '%s of %s labels %s' % (cont, kind, _show_sample(s))
                rep = dict(container=cont, kind=kind, sample=[_short(repr(x), 1100) for x in s])
                if not (cont == 'tuple' and len(s) == 2):         # a 2-tuple is the deprecated (alpha, beta) pair for pc
                    J.add('sample container x label kind', 'pc[%s]' % cont, st.pc, (obj,), 'pc', counts=v, desc=desc, replay=rep)
                if not cont.startswith('DataFrame'):
                    J.add('sample container x label kind', 'stdpc[%s]' % cont, st.stdpc, (obj,), 'std', counts=v, desc=desc, replay=rep)
                    if not (cont == 'tuple' and len(s) == 2) and (pi + len(cont)) % 3 == 0:
                        J.add('sample container x label kind', 'pc[%s, again]' % cont, st.pc, (obj,), 'pc', counts=v, desc=desc, replay=rep)
    # the argument by keyword
    J.add('sample container x label kind', 'pc[array=]', st.pc, (), 'pc', counts=[2, 1, 1], kwargs=dict(array=['b', 'a', 'b', 'c']), desc="array=['b','a','b','c']")

    # (h) sample sizes across 2^10, 2^15, 2^16 (N(N-1) beyond 32 bits) and 2^21 (N(N-1)(N-2) beyond 64 bits)
    sizes = [(1000, 50, 'int'), (1000, 300, 'str'), (2 ** 15 + 1, 1000, 'int'), (70000, 10 ** 4, 'int'), (70000, 5000, 'str'), (2 ** 21 + 5, 2000, 'int')]
    if not quick:
        sizes += [(2 ** 16 + 1, 3, 'int'), (4 * 10 ** 6, 10 ** 5, 'int'), (3 * 10 ** 5, 10 ** 5, 'str'), (2 ** 17, 2 ** 16 + 5, 'str')]
    for N, K, kind in sizes:
        nrng = np.random.RandomState(rng.randint(0, 2 ** 31 - 1))
        w = nrng.zipf(1.6, size=K).astype(float)
        idx = nrng.choice(K, size=N, p=w / w.sum())
        v = sorted((int(c) for c in np.bincount(idx, minlength=K) if c), reverse=True)
        if kind == 'int':
            smp = (idx * 7 - 3).astype(np.int64)
        else:
            smp = np.array(['CAS%sF' % ('SLGQ'[i % 4] * (1 + i % 17) + str(i)) for i in range(K)])[idx]
        assert len(np.unique(smp)) == len(v)
        desc = '%d %s labels over %d categories (largest clones %s)' % (N, kind, len(v), v[:4])
        for nm, fn, what in (('pc', st.pc, 'pc'), ('stdpc', st.stdpc, 'std')):
            J.add('large sample', '%s[N=%d]' % (nm, N), fn, (smp,), what, counts=v, desc=desc, replay=dict(N=N, K=K, kind=kind))
        if N <= 10 ** 5:
            J.add('large sample', 'pc[list, N=%d]' % N, st.pc, (smp.tolist(),), 'pc', counts=v, desc='list of ' + desc, replay=dict(N=N, K=K, kind=kind))
            J.add('large sample', 'stdpc[Series, N=%d]' % N, st.stdpc, (pd.Series(smp, index=np.arange(N)[::-1]),), 'std', counts=v,
                  desc='Series of ' + desc, replay=dict(N=N, K=K, kind=kind))

    # (i) two samples, the value itself (not only its expectation) against the model's pc2
    def tok2(a, b):
        d = {}
        t = [d.setdefault(x, len(d) + 1) for x in list(a) + list(b)]
        return t[:len(a)], t[len(a):]

    pairs = []
    for N1, N2, K in ((1, 1, 2), (1, 2, 2), (2, 1, 2), (2, 2, 2), (2, 3, 3), (3, 3, 2)) if quick else \
            ((1, 1, 2), (1, 2, 2), (2, 1, 2), (2, 2, 2), (2, 3, 3), (3, 3, 2), (3, 3, 3), (4, 2, 3), (1, 5, 3), (4, 4, 2)):
        for c1 in compositions(N1, K):
            for c2 in compositions(N2, K):
                pairs.append((list(c1), list(c2)))
    for _ in range(40 if quick else 600):
        K = rng.randint(2, 8)
        c1 = [rng.choice([0, 0, 1, 1, 2, 3, 5]) for _ in range(K)]
        c2 = [rng.choice([0, 0, 1, 1, 2, 3, 5]) for _ in range(K)]
        if sum(c1) and sum(c2):
            pairs.append((c1, c2))
    two_conts = (('list', 'list'), ('ndarray', 'ndarray'), ('Series', 'Series[permuted index]'), ('list', 'ndarray'), ('ndarray[object]', 'tuple'),
                 ('Series[str index]', 'list'), ('Index', 'ndarray[read-only]'), ('DataFrame[1 column]', 'DataFrame[1 column]'),
                 ('ndarray[strided view]', 'Series[duplicate index]'))
    two_kinds = ('int', 'str_cdr3', 'str_long', 'str_case_ws', 'int_wide', 'uint64', 'float', 'bytes', 'str_unicode', 'int8')
    for n, (c1, c2) in enumerate(pairs):
        kind = two_kinds[n % len(two_kinds)] if n % 3 else rng.choice(('str_cdr3', 'str_long', 'int'))
        labs = _labels(kind, len(c1))
        rng.shuffle(labs)
        a = [labs[i] for i, c in enumerate(c1) for _ in range(c)]
        b = [labs[i] for i, c in enumerate(c2) for _ in range(c)]
        rng.shuffle(a)
        rng.shuffle(b)
        ca, cb = two_conts[(n // 2) % len(two_conts)] if n % 2 else rng.choice(two_conts)
        if rng.random() < 0.5:
            ca, cb = cb, ca
        if 'DataFrame' in ca and kind not in STR_KINDS + ('int',):
            ca = cb = 'list'
        if (ca == 'tuple' and len(a) == 2) or (cb == 'tuple' and len(b) == 2):
            ca = cb = 'ndarray'
        if kind == 'uint64':        # a list of small labels only would become int64 and meet uint64 in float64 inside numpy: typed arrays on both sides
            ca, cb = [c if c not in ('list', 'tuple') else 'ndarray' for c in (ca, cb)]
        oa, ob = _sample_container(ca, a, kind, rng), _sample_container(cb, b, kind, rng)
        kw = n % 5 == 0
        J.add('two samples: value', 'pc(a, b)[%s, %s]' % (ca, cb), st.pc, (oa,) if kw else (oa, ob), 'pc2', kwargs=dict(array2=ob) if kw else None,
              pc2=tok2(a, b), desc='a = %s of %s, b = %s of %s (%s labels%s)' % (ca, _show_sample(a), cb, _show_sample(b), kind, ', array2 by keyword' if kw else ''),
              replay=dict(a=[_short(repr(x), 1100) for x in a], b=[_short(repr(x), 1100) for x in b], containers=[ca, cb], kind=kind))
    # categorical Series, each sample converted on its own (so the two carry DIFFERENT category lists), and a categorical against a plain list:
    # the elements are the labels, not their per-sample codes (seeded change C06-r9m2)
    for t_ in range(8 if quick else 60):
        labs = ['CASSL', 'CASSF', 'CATT', 'CAWW', 'CSVG'][:rng.randint(2, 5)]
        a = [rng.choice(labs) for _ in range(rng.randint(2, 7))]
        b = [rng.choice(labs[::-1][:max(2, len(labs) - 1)] + ['CQQQ']) for _ in range(rng.randint(2, 7))]
        oa = pd.Series(a).astype('category')
        ob = pd.Series(b).astype('category') if t_ % 2 else list(b)
        J.add('two samples: value', 'pc(a, b)[categorical Series, %s]' % ('categorical Series' if t_ % 2 else 'list'), st.pc, (oa, ob), 'pc2', pc2=tok2(a, b),
              desc='a = categorical %s, b = %s %s' % (a, 'categorical' if t_ % 2 else 'list', b), replay=dict(a=a, b=b, containers=['category', 'category' if t_ % 2 else 'list']))
        J.add('one sample: value', 'pc[categorical Series]', st.pc, (oa,), 'pc', counts=_counts_of(a), desc='categorical %s' % a, replay=dict(a=a))
    # numpy str arrays of different widths: labels of one sample longer than every label of the other, sharing its prefix
    for a, b in ((['CAS', 'CAT', 'CAS'], ['CASSL', 'CAS', 'CATTT', 'CASSL']), (['A', 'B'], ['AB', 'A', 'BA', 'B', 'B']),
                 (['CASSLGF'] * 3 + ['CASS'], ['CASS', 'CASSLGFQETQYF', 'CASSLGFQ'])):
        for ca, cb in (('ndarray', 'ndarray'), ('list', 'list'), ('ndarray', 'list'), ('Series', 'ndarray')):
            for x, y, cx, cy in ((a, b, ca, cb), (b, a, cb, ca)):
                J.add('two samples: value', 'pc(a, b)[%s, %s; widths differ]' % (cx, cy), st.pc,
                      (_sample_container(cx, x, 'str_cdr3', rng), _sample_container(cy, y, 'str_cdr3', rng)), 'pc2', pc2=tok2(x, y),
                      desc='a = %s of %s, b = %s of %s' % (cx, x, cy, y), replay=dict(a=x, b=y, containers=[cx, cy]))
    # label arrays of different numeric dtypes
    for da, db in (('int8', 'int64'), ('int64', 'uint8'), ('int32', 'int16'), ('float64', 'int64')):
        a, b = [3, 1, 3, 100, 7], [100, 3, 3, 2, 100, 100]
        J.add('two samples: value', 'pc(a, b)[%s, %s]' % (da, db), st.pc, (np.array(a, dtype=da), np.array(b, dtype=db)), 'pc2', pc2=tok2(a, b),
              desc='a = %s array %s, b = %s array %s' % (da, a, db, b), replay=dict(a=a, b=b, dtypes=[da, db]))
    # two preallocated buffers refilled in place
    for N1, N2, K in ((3, 4, 2), (2, 2, 3)) if quick else ((3, 4, 2), (2, 2, 3), (4, 4, 3), (5, 3, 2)):
        for kindb in ('int', 'str'):
            b1 = np.empty(N1, dtype=np.int64 if kindb == 'int' else '<U6')
            b2 = np.empty(N2, dtype=np.int64 if kindb == 'int' else '<U6')
            combos = [(c1, c2) for c1 in compositions(N1, K) for c2 in compositions(N2, K)]
            rng.shuffle(combos)
            for r, (c1, c2) in enumerate(combos[:12 if quick else 60]):
                a = [i for i, c in enumerate(c1) for _ in range(c)]
                b = [i for i, c in enumerate(c2) for _ in range(c)]
                rng.shuffle(a)
                rng.shuffle(b)
                la, lb = (a, b) if kindb == 'int' else (['CAS' + 'L' * i for i in a], ['CAS' + 'L' * i for i in b])

                def fill2(la=la, lb=lb, b1=b1, b2=b2):
                    b1[:] = la
                    b2[:] = lb
                J.add('two sample buffers refilled in place', 'pc(a, b)[refilled buffers]', st.pc, (b1, b2), 'pc2', pc2=tok2(la, lb), pre=fill2,
                      desc='two preallocated %s arrays holding a = %s, b = %s (refill number %d)' % (kindb, la, lb, r + 1),
                      replay=dict(a=la, b=lb, refill=r + 1, kind=kindb))
                if r % 4 == 3:      # one-sample calls on the same buffers in between
                    J.add('two sample buffers refilled in place', 'pc[refilled buffer, between two-sample calls]', st.pc, (b1,), 'pc',
                          counts=_counts_of(la), desc='the first of the two buffers, holding %s' % la, replay=dict(a=la, refill=r + 1, kind=kindb))
    # sizes where sum c1_i c2_i leaves 32 bits (exact rational of the specification; beyond the unary naturals of the extracted pc2)
    for N1, N2, K in ((10 ** 5, 10 ** 5, 2), (10 ** 5, 10 ** 5 + 3, 1), (2 ** 15 + 1, 3 * 10 ** 5, 40)) if quick else \
            ((10 ** 5, 10 ** 5, 2), (10 ** 5, 10 ** 5 + 3, 1), (2 ** 15 + 1, 3 * 10 ** 5, 40), (2 * 10 ** 6, 3 * 10 ** 6, 5), (10 ** 6, 10 ** 6, 10 ** 4)):
        nrng = np.random.RandomState(rng.randint(0, 2 ** 31 - 1))
        i1, i2 = nrng.randint(0, K, size=N1), nrng.randint(0, K + 2, size=N2)
        k1, k2 = np.bincount(i1, minlength=K + 2), np.bincount(i2, minlength=K + 2)
        exp = Fraction(sum(int(x) * int(y) for x, y in zip(k1, k2)), N1 * N2)
        for kindb in ('int', 'str'):
            names = np.array(['CASS%dF' % i for i in range(K + 2)])
            a, b = (i1 * 5 - 1, i2 * 5 - 1) if kindb == 'int' else (names[i1], names[i2])
            J.add('two samples: large', 'pc(a, b)[N1=%d, N2=%d]' % (N1, N2), st.pc, (a, b), 'pc2', exp=exp,
                  desc='%d and %d %s labels over %d / %d categories' % (N1, N2, kindb, K, K + 2), replay=dict(N1=N1, N2=N2, K=K, kind=kindb))

    # (j) samples whose elements are ROWS: DataFrame (one to three columns, any index), the deprecated (alpha, beta) pair; stdpc_joint
    xs, ys, zs = ['a', 'ab', 'abc', 'b', 'CASSL', ''], ['bc', 'c', '', 'x', 'CASSL', 'b'], [1, 12, 2, 21, 0, 121]
    universe = [(x, y, z) for x in xs for y in ys for z in zs]
    for trial in range(60 if quick else 400):
        ncol = rng.choice([1, 2, 2, 3])
        K = rng.randint(1, 7)
        rowsU = rng.sample(universe, K)
        if trial % 4 == 0:            # rows whose cells concatenate to the same text without a separator, and rows equal up to column order
            rowsU = [('a', 'bc', 1), ('ab', 'c', 1), ('abc', '', 1), ('', 'abc', 1), ('bc', 'a', 1), ('a', 'b', 12), ('a', 'b', 1)][:max(K, 2)]
        pat = [rng.choice([1, 1, 2, 3, 4]) for _ in rowsU]
        rows = [r for r, c in zip(rowsU, pat) for _ in range(c)]
        rng.shuffle(rows)
        cols = ['CDR3A', 'CDR3B', 'n'][:ncol]
        df = pd.DataFrame({c: [r[i] for r in rows] for i, c in enumerate(cols)})
        ikind = rng.choice(['default', 'permuted', 'str', 'duplicate'])
        if ikind == 'permuted':
            df.index = rng.sample(range(len(rows)), len(rows))
        elif ikind == 'str':
            df.index = ['s%d' % (len(rows) - i) for i in range(len(rows))]
        elif ikind == 'duplicate':
            df.index = [0] * len(rows)
        keyrows = [r[:ncol] for r in rows]
        v = _counts_of(keyrows)
        desc = 'DataFrame (%s index) with rows %s' % (ikind, _show_sample(keyrows))
        rep = dict(rows=[list(r) for r in keyrows], columns=cols, index=ikind)
        if len(rows) >= 2:
            J.add('row samples', 'pc[DataFrame, %d columns]' % ncol, st.pc, (df,), 'pc', counts=v, desc=desc, replay=rep)
        if ncol == 2 and len(rows) >= 2:
            al, be = [r[0] for r in rows], [r[1] for r in rows]
            forms = [('lists', (al, be)), ('ndarrays', (np.array(al), np.array(be))),
                     ('Series with different indexes', (pd.Series(al, index=rng.sample(range(len(rows)), len(rows))), pd.Series(be, index=range(100, 100 + len(rows)))))]
            fname, pair = forms[trial % 3]
            J.add('row samples', 'pc[(alpha, beta) pair of %s]' % fname, st.pc, (pair,), 'pc', counts=v, desc='pair of %s, rows %s' % (fname, _show_sample(keyrows)),
                  replay=dict(rep, form=fname))
        # two row samples
        rows2 = [r for r in rowsU for _ in range(rng.choice([0, 1, 2]))] + [rng.choice(universe)]
        rng.shuffle(rows2)
        df2 = pd.DataFrame({c: [r[i] for r in rows2] for i, c in enumerate(cols)})
        if ikind != 'default':
            df2.index = rng.sample(range(50, 50 + len(rows2)), len(rows2))
        k2 = [r[:ncol] for r in rows2]
        J.add('row samples', 'pc(a, b)[DataFrames, %d columns]' % ncol, st.pc, (df, df2), 'pc2', pc2=tok2(keyrows, k2),
              desc='a = %s, b = DataFrame with rows %s' % (desc, _show_sample(k2)), replay=dict(rep, rows2=[list(r) for r in k2]))
        if ncol == 2:
            # the deprecated (alpha, beta) pair as BOTH samples - by position, the second by keyword, both by keyword (seeded change C06-r6m2:
            # a conversion applied to positional arguments only)
            p1 = ([r[0] for r in rows], [r[1] for r in rows])
            p2_ = ([r[0] for r in rows2], [r[1] for r in rows2])
            style = ('positional', 'array2 by keyword', 'both by keyword')[trial % 3]
            a_, k_ = {'positional': ((p1, p2_), None), 'array2 by keyword': ((p1,), dict(array2=p2_)),
                      'both by keyword': ((), dict(array=p1, array2=p2_))}[style]
            J.add('row samples', 'pc(a, b)[(alpha, beta) pairs, %s]' % style, st.pc, a_, 'pc2', kwargs=k_, pc2=tok2(keyrows, k2),
                  desc='a = pair of lists with rows %s, b = pair of lists with rows %s (%s)' % (_show_sample(keyrows), _show_sample(k2), style),
                  replay=dict(rep, rows2=[list(r) for r in k2], form='pairs', style=style))
            if len(rows) >= 2 and trial % 2:
                J.add('row samples', 'pc[(alpha, beta) pair by keyword]', st.pc, (), 'pc', kwargs=dict(array=p1), counts=v,
                      desc='array=(alpha, beta) pair of lists, rows %s' % _show_sample(keyrows), replay=dict(rep, form='pair by keyword'))
        # stdpc_joint: the root of varpc_n of the counts of the joint values of the columns `on` (no cell contains the gap token)
        on = rng.sample(cols, rng.randint(1, ncol))
        gap = rng.choice(['_', '_', '|', '--', ' '])
        kon = [tuple(r[cols.index(c)] for c in on) for r in rows]
        dfe = df.copy()
        dfe.insert(rng.randint(0, ncol), 'other', [rng.choice(['u', 'v']) for _ in rows])
        kw = {} if gap == '_' else dict(gap_token=gap)
        J.add('stdpc_joint', 'stdpc_joint[on=%d of %d columns%s]' % (len(on), ncol + 1, '' if gap == '_' else ', gap_token=%r' % gap), st.stdpc_joint,
              (dfe, on) if trial % 3 else (dfe,), 'std', kwargs=kw if trial % 3 else dict(kw, on=on), counts=_counts_of(kon),
              desc='stdpc_joint(DataFrame (%s index) with columns %s, on=%s%s), joint values %s' %
                   (ikind, list(dfe.columns), on, '' if gap == '_' else ', gap_token=%r' % gap, _show_sample(kon)),
              replay=dict(rows=[list(map(str, r)) for r in dfe.to_numpy().tolist()], columns=list(dfe.columns), on=on, gap_token=gap, index=ikind))
    return J.run()


def run(ctx):
    import pyrepseq.stats as st
    import pandas as pd
    rng = ctx.rng
    ctx.rule = ('(a) every count vector with N <= Nmax over K <= 4 categories: pc_n, varpc_n, stdpc_n, stdpc, pc against the '
                'generated exact-rational functions; (b) random vectors up to N = 10^6, and count vectors stored as int8 ... uint64 arrays / Series '
                'whose terms n(n-1), n(n-1)(n-2) fit the dtype while their sums do not (N < 2*10^6); (c) the expectation itself on the '
                'implementation: for each (N, K, p) on a rational grid, sum over ALL count vectors of implementation value x exact '
                'multinomial probability compared with sum p^2 and Var(pc) (N = 2, 3: E[pc] only; p with a zero entry; one-point p); '
                '(d)-(j) the same functions on the input kinds a caller has: counts as tuple / list of numpy ints / array.array / range / float, '
                'object, read-only, strided arrays / Series with default, shifted, permuted index, Int64, float64, value_counts(), groupby().size() / '
                'Index; one count buffer refilled in place; K up to 10^5 categories; samples of int, wide int, uint64, int8, bool, float, '
                'str (shared prefixes, case / whitespace variants, 127-1000 characters, non-ASCII), bytes labels as list, tuple, str / object / '
                'read-only / strided array, Series (four index kinds), Index, one-column DataFrame; sample sizes across 2^15, 2^16, 2^21; the '
                'two-sample VALUE against the model pc2 (containers, label kinds, str arrays of different widths, buffers refilled in place, '
                'N1, N2 = 10^5); row samples (DataFrame, deprecated pair tuple) and stdpc_joint. '
                'non-trivial := at least two categories occupied, N >= 4')
    Nmax = 9 if ctx.quick else 13
    vecs = [c for K in (1, 2, 3, 4) for N in range(2, Nmax + 1) for c in compositions(N, K)]
    vecs = [list(c) for c in vecs]
    for _ in range(100 if ctx.quick else 2000):
        K = rng.randint(1, 40)
        vecs.append([rng.choice([0, 1, 1, 2, 3, 10, 500, rng.randint(0, 10 ** 5)]) for _ in range(K)])
    ctx.exhaustive = True
    entries = [(v, None, 3) for v in vecs] + narrow_vectors(rng, ctx.quick)
    # repertoires of realistic size: N above 2^21 (where N(N-1)(N-2) leaves int64) up to a few 10^8, a few dominant clones and a tail
    large = [[1500000, 600000, 100000], [2 ** 21, 1, 1], [2 ** 21 + 2], [3000000, 3000000]]
    for _ in range(12 if ctx.quick else 200):
        big = [rng.randint(10 ** 5, rng.choice([10 ** 6, 10 ** 7, 10 ** 8])) for _ in range(rng.randint(1, 4))]
        tail = [rng.choice([1, 1, 2, 3, 10, 1000]) for _ in range(rng.randint(0, 30))]
        v = big + tail
        if sum(v) > 2 ** 21:
            large.append(v)
    entries += [(v, 'int64', 3) for v in large]
    ctx.count('count_vectors_N_above_2^21', len(large))
    reqs = []
    for v, _, _ in entries:
        reqs += [('api_gen_pc_n', [v]), ('api_gen_varpc_n', [v])]
    outs = ctx.oracle.run_parallel(reqs)
    over = {}
    for k, (v, dt, order) in enumerate(entries):
        (pdef, pq), (vdef, vq) = outs[2 * k], outs[2 * k + 1]
        N = sum(v)
        nt = N >= 4 and sum(1 for x in v if x > 0) >= 2
        pexp, vexp = (pq if pdef else None), (vq if vdef else None)
        if dt is None:
            arr = np.array(v)
            sample = np.repeat(np.arange(len(v)), arr)
            checks = [('pc_n', st.pc_n, arr, pexp), ('pc_n[list]', st.pc_n, list(v), pexp), ('varpc_n', st.varpc_n, arr, vexp)]
            if N >= 2:
                checks.append(('pc[sample]', st.pc, sample, pexp))
            if vdef and vq >= 0:
                checks.append(('stdpc_n', st.stdpc_n, arr, ('sqrt', vq)))
                checks.append(('stdpc[sample]', st.stdpc, sample, ('sqrt', vq)))
            tag = ''
        else:
            # the same counts held in a fixed-width integer dtype (array and pandas Series); the same objects go through all calls
            arr = np.array(v, dtype=dt)
            ser = pd.Series(arr.copy(), index=['c%d' % i for i in range(len(v))])
            assert arr.tolist() == v
            top = int(np.iinfo(dt).max)
            for r in range(2, order + 1):
                if sum(ff(c, r) for c in v) > top:
                    over[(dt, order, r)] = over.get((dt, order, r), 0) + 1
            tag = '[%s]' % dt
            checks = [('pc_n' + tag, st.pc_n, arr, pexp), ('pc_n[Series %s]' % dt, st.pc_n, ser, pexp)]
            if order >= 3:
                checks += [('varpc_n' + tag, st.varpc_n, arr, vexp), ('varpc_n[Series %s]' % dt, st.varpc_n, ser, vexp)]
                if vdef and vq >= 0:
                    checks.append(('stdpc_n' + tag, st.stdpc_n, arr, ('sqrt', vq)))
        vs = var_scale(v) if vdef else 0.0
        for name, fn, arg, exp in checks:
            impl = call_impl(fn, arg)
            if impl[0] == 'ok' and isinstance(impl[1], pd.Series):
                impl = ('exc', 'returned a Series instead of a number')
            ctx.case(sample=dict(func=name, counts=v, impl=str(impl), model=str(exp)) if nt and k % 97 == 0 and len(v) < 50 else None,
                     nontrivial_key=(name, tuple(v)) if nt else None)
            if exp is None:
                # undefined in the model (zero denominator): implementation gives nan/inf or raises
                ok = impl[0] == 'exc' or not np.isfinite(impl[1])
            elif isinstance(exp, tuple):
                ok = impl[0] == 'ok' and (abs(float(impl[1]) - math.sqrt(exp[1])) <= 1e-9 * max(1, math.sqrt(exp[1])) or
                                          (exp[1] < 1e-18 and (impl[1] != impl[1] or abs(impl[1]) < 1e-6)))
            else:
                ok = impl[0] == 'ok' and close(impl[1], exp, rel=1e-9, abs_=1e-12)
                if ok and name.startswith('varpc_n'):
                    # the three terms of varpc_n cancel; measured against their size, not against an absolute floor
                    ok = abs(float(impl[1]) - float(exp)) <= 1e-9 * abs(float(exp)) + 1e-10 * vs
            if not ok:
                ctx.violation('property', '%s(%s) = %s but the formula the unbiasedness theorems are about gives %s' %
                              (name, show(v), impl, exp if not isinstance(exp, Fraction) else '%s (= %r)' % (exp, float(exp))),
                              dict(func=name, dtype=dt, counts=v, impl=str(impl), expected=str(exp)),
                              site='stats.' + name.split('[')[0])
        # the estimators are functions of the counts: the caller's count vector is the same afterwards
        for nm, obj in ([('array', arr)] if dt is None else [('array', arr), ('Series', ser)]):
            after = np.asarray(obj).tolist()
            ctx.case(nontrivial_key=None)
            if after != v or str(np.asarray(obj).dtype) != (dt or str(np.array(v).dtype)):
                ctx.violation('property', 'the count %s %s%s handed to pc_n / varpc_n / stdpc_n holds %s afterwards: a second estimate from the '
                              'same counts is no longer the estimator of the theorems' % (nm, show(v), tag, show(after)),
                              dict(func='input-unchanged', dtype=dt, counts=v, after=after), site='stats.pc_n')
        if k < 30:
            ctx.add_vm('api_gen_varpc_n', [v], outs[2 * k + 1])
        if len(ctx.violations) > 10:
            return
    # (a') a resampling loop: ONE preallocated buffer per sample size, refilled in place with sample after sample (bootstrap / permutation
    # buffer), pc and stdpc evaluated on it each time - every value is the estimator of the sample the buffer holds NOW
    for N in range(2, Nmax + 1):
        for kind in ('int', 'str'):
            buf = np.empty(N, dtype=np.int64) if kind == 'int' else np.empty(N, dtype='<U4')
            seen = 0
            for k, (v, dt, order) in enumerate(entries):
                if dt is not None or sum(v) != N or len(v) > 4:
                    continue
                (pdef, pq), (vdef, vq) = outs[2 * k], outs[2 * k + 1]
                smp = np.repeat(np.arange(len(v)), np.array(v))
                rng.shuffle(smp)
                buf[:] = smp if kind == 'int' else ['c%d' % x for x in smp]
                seen += 1
                ctx.count('resampling_buffer_refills')
                for name, fn, exp in (('pc', st.pc, pq if pdef else None), ('stdpc', st.stdpc, ('sqrt', vq) if vdef and vq >= 0 else 'skip')):
                    if exp == 'skip':
                        continue
                    impl = call_impl(fn, buf)
                    ctx.case(nontrivial_key=('buffer', name, kind, tuple(v)) if seen > 1 else None)
                    if exp is None:
                        ok = impl[0] == 'exc' or not np.isfinite(impl[1])
                    elif isinstance(exp, tuple):
                        ok = impl[0] == 'ok' and (abs(float(impl[1]) - math.sqrt(exp[1])) <= 1e-9 * max(1, math.sqrt(exp[1])) or
                                                  (exp[1] < 1e-18 and (impl[1] != impl[1] or abs(impl[1]) < 1e-6)))
                    else:
                        ok = impl[0] == 'ok' and close(impl[1], exp, rel=1e-9, abs_=1e-12)
                    if not ok:
                        ctx.violation('property', '%s(buffer) = %s for the buffer holding a sample with counts %s (refill number %d of one '
                                      'preallocated %s array of size %d), but the formula gives %s' % (name, impl, show(v), seen, kind, N, exp),
                                      dict(func=name + '[refilled buffer]', counts=v, refill=seen, kind=kind, impl=str(impl), expected=str(exp)),
                                      site='stats.%s[refilled buffer]' % name)
            if len(ctx.violations) > 10:
                return
    # (d)-(j) widened input kinds
    if not widened(ctx, st, pd):
        return
    # the generator is only worth something if sums beyond the dtype actually occurred (term by term in range)
    for dt in NARROW_DTYPES[:5]:
        for order, r in ((2, 2), (3, 2), (3, 3)):
            ctx.case(nontrivial_key=('overflowing-sum', dt, order, r))
            if not over.get((dt, order, r)):
                ctx.violation('proof', 'generator: no %s count vector (all terms of order %d in range) whose sum of order-%d falling '
                              'factorials exceeds the dtype' % (dt, order, r), dict(dtype=dt, order=order, r=r), site='harness.c06')
    ctx.note('fixed-width count vectors with a sum beyond the dtype range, dtype/terms in range up to order/order of the sum: %s' %
             ', '.join('%s/%d/%d: %d' % (d, o, r, c) for (d, o, r), c in sorted(over.items())))
    # (c) unbiasedness evaluated on the implementation by exact enumeration
    grid = [(N, K) for N in (4, 5, 6, 7) for K in (2, 3)] if ctx.quick else \
           [(N, K) for N in range(4, 11) for K in (2, 3, 4) if not (N > 8 and K == 4)]
    # N = 2, 3: E[pc] only (the variance estimator needs N >= 4); K = 1: the one-point distribution
    grid = [(2, 2), (2, 3), (3, 2), (3, 3), (4, 1), (2, 1)] + grid + ([] if ctx.quick else [(2, 4), (3, 4), (2, 6), (3, 5)])
    for N, K in grid:
        for trial in range(2 if ctx.quick else 12):
            w = [rng.randint(1, 6) for _ in range(K)]
            if trial % 2 == 1 and K >= 3:
                w[rng.randrange(K)] = 0          # a category of probability zero
                ctx.count('expectation_p_with_a_zero_entry')
            p = [Fraction(x, sum(w)) for x in w]
            e_pc = e_pc2 = e_var = Fraction(0)
            for c in compositions(N, K):
                pr = multinomial_prob(c, p)
                a = np.array(c)
                if pr == 0:
                    continue
                g1, g2 = call_impl(st.pc_n, a), (call_impl(st.varpc_n, a) if N >= 4 else ('ok', 0.0))
                if g1[0] != 'ok' or g2[0] != 'ok':
                    ctx.violation('property', 'pc_n / varpc_n raised %s on the count vector %s (probability %s under p=%s): the estimator has no '
                                  'expectation there' % ((g1, g2), list(c), pr, p), dict(counts=list(c), p=[str(q) for q in p]), site='stats.pc_n')
                    return
                pcv = Fraction(float(g1[1])).limit_denominator(10 ** 12)
                vv = Fraction(float(g2[1])).limit_denominator(10 ** 12)
                e_pc += pr * pcv
                e_pc2 += pr * pcv * pcv
                e_var += pr * vv
            s2 = sum(q * q for q in p)
            ctx.case(sample=dict(N=N, K=K, p=[str(q) for q in p], E_pc=float(e_pc), sum_p2=float(s2),
                                 E_varpc=float(e_var), Var_pc=float(e_pc2 - e_pc ** 2)),
                     nontrivial_key=('E', N, K, tuple(p)))
            if abs(e_pc - s2) > 1e-9:
                ctx.violation('property', 'E[pc_n] = %s differs from sum p^2 = %s for N=%d p=%s' % (float(e_pc), float(s2), N, p),
                              dict(N=N, K=K, p=[str(q) for q in p], E_pc=str(e_pc), sum_p2=str(s2)), site='stats.pc_n')
            if N >= 4 and abs(e_var - (e_pc2 - e_pc ** 2)) > 1e-9:
                ctx.violation('property', 'E[varpc_n] = %s differs from Var(pc) = %s for N=%d p=%s' %
                              (float(e_var), float(e_pc2 - e_pc ** 2), N, p),
                              dict(N=N, K=K, p=[str(q) for q in p], E_var=str(e_var), Var=str(e_pc2 - e_pc ** 2)),
                              site='stats.varpc_n')
    # two-sample estimator, exact enumeration on the implementation
    for N1, N2, K in ([(2, 3, 2), (3, 2, 3), (1, 4, 2), (3, 3, 2), (4, 1, 3), (1, 1, 3)] if ctx.quick else [(1, 1, 3), (3, 3, 3), (1, 4, 2), (2, 3, 2), (3, 2, 3), (4, 4, 3), (1, 5, 3), (5, 1, 2), (3, 6, 3), (6, 3, 2), (2, 2, 4), (5, 5, 2)]):
        w1 = [rng.randint(1, 5) for _ in range(K)]
        w2 = [rng.randint(1, 5) for _ in range(K)]
        p = [Fraction(x, sum(w1)) for x in w1]
        q = [Fraction(x, sum(w2)) for x in w2]
        e = Fraction(0)
        for c1 in compositions(N1, K):
            for c2 in compositions(N2, K):
                s1 = np.repeat(np.arange(K), c1)
                s2_ = np.repeat(np.arange(K), c2)
                g = call_impl(st.pc, s1, s2_)
                if g[0] != 'ok':
                    ctx.violation('property', 'pc(%s, %s) raised %s: the two-sample estimator is undefined on a sample of positive probability, '
                                  'so E[pc(a,b)] = sum p_i q_i fails' % (s1.tolist(), s2_.tolist(), g[1]),
                                  dict(a=s1.tolist(), b=s2_.tolist(), p=[str(x) for x in p], q=[str(x) for x in q]), site='stats.pc')
                    return
                v = Fraction(float(g[1])).limit_denominator(10 ** 12)
                e += multinomial_prob(c1, p) * multinomial_prob(c2, q) * v
        tgt = sum(a * b for a, b in zip(p, q))
        ctx.case(sample=dict(N1=N1, N2=N2, p=[str(x) for x in p], q=[str(x) for x in q], E=float(e), target=float(tgt)),
                 nontrivial_key=('E2', N1, N2, tuple(p), tuple(q)))
        if abs(e - tgt) > 1e-9:
            ctx.violation('property', 'E[pc(a,b)] = %s differs from sum p_i q_i = %s' % (float(e), float(tgt)),
                          dict(N1=N1, N2=N2, p=[str(x) for x in p], q=[str(x) for x in q]), site='stats.pc')
    ctx.assumptions += ['float64 evaluation of the formulas within 1e-9 of the exact rational on the enumerated vectors',
                        'Coq.Reals axioms: ClassicalDedekindReals.sig_forall_dec, FunctionalExtensionality.functional_extensionality_dep',
                        'the two-sample estimator pc2R is hand-written (np.unique/intersect1d route tied by C02 correspondence)']


def replay(ctx, obj):
    run(ctx)
