"""Shared machinery of all checks: oracle access, Coq obligations, evidence,
violations and known findings.  Runs under /venv/bin/python with PYTHONPATH=/repo."""
import json, os, random, re, subprocess, sys, time, hashlib, resource, traceback
from fractions import Fraction

HERE = os.path.dirname(os.path.abspath(__file__))
ROOT = os.path.dirname(HERE)
sys.path.insert(0, HERE)
import proto
from sigs import SIGS

COQ = os.path.join(ROOT, 'coq')
BUILD = os.path.join(ROOT, 'build')
ALLOWED_AXIOMS = {
    # axioms declared by Coq's standard library (Reals / FunctionalExtensionality), named in DESIGN.md section 3
    'ClassicalDedekindReals.sig_forall_dec',
    'ClassicalDedekindReals.sig_not_dec',
    'FunctionalExtensionality.functional_extensionality_dep',
    'functional_extensionality_dep',
    'sig_forall_dec', 'sig_not_dec',
    'Classical_Prop.classic', 'classic',
}
FORBIDDEN = re.compile(
    r'\b(Admitted|admit|Axiom|Axioms|Parameter|Parameters|Conjecture|Conjectures|Admit Obligations|'
    r'Unset Guard Checking|Unset Positivity Checking|Unset Universe Checking|bypass_check|'
    r'type-in-type|impredicative-set|native_compute)\b')


def _limits():
    try:
        resource.setrlimit(resource.RLIMIT_STACK, (resource.RLIM_INFINITY, resource.RLIM_INFINITY))
    except Exception:
        pass


class Oracle:
    """Batch interface to build/oracle (the extracted Coq model)."""

    def __init__(self):
        self.path = os.path.join(BUILD, 'oracle')
        self.calls = 0

    def run(self, requests, timeout=3000):
        """requests: list of (func, args). Returns list of decoded results
        (an Exception instance for a request the model rejects)."""
        if not requests:
            return []
        lines = []
        for func, args in requests:
            argt, _ = SIGS[func]
            lines.append(proto.encode_request(func, args, argt))
        p = subprocess.run([self.path], input='\n'.join(lines) + '\n', capture_output=True, text=True,
                           timeout=timeout, preexec_fn=_limits)
        outs = p.stdout.split('\n')
        if p.returncode != 0 or len(outs) < len(requests):
            raise RuntimeError('oracle crashed rc=%s after %d/%d answers: %s' %
                               (p.returncode, len(outs) - 1, len(requests), p.stderr[-500:]))
        res = []
        for (func, args), line in zip(requests, outs):
            try:
                res.append(proto.decode_result(line, SIGS[func][1]))
            except RuntimeError as e:
                res.append(e)
        self.calls += len(requests)
        return res

    def run_parallel(self, requests, nproc=8, timeout=3000):
        if len(requests) < 4 * nproc:
            return self.run(requests, timeout)
        from concurrent.futures import ThreadPoolExecutor
        chunks = [requests[i::nproc] for i in range(nproc)]
        with ThreadPoolExecutor(nproc) as ex:
            outs = list(ex.map(lambda c: self.run(c, timeout), chunks))
        res = [None] * len(requests)
        for k, o in enumerate(outs):
            res[k::nproc] = o
        return res


# ------------------------------------------------------------------ Coq side
def static_scan():
    """Forbidden vernacular anywhere in the development (comments stripped)."""
    bad = []
    for dp, dn, fn in os.walk(COQ):
        if 'cases' in dp.split(os.sep):
            continue
        for f in fn:
            if not f.endswith('.v'):
                continue
            p = os.path.join(dp, f)
            text = open(p).read()
            text = strip_comments(text)
            for m in FORBIDDEN.finditer(text):
                bad.append('%s: %s' % (os.path.relpath(p, ROOT), m.group(0)))
            # Variable/Hypothesis/Context outside a section
            depth = 0
            for line in text.split('\n'):
                s = line.strip()
                if re.match(r'^Section\b', s):
                    depth += 1
                elif re.match(r'^End\b', s) and depth > 0:
                    depth -= 1
                elif depth == 0 and re.match(r'^(Variable|Variables|Hypothesis|Hypotheses|Context)\b', s):
                    bad.append('%s: %s outside a section' % (os.path.relpath(p, ROOT), s[:40]))
    return bad


def strip_comments(text):
    out, depth, i = [], 0, 0
    while i < len(text):
        if text.startswith('(*', i):
            depth += 1
            i += 2
        elif text.startswith('*)', i) and depth > 0:
            depth -= 1
            i += 2
        else:
            if depth == 0:
                out.append(text[i])
            i += 1
    return ''.join(out)


# theorem files that state "function regenerated from the source = hand-written model" and the properties resting on them
SOURCE_TIES = {'C01': ['C01g', 'C03g'], 'C03': ['C01g', 'C12g', 'C03g', 'C04g'], 'C04': ['C04r', 'C12g', 'C11g', 'C04g', 'C11h'], 'C11': ['C04r', 'C11g', 'C11h'], 'C07': ['C01g', 'C12g', 'C11g', 'C03g', 'C04g', 'C04r', 'C11h'], 'C14': ['C01g', 'C03g', 'C04g', 'C04r', 'C14h', 'C11h'],
               'C08': ['C08g'], 'C12': ['C12g', 'C12h', 'C12i'], 'C10': ['C10g', 'C10h'], 'C02': ['C02g'], 'C16': ['C16g'], 'C13': ['C13g'], 'C17': ['C17g'], 'C19': ['C19g'], 'C15': ['C15g']}


def coq_props(pid):
    """Re-check coq/props/<pid>.v (and the source-tie theorem files of SOURCE_TIES) with coqc and parse the Print Assumptions
    blocks.  Returns dict(ok, theorems, discharged, axioms, bad_axioms, log)."""
    files = [pid] + [f for f in SOURCE_TIES.get(pid, []) if os.path.exists(os.path.join(COQ, 'props', f + '.v'))]
    res = None
    for f in files:
        r = _coq_props_one(f)
        if res is None:
            res = r
        else:
            res['ok'] = res['ok'] and r['ok']
            res['theorems'] += r['theorems']
            res['examples'] += r['examples']
            res['discharged'] = (res['discharged'] + r['discharged']) if res['ok'] else 0
            res['axioms'] = sorted(set(res['axioms']) | set(r['axioms']))
            res['bad_axioms'] = sorted(set(res['bad_axioms']) | set(r['bad_axioms']))
            res['closed_blocks'] += r['closed_blocks']
            res['print_assumptions'] += r['print_assumptions']
            if not r['ok']:
                res['log'] = 'props/%s.v: ' % f + r['log']
            res['wall'] += r['wall']
            res['cmd'] += ' && coqc -R . PV props/%s.v' % f
    return res


def _coq_props_one(pid):
    src = os.path.join(COQ, 'props', pid + '.v')
    text = strip_comments(open(src).read())
    theorems = re.findall(r'^\s*(?:Theorem|Lemma|Corollary)\s+(\w+)', text, re.M)
    examples = re.findall(r'^\s*Example\s+(\w+)', text, re.M)
    t0 = time.time()
    p = subprocess.run(['timeout', '600', 'coqc', '-R', '.', 'PV',
                        '-w', '-notation-overridden,-deprecated-hint-without-locality,-deprecated-syntactic-definition,-deprecated-instance-without-locality',
                        os.path.join('props', pid + '.v')],
                       cwd=COQ, capture_output=True, text=True)
    out = p.stdout + p.stderr
    ok = p.returncode == 0
    axioms, closed = set(), 0
    # blocks: "Closed under the global context" or "Axioms:\n name : type ..."
    for blk in re.split(r'\n(?=Closed under the global context|Axioms:)', '\n' + p.stdout):
        blk = blk.strip()
        if blk.startswith('Closed under the global context'):
            closed += 1
        elif blk.startswith('Axioms:'):
            for m in re.finditer(r'^([A-Za-z_][\w\.\']*)\s*:', blk[len('Axioms:'):], re.M):
                axioms.add(m.group(1))
    bad = sorted(a for a in axioms if a not in ALLOWED_AXIOMS and a.split('.')[-1] not in ALLOWED_AXIOMS
                 and not a.startswith('PrimFloat.') and not a.startswith('Uint63.') and not a.startswith('PrimInt63.')
                 and not a.startswith('FloatOps.') and not a.startswith('FloatAxioms.'))
    n_pa = len(re.findall(r'^\s*Print Assumptions\b', text, re.M))
    return dict(ok=ok, theorems=theorems, examples=examples, discharged=len(theorems) if ok else 0,
                axioms=sorted(axioms), bad_axioms=bad, closed_blocks=closed, print_assumptions=n_pa,
                log=out[-3000:], wall=time.time() - t0,
                cmd='make -C coq (full .vo build) && coqc -R . PV props/%s.v' % pid)


def coqchk(pid):
    """Independent re-check of props/<pid>.vo and everything it depends on (thorough tier). Returns dict(ok, axioms, log)."""
    t0 = time.time()
    mods = ['PV.props.' + f for f in [pid] + [g for g in SOURCE_TIES.get(pid, []) if os.path.exists(os.path.join(COQ, 'props', g + '.vo'))]]
    p = subprocess.run(['timeout', '1500', 'coqchk', '-silent', '-o', '-R', '.', 'PV'] + mods, cwd=COQ,
                       capture_output=True, text=True, preexec_fn=_limits)
    out = p.stdout + p.stderr
    axioms = []
    m = re.search(r'\* Axioms:(.*?)\n\s*\n\* ', out, re.S)
    if m:
        axioms = [x.strip() for x in m.group(1).split('\n') if x.strip() and x.strip() != '<none>']
    unsafe = []
    for key in ('type-in-type', 'unsafe (co)fixpoints', 'positivity is assumed'):
        mm = re.search(re.escape(key) + r':(.*?)\n\s*\n', out + '\n\n', re.S)
        if mm and '<none>' not in mm.group(1):
            unsafe.append(key + ': ' + mm.group(1).strip()[:200])
    # coqchk -o lists every axiom of every LOADED library, not only those a theorem depends on: importing PrimFloat / Uint63 (C04r)
    # brings in the kernel primitives and the standard library's specification axioms of primitive integers and floats
    STDLIB_PRIMITIVE_PREFIXES = ('Coq.Floats.PrimFloat.', 'Coq.Floats.FloatAxioms.', 'Coq.Floats.FloatOps.', 'Coq.Floats.SpecFloat.',
                                 'Coq.Numbers.Cyclic.Int63.PrimInt63.', 'Coq.Numbers.Cyclic.Int63.Uint63.', 'Coq.Numbers.Cyclic.Int63.Sint63.',
                                 'Coq.Numbers.Cyclic.Int63.Uint63Axioms.', 'Coq.Numbers.Cyclic.Int63.Sint63Axioms.')
    bad = [a for a in axioms if a.split('.')[-1] not in ALLOWED_AXIOMS and a not in ALLOWED_AXIOMS and not a.startswith(STDLIB_PRIMITIVE_PREFIXES)]
    return dict(ok=p.returncode == 0 and not unsafe and not bad, axioms=axioms, bad_axioms=bad, unsafe=unsafe, log=out[-1500:],
                wall=round(time.time() - t0, 1), cmd='coqchk -silent -o -R . PV ' + ' '.join(mods))


def vm_crosscheck(pid, cases, shard=25, nproc=8, limit=150):
    """cases: list of (func, args, expected) where expected came from the OCaml oracle.
    Writes coq/cases/<pid>_<n>.v files proving func args = expected by vm_compute,
    so extraction is cross-checked against evaluation inside Coq's kernel."""
    d = os.path.join(COQ, 'cases')
    os.makedirs(d, exist_ok=True)
    for f in os.listdir(d):
        if f.startswith(pid + '_'):
            os.remove(os.path.join(d, f))
    files = []
    for s in range(0, len(cases), shard):
        name = '%s_%d' % (pid, s // shard)
        lines = ['From Coq Require Import List NArith ZArith QArith Bool Arith.',
                 'From PV Require Import %s.' % ' '.join('extract.' + f[:-2] for f in sorted(os.listdir(os.path.join(COQ, 'extract')))
                                                         if f.startswith('Api') and f.endswith('.v')),
                 'Import ListNotations.', 'Open Scope list_scope.']
        for k, (func, args, exp) in enumerate(cases[s:s + shard]):
            argt, rest = SIGS[func]
            call = ' '.join([func] + ['(%s)' % proto.coq_term(a, t) for a, t in zip(args, argt)])
            lines.append('Goal (%s) = (%s : %s). Proof. vm_compute. reflexivity. Qed.' %
                         (call, proto.coq_term(exp, rest), proto.coq_type(rest)))
        path = os.path.join(d, name + '.v')
        open(path, 'w').write('\n'.join(lines) + '\n')
        files.append(name + '.v')
    if not files:
        return dict(ok=True, cases=0, failures=[])
    from concurrent.futures import ThreadPoolExecutor

    def one(f):
        p = subprocess.run(['timeout', str(limit), 'coqc', '-R', '..', 'PV', '-w', '-all', f], cwd=d,
                           capture_output=True, text=True, preexec_fn=_limits)
        return f, p.returncode, (p.stdout + p.stderr)[-1500:]
    with ThreadPoolExecutor(nproc) as ex:
        outs = list(ex.map(one, files))
    # a kernel evaluation that does not finish in time is not a disagreement: it is reported as not evaluated
    timed_out = [f for f, rc, log in outs if rc == 124]
    fails = [(f, log) for f, rc, log in outs if rc not in (0, 124)]
    for f in os.listdir(d):
        if f.startswith(pid + '_') and not f.endswith('.v'):
            try:
                os.remove(os.path.join(d, f))
            except OSError:
                pass
    return dict(ok=not fails, cases=len(cases), failures=fails, timed_out=timed_out)


# ------------------------------------------------------------------ context
class Ctx:
    def __init__(self, pid, tier, seed):
        self.pid, self.tier, self.seed = pid, tier, seed
        self.rng = random.Random(seed * 1000003 + int(pid[1:]))
        self.oracle = Oracle()
        self.t0 = time.time()
        self.evaluations = 0
        self.nontrivial = set()
        self.samples = []
        self.dist = {}
        self.violations = []      # list of dict(kind, what, replay)
        self.notes = []
        self.rule = ''
        self.vm_cases = []
        self.exhaustive = False
        self.assumptions = []
        self.extra = {}

    @property
    def quick(self):
        return self.tier == 'quick'

    def count(self, key, n=1):
        self.dist[key] = self.dist.get(key, 0) + n

    def case(self, sample=None, nontrivial_key=None):
        self.evaluations += 1
        if nontrivial_key is not None:
            self.nontrivial.add(hashlib.md5(repr(nontrivial_key).encode()).hexdigest())
        if sample is not None and len(self.samples) < 6:
            self.samples.append(sample)

    def violation(self, kind, what, replay, site=None):
        """kind: 'property' (spec fails on the implementation's output: a concrete failing input),
        'correspondence' (model and implementation differ, spec not shown to fail),
        'proof' (an obligation no longer checks)."""
        if kind == 'correspondence' and sum(1 for v in self.violations if v['kind'] == kind and v.get('site') == site) >= 3:
            return          # enough of these to localise the break; keep looking for a concrete failing input
        self.violations.append(dict(kind=kind, what=what, replay=replay, site=site))

    def nprop(self):
        return sum(1 for v in self.violations if v['kind'] == 'property')

    def note(self, s):
        self.notes.append(s)

    def add_vm(self, func, args, expected):
        cap = 60 if self.quick else 400
        if len(self.vm_cases) < cap and not isinstance(expected, Exception):
            self.vm_cases.append((func, args, expected))


def canon(v):
    """Canonicalise implementation output for diffing / JSON."""
    import numpy as np
    if isinstance(v, (np.integer,)):
        return int(v)
    if isinstance(v, (np.floating,)):
        return float(v)
    if isinstance(v, np.ndarray):
        return [canon(x) for x in v.tolist()]
    if isinstance(v, (list, tuple)):
        return [canon(x) for x in v]
    if isinstance(v, (set, frozenset)):
        return sorted(canon(x) for x in v)
    if isinstance(v, Fraction):
        return str(v)
    return v


def jsonable(v):
    try:
        json.dumps(v)
        return v
    except TypeError:
        if isinstance(v, dict):
            return {str(k): jsonable(x) for k, x in v.items()}
        if isinstance(v, (list, tuple, set, frozenset)):
            return [jsonable(x) for x in v]
        if isinstance(v, Fraction):
            return str(v)
        try:
            return canon(v) if canon(v) is not v else repr(v)
        except Exception:
            return repr(v)


def exc_class(e):
    for c in (AssertionError, ValueError, TypeError, KeyError, IndexError, NameError, ZeroDivisionError,
              OverflowError, NotImplementedError):
        if isinstance(e, c):
            return c.__name__
    return 'Other:' + type(e).__name__


class ImplTimeout(BaseException):
    pass


_TIMEOUTS = [0]


def call_impl(f, *a, **k):
    """Returns ('ok', value) or ('exc', class name).  An implementation call that gives no answer within PV_CALL_TIMEOUT seconds
    (default 300; the inputs of the harnesses take milliseconds to seconds) is abandoned and reported as ('exc', 'Timeout...') - a call
    that does not return has not returned the stated result; after two such calls the limit drops to 30 s so that a check still ends.
    Only in the main thread and only when no other interval timer is armed (forked children of C20 arm their own alarm)."""
    import warnings, signal, threading
    limit = float(os.environ.get('PV_CALL_TIMEOUT', '300'))
    if _TIMEOUTS[0] >= 2:
        limit = min(limit, 30.0)
    armed = False
    if limit > 0 and threading.current_thread() is threading.main_thread() and signal.getitimer(signal.ITIMER_REAL)[0] == 0:
        def on_alarm(signum, frame):
            raise ImplTimeout()
        old = signal.signal(signal.SIGALRM, on_alarm)
        signal.setitimer(signal.ITIMER_REAL, limit)
        armed = True
    try:
        with warnings.catch_warnings():
            warnings.simplefilter('ignore')
            return ('ok', f(*a, **k))
    except ImplTimeout:
        _TIMEOUTS[0] += 1
        return ('exc', 'Timeout(no answer within %g s)' % limit)
    except Exception as e:
        return ('exc', exc_class(e))
    finally:
        if armed:
            signal.setitimer(signal.ITIMER_REAL, 0)
            signal.signal(signal.SIGALRM, old)


def close(x, q, rel=1e-9, abs_=1e-12):
    """float x equals exact rational q within tolerance."""
    import math
    if q is None:
        return x is None or (isinstance(x, float) and math.isnan(x))
    if x is None or (isinstance(x, float) and (math.isnan(x) or math.isinf(x))):
        return False
    qf = float(q)
    return abs(float(x) - qf) <= max(abs_, rel * abs(qf))
