"""C07 - Hamming mode returns exactly the equal-length pairs within max_edits mismatches."""
import itertools
import gens
from gens import all_strings, repertoire, mutate
from searchlib import Case, run_cases


def ham_repertoire(rng, n):
    """Mixed lengths, equal-length neighbours separated by other lengths, one-indel pairs (never neighbours)."""
    seqs = []
    while len(seqs) < n:
        L = rng.randint(1, 12)
        root = ''.join(rng.choice(gens.AA) for _ in range(L))
        for _ in range(rng.randint(1, 5)):
            s = list(root)
            for _ in range(rng.randint(0, 3)):
                s[rng.randrange(L)] = rng.choice(gens.AA)
            seqs.append(''.join(s))
        if rng.random() < 0.5:
            seqs.append(root[:-1] if L > 1 else root + 'A')   # one indel away: must not be reported
        if rng.random() < 0.3:
            seqs.append(rng.choice(seqs))
    seqs = seqs[:n]
    rng.shuffle(seqs)
    return seqs


def run(ctx):
    import pyrepseq.nn as nn
    rng = ctx.rng
    ctx.rule = ('(a) all strings of length 1..L over {A,C} in one call under random orderings (every interleaving of length classes '
                'for small lists), k = 1..3, engines symdel / nearest_neighbor / hash_based / kdtree and two-collection symdel; '
                '(b) random mixed-length repertoires with equal-length neighbours separated by other lengths and one-indel pairs. '
                'non-trivial := at least two length classes are interleaved and a reported pair has a position that differs from its '
                'position inside its own length class')
    cases = []

    def nontriv_for(seqs):
        def f(exp):
            if not exp:
                return False
            lens = [len(s) for s in seqs]
            local = {}
            cnt = {}
            for i, L in enumerate(lens):
                local[i] = cnt.get(L, 0)
                cnt[L] = local[i] + 1
            return len(cnt) >= 2 and any(local[i] != i or local[j] != j for i, j, d in exp)
        return f

    def mk(engine, seqs, k, model='api_brute_self_ham', **kw):
        fn = getattr(nn, engine)

        def remake(ss):
            return (lambda: fn(list(ss), max_edits=k, custom_distance='hamming', **kw)), (model, [k, list(ss)])
        th, rq = remake(seqs)
        tag = ''.join(',%s=%s' % kv for kv in sorted(kw.items()))
        return Case('%s[hamming%s] k=%d n=%d' % (engine, tag, k, len(seqs)), th, rq, seqs=list(seqs), site='nn.%s[hamming%s]' % (engine, tag),
                    remake=remake, nontrivial=nontriv_for(list(seqs)))

    L = 3 if ctx.quick else 4
    base = all_strings('AC', L, 1)
    for t in range(8 if ctx.quick else 60):
        seqs = list(base) + rng.sample(base, 4)
        rng.shuffle(seqs)
        k = 1 + t % 3
        for eng in ('symdel', 'kdtree', 'hash_based', 'nearest_neighbor'):
            if eng == 'hash_based' and k == 3:
                continue
            cases.append(mk(eng, seqs, k))
    # every ordering of a small mixed-length list
    small = ['AC', 'CC', 'ACA', 'CCA', 'A']
    perms = list(itertools.permutations(small))
    for p in (rng.sample(perms, 12) if ctx.quick else perms):
        for eng in ('symdel', 'kdtree', 'hash_based'):
            cases.append(mk(eng, list(p), 1))
        c = mk('kdtree', list(p), 1)
        c.req = ('api_kdtree_ham', [1, 1, None, list(p)])
        c.remake = None
        cases.append(c)
    ctx.exhaustive = True
    for t in range(80 if ctx.quick else 2000):
        seqs = ham_repertoire(rng, rng.randint(2, 50))
        k = rng.choice([1, 1, 2, 3])
        eng = ['symdel', 'kdtree', 'hash_based', 'nearest_neighbor'][t % 4]
        if eng == 'hash_based':
            k = min(k, 2)
        ctx.count(eng)
        ctx.count('k=%d' % k)
        if eng == 'kdtree' and t % 8 == 5:
            # the same search on two worker processes: one search per length class, every class against its own sequences
            ctx.count('kdtree_n_cpu=2')
            cases.append(mk(eng, seqs, k, n_cpu=2))
            continue
        cases.append(mk(eng, seqs, k))
    # two-collection form
    for t in range(20 if ctx.quick else 400):
        pool = ham_repertoire(rng, rng.randint(4, 40))
        h = rng.randint(1, len(pool) - 1)
        refs, qs = pool[:h], pool[h:] + rng.sample(pool[:h], 1)
        k = rng.choice([1, 2])
        cases.append(Case('symdel[hamming,seqs2] k=%d' % k,
                          (lambda refs=refs, qs=qs, k=k: nn.symdel(refs, max_edits=k, custom_distance='hamming', seqs2=qs)),
                          ('api_brute_cross_ham', [k, refs, qs]), seqs=refs, seqs2=qs, site='nn.symdel[hamming,seqs2]'))
    run_cases(ctx, cases, vm_every=17)
    ctx.assumptions += ['rapidfuzz Hamming.distance on equal-length strings', 'scipy KDTree ball query contract']


def replay(ctx, obj):
    import pyrepseq.nn as nn
    r = obj['replay']
    seqs, k = r['seqs'], r['request'][1][0]
    eng = (obj.get('site') or 'nn.kdtree[hamming]').split('.')[1].split('[')[0]
    fn = getattr(nn, eng, nn.kdtree)
    kw = dict(n_cpu=int((obj.get('site') or '').split('n_cpu=')[1].rstrip(']'))) if 'n_cpu=' in (obj.get('site') or '') else {}
    run_cases(ctx, [Case('replay', lambda: fn(list(seqs), max_edits=k, custom_distance='hamming', **kw),
                         ('api_brute_self_ham', [k, seqs]), seqs=seqs, site=obj.get('site'))])
