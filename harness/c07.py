"""C07 - Hamming mode returns exactly the equal-length pairs within max_edits mismatches."""
import contextlib
import itertools
import json
import os
import numpy as np
import gens
from gens import all_strings, repertoire, mutate, canon_triplets, canon_model, diff_triplets
from searchlib import Case, run_cases
from core import call_impl, jsonable


def ham_repertoire(rng, n):
    """Mixed lengths, equal-length neighbours separated by other lengths, one-indel pairs (never neighbours)."""
    seqs = []
    while len(seqs) < n:
        L = rng.randint(1, 12)
        root = ''.join(rng.choice(gens.AA) for _ in range(L))
        for _ in range(rng.randint(1, 5)):
            s = list(root)
            for _ in range(rng.randint(0, 3)):
                s[rng.randrange(L)] = rng.choice(gens.AA)
            seqs.append(''.join(s))
        if rng.random() < 0.5:
            seqs.append(root[:-1] if L > 1 else root + 'A')   # one indel away: must not be reported
        if rng.random() < 0.3:
            seqs.append(rng.choice(seqs))
    seqs = seqs[:n]
    rng.shuffle(seqs)
    return seqs



# ----------------------------------------------------------------------------------------------------------------------------------
# Widened families (coverage audit): every option, container, size, alphabet and call history the statement quantifies over.
# A call is described by a JSON-able `spec` (stored in the replay inside the case description):
#   engine  symdel | nearest_neighbor | hash_based | kdtree | SymdelDB (the object behind the two-collection form)
#   k       max_edits
#   opts    non-default options; 'inf' stands for float('inf'), 'n' for len(seqs) (a max_returns that cannot bind)
#   cont / cont2  container kind of seqs / seqs2;  same: seqs2 is the very object passed as seqs
#   form    'kw' (keywords) | 'pos' (every parameter positionally, in the documented order)
CONTAINERS = ['list', 'tuple', 'list_npstr', 'ndarray_U', 'ndarray_object', 'series_default', 'series_shifted', 'series_reversed',
              'series_string', 'series_equal_labels', 'series_string_dtype']
POSITIONAL = {
    'kdtree': ['max_returns', 'n_cpu', 'custom_distance', 'max_custom_distance', 'output_type', 'compression'],
    'hash_based': ['max_returns', 'n_cpu', 'custom_distance', 'max_custom_distance', 'output_type', 'progress'],
    'symdel': ['max_returns', 'n_cpu', 'custom_distance', 'max_custom_distance', 'output_type', 'seqs2', 'progress'],
    'nearest_neighbor': ['max_returns', 'n_cpu', 'custom_distance', 'max_custom_distance', 'output_type', 'seqs2'],
}
DEFAULTS = dict(max_returns=None, n_cpu=1, max_custom_distance=float('inf'), output_type='triplets', compression=1, seqs2=None,
                progress=False)


def container(name, seqs):
    import pandas as pd
    n = len(seqs)
    if name == 'list':
        return list(seqs)
    if name == 'tuple':
        return tuple(seqs)
    if name == 'list_npstr':
        return [np.str_(s) for s in seqs]
    if name == 'ndarray_U':
        return np.array(list(seqs), dtype=str)
    if name == 'ndarray_object':
        a = np.empty(n, dtype=object)
        a[:] = list(seqs)
        return a
    if name == 'series_default':
        return pd.Series(list(seqs), dtype=object)
    if name == 'series_shifted':
        return pd.Series(list(seqs), index=range(7, 7 + n), dtype=object)
    if name == 'series_reversed':
        return pd.Series(list(seqs), index=range(n - 1, -1, -1), dtype=object)
    if name == 'series_string':
        return pd.Series(list(seqs), index=['r%d' % (n - i) for i in range(n)], dtype=object)
    if name == 'series_equal_labels':
        return pd.Series(list(seqs), index=[0] * n, dtype=object)
    if name == 'series_string_dtype':
        return pd.Series(list(seqs), dtype='string')
    raise ValueError(name)


def invoke(nn, spec, seqs, seqs2=None):
    """One Hamming-mode call as described by spec; the result as (query position, reference position, d) triplets whatever the
    output format (coo_matrix keeps explicit zeros, so every triplet is recovered; 'ndarray' only where no d = 0 pair is expected)."""
    eng, k = spec['engine'], spec['k']
    a = container(spec.get('cont', 'list'), seqs)
    b = None
    if seqs2 is not None:
        b = a if spec.get('same') else container(spec.get('cont2', 'list'), seqs2)
    opts = {key: (float('inf') if v == 'inf' else len(seqs) if v == 'n' else v) for key, v in spec.get('opts', {}).items()}
    ot = opts.get('output_type', 'triplets')
    with open(os.devnull, 'w') as dn, contextlib.redirect_stderr(dn):       # progress=True draws a bar on stderr
        if eng == 'SymdelDB':
            res = nn.SymdelDB(a, k).lookup(b, custom_distance='hamming', **opts)
        elif spec.get('form') == 'pos':
            full = dict(DEFAULTS)
            full.update(opts)
            full.update(custom_distance='hamming', seqs2=b)
            res = getattr(nn, eng)(a, k, *[full[p] for p in POSITIONAL[eng]])
        else:
            kw = dict(opts)
            if b is not None:
                kw['seqs2'] = b
            res = getattr(nn, eng)(a, max_edits=k, custom_distance='hamming', **kw)
    if ot == 'triplets':
        return res
    shape = (len(seqs), len(seqs2) if seqs2 is not None else len(seqs))
    if ot == 'coo_matrix':
        assert res.shape == shape, 'matrix shape %s, expected %s' % (res.shape, shape)
        return list(zip(res.col.tolist(), res.row.tolist(), res.data.tolist()))
    m = np.asarray(res)
    assert m.shape == shape, 'matrix shape %s, expected %s' % (m.shape, shape)
    rr, cc = np.nonzero(m)
    return [(int(c), int(r), m[r, c]) for r, c in zip(rr, cc)]


def spec_case(nn, family, spec, seqs, seqs2=None):
    spec = dict(spec)
    two = seqs2 is not None
    if spec.get('same'):
        seqs2 = seqs
    model = 'api_brute_cross_ham' if two else 'api_brute_self_ham'

    def remake(ss):
        # two collections: the references shrink, the queries stay (the very same object again where spec says so)
        qq = None if not two else list(ss) if spec.get('same') else list(seqs2)
        return (lambda: invoke(nn, spec, list(ss), qq)), (model, [spec['k'], list(ss)] + ([qq] if two else []))
    site = 'nn.%s[hamming,%s]' % (spec['engine'], family)
    desc = '%s[hamming] %s k=%d n=%d spec=%s' % (spec['engine'], family, spec['k'], len(seqs), json.dumps(spec, sort_keys=True))
    th, rq = remake(seqs)
    return Case(desc, th, rq, seqs=list(seqs), seqs2=list(seqs2) if two else None, site=site, remake=remake)


def random_opts(rng, eng, k, light=False):
    """1-3 non-default options that must not change the Hamming result: a custom radius that cannot bind (>= max_edits; the
    statement fixes the radius to max_edits), a max_returns that cannot bind, more workers, a coarser histogram, a progress bar."""
    pool = ['max_custom_distance', 'max_custom_distance']
    if eng != 'SymdelDB':
        pool += ['max_returns', 'n_cpu']
    if eng == 'kdtree':
        pool += ['compression', 'compression']
    if eng in ('hash_based', 'symdel', 'SymdelDB'):
        pool += ['progress']
    opts = {}
    for name in rng.sample(pool, rng.choice([1, 1, 2, 2, 3])):
        if name == 'max_custom_distance':
            opts[name] = rng.choice([k, float(k), k + 0.5, k + 1, 10 ** 9, 'inf', 1e300])
        elif name == 'max_returns':
            opts[name] = 'n'
        elif name == 'n_cpu':
            opts[name] = rng.choice([2, 2, 3]) if not (eng == 'kdtree' and light) else 1
        elif name == 'compression':
            opts[name] = rng.choice([2, 3, 5, 7, 19, 20, 25])
        elif name == 'progress':
            opts[name] = True
    if opts.get('n_cpu') == 1:
        del opts['n_cpu']
    return opts


def ham_family(rng, n, alphabet=gens.AA, lens=(1, 12), maxsub=3, p_empty=0.0):
    """Like ham_repertoire over any alphabet / length range; optionally with empty strings."""
    seqs = []
    while len(seqs) < n:
        L = rng.randint(*lens)
        root = ''.join(rng.choice(alphabet) for _ in range(L))
        for _ in range(rng.randint(1, 5)):
            s = list(root)
            for _ in range(rng.randint(0, maxsub)):
                if L:
                    s[rng.randrange(L)] = rng.choice(alphabet)
            seqs.append(''.join(s))
        if rng.random() < 0.5:
            seqs.append(root[:-1] if L > 1 else root + alphabet[0])
        if rng.random() < 0.3:
            seqs.append(rng.choice(seqs))
        if rng.random() < p_empty:
            seqs.append('')
    seqs = seqs[:n]
    rng.shuffle(seqs)
    return seqs


def long_family(rng, L, alphabet=gens.AA):
    """Sequences of length about L (rapidfuzz / NumPy switch representation at 64, 128, 256): substitution variants at the ends and
    in the middle, a rotation (small Levenshtein, large Hamming distance), one-indel variants (other length class), a duplicate.
    With a two-letter alphabet the residue counts themselves pass 127 / 255."""
    root = ''.join(rng.choice(alphabet) for _ in range(L))

    def sub(s, pos):
        s = list(s)
        for p in pos:
            s[p] = rng.choice([c for c in alphabet if c != s[p]])
        return ''.join(s)
    seqs = [root, root, sub(root, [0]), sub(root, [L - 1]), sub(root, [0, L - 1]), sub(root, rng.sample(range(L), 3)),
            sub(root, rng.sample(range(L), 4)), root[1:] + root[0], root[1:], root + rng.choice(alphabet),
            root[:L // 2] + rng.choice(alphabet) + root[L // 2:], ''.join(rng.choice(alphabet) for _ in range(L))]
    other = ''.join(rng.choice(alphabet) for _ in range(L + 1))
    seqs += [other, sub(other, [L]), sub(other, [L // 2, L])]
    rng.shuffle(seqs)
    return seqs


def shaped(rng, kind):
    """Collections of a particular shape of the length classes."""
    A3 = 'ACD'
    if kind == 'single':
        return [''.join(rng.choice(gens.AA) for _ in range(rng.randint(1, 12)))]
    if kind == 'pair':
        s = ''.join(rng.choice(gens.AA) for _ in range(rng.randint(1, 8)))
        return [s, rng.choice([s, mutate(rng, s, gens.AA, 1), s[:-1] + rng.choice(gens.AA), s + 'A'])]
    if kind == 'one_length':
        L = rng.randint(1, 6)
        return [''.join(rng.choice(A3) for _ in range(L)) for _ in range(rng.randint(2, 60))]
    if kind == 'distinct_lengths':
        ls = list(range(1, rng.randint(2, 14)))
        rng.shuffle(ls)
        return [''.join(rng.choice(A3) for _ in range(L)) for L in ls]
    if kind == 'alternating':
        L = rng.randint(1, 5)
        return [''.join(rng.choice(A3) for _ in range(L + (i % 2))) for i in range(rng.randint(3, 40))]
    if kind in ('ascending', 'descending'):
        seqs = [''.join(rng.choice(A3) for _ in range(rng.randint(1, 5))) for _ in range(rng.randint(3, 40))]
        return sorted(seqs, key=len, reverse=(kind == 'descending'))
    if kind == 'all_identical':
        return [''.join(rng.choice(gens.AA) for _ in range(rng.randint(1, 9)))] * rng.randint(2, 30)
    if kind == 'with_empty':
        seqs = ham_family(rng, rng.randint(2, 25), alphabet=A3, lens=(0, 4), p_empty=0.6) + ['']
        rng.shuffle(seqs)
        return seqs
    raise ValueError(kind)


SHAPES = ['single', 'pair', 'one_length', 'distinct_lengths', 'alternating', 'ascending', 'descending', 'all_identical', 'with_empty']
FREE_ALPHABETS = ['acdxyz', 'ACac', 'AC*-_ .', '0123456789', 'AXBZJOU', 'AéÉα日本', 'AC\U0001F600\U00010348']


def widened_cases(ctx, nn):
    rng = ctx.rng
    q = ctx.quick
    cases = []
    engines = ['symdel', 'kdtree', 'hash_based', 'nearest_neighbor']

    def add(family, spec, seqs, seqs2=None):
        ctx.count('family=' + family)
        for key, v in spec.get('opts', {}).items():
            ctx.count('opt:%s' % key if key != 'output_type' else 'opt:output_type=%s' % v)
        if spec.get('cont', 'list') != 'list':
            ctx.count('container=' + spec['cont'])
        if spec.get('form') == 'pos':
            ctx.count('positional_call')
        cases.append(spec_case(nn, family, spec, seqs, seqs2))

    # (c) options that must not change the answer, alone and combined, on every container, keyword and positional calls
    for t in range(120 if q else 2400):
        eng = engines[t % 4]
        k = rng.choice([1, 1, 2, 3]) if eng != 'hash_based' else rng.choice([1, 1, 2])
        seqs = ham_repertoire(rng, rng.randint(2, 40 if eng != 'hash_based' or k == 1 else 20))
        spec = dict(engine=eng, k=k, opts=random_opts(rng, eng, k, light=(t % 16 >= 8)), cont=rng.choice(CONTAINERS),
                    form=rng.choice(['kw', 'kw', 'pos']))
        add('options', spec, seqs)
    # (c2) kdtree on MORE workers than a length class has sequences: one search per length class, classes of two or three neighbouring
    # sequences, n_cpu 3..8 (a chunk size computed per class must not become 0)
    for t in range(10 if q else 150):
        n_cpu = rng.choice([3, 4, 5, 8])
        seqs = []
        for L in rng.sample(range(2, 12), rng.randint(2, 4)):
            root = ''.join(rng.choice(gens.AA) for _ in range(L))
            for _ in range(rng.randint(2, min(3, n_cpu - 1))):
                j = rng.randrange(L)
                seqs.append(root[:j] + rng.choice(gens.AA) + root[j + 1:])
        rng.shuffle(seqs)
        add('workers_exceed_length_class', dict(engine='kdtree', k=rng.choice([1, 2]), opts=dict(n_cpu=n_cpu), cont='list'), seqs)
    # (d) shapes of the length classes and sizes 1, 2; the empty string is a sequence of length 0
    for t in range(72 if q else 1800):
        kind = SHAPES[t % len(SHAPES)]
        eng = engines[(t // len(SHAPES)) % 4]
        seqs = shaped(rng, kind)
        k = rng.choice([1, 2, 3]) if eng != 'hash_based' else rng.choice([1, 2])
        spec = dict(engine=eng, k=k, opts={}, cont=rng.choice(['list', 'list', 'ndarray_U', 'series_reversed']))
        if eng == 'kdtree' and t % 3 == 0:
            spec['opts'] = dict(n_cpu=2)
        add('shape:' + kind, spec, seqs)
    # (e) max_edits beyond 3 (and beyond the sequence lengths); hash_based with max_edits = 3 on very short sequences
    for t in range(12 if q else 300):
        eng = ['symdel', 'kdtree', 'nearest_neighbor'][t % 3]
        k = rng.randint(4, 8)
        seqs = ham_family(rng, rng.randint(2, 25), alphabet=rng.choice([gens.AA, 'ACD']), lens=(1, rng.choice([4, 9, 12])), maxsub=k + 1)
        add('large_max_edits', dict(engine=eng, k=k, opts={}), seqs)
    for t in range(2 if q else 30):
        seqs = ham_family(rng, rng.randint(2, 7), lens=(1, 2), maxsub=2) + [''.join(rng.choice('ACDY') for _ in range(3)) for _ in range(2)]
        add('large_max_edits', dict(engine='hash_based', k=3, opts={}), seqs)
    # (f) long sequences on both sides of 64, 128, 256
    for t, L in enumerate([63, 64, 65, 127, 128, 129, 255, 256, 257] if q else [63, 64, 65, 127, 128, 129, 255, 256, 257, 300, 511, 512, 513] * 3):
        low = L > 100 and rng.random() < 0.5
        seqs = long_family(rng, L, alphabet=rng.choice(['AC', 'AAAC', 'GGGGGGGA']) if low else gens.AA)
        if low:
            ctx.count('long_low_complexity')
        for eng in (['symdel', 'kdtree', 'hash_based', 'nearest_neighbor'][t % 4], 'kdtree'):
            k = rng.choice([1, 2, 3, 4]) if eng == 'kdtree' else 1 if eng == 'hash_based' or L > 130 else rng.choice([1, 2])
            add('long_sequences', dict(engine=eng, k=k, opts={}, cont=rng.choice(['list', 'ndarray_U'])), seqs)
    # (g) large collections (chunks of the worker pool, big length classes)
    for t in range(3 if q else 12):
        n = rng.randint(250, 400) if q else rng.randint(600, 1000)
        seqs = ham_family(rng, n, alphabet='ACDE', lens=(3, 7), maxsub=2)
        eng = ['kdtree', 'symdel', 'hash_based'][t % 3]
        add('large_collection', dict(engine=eng, k=1 if eng == 'hash_based' else rng.choice([1, 2]),
                                     opts=dict(n_cpu=rng.choice([2, 3])) if eng == 'kdtree' else {}), seqs)
    # (h) symbols outside the amino-acid alphabet (lower case, digits, punctuation, non-ASCII): the default engine takes any string
    for t in range(14 if q else 300):
        alpha = FREE_ALPHABETS[t % len(FREE_ALPHABETS)]
        seqs = ham_family(rng, rng.randint(2, 30), alphabet=alpha, lens=(1, 8))
        eng = ['symdel', 'nearest_neighbor'][t % 2]
        spec = dict(engine=eng, k=rng.choice([1, 2, 3]), opts={}, cont=rng.choice(['list', 'ndarray_U', 'series_string']))
        if t % 3 == 0:
            h = rng.randint(1, len(seqs) - 1)
            add('free_alphabet', spec, seqs[:h], seqs[h:] + [seqs[0]])
        else:
            add('free_alphabet', spec, seqs)
    # (i) two-collection form: nearest_neighbor / symdel / the SymdelDB object behind them; max_edits 1..4; options; containers on both
    #     sides; the same object on both sides; no queries; references of one length
    for t in range(60 if q else 1500):
        eng = ['symdel', 'nearest_neighbor', 'SymdelDB', 'nearest_neighbor'][t % 4]
        k = rng.choice([1, 2, 3, 4])
        pool = ham_repertoire(rng, rng.randint(3, 40))
        h = rng.randint(1, len(pool) - 1)
        refs, qs = pool[:h], pool[h:] + rng.sample(pool[:h], rng.randint(0, min(3, h)))
        spec = dict(engine=eng, k=k, opts=random_opts(rng, eng, k) if t % 2 else {}, cont=rng.choice(CONTAINERS), cont2=rng.choice(CONTAINERS),
                    form='pos' if eng != 'SymdelDB' and t % 5 == 0 else 'kw')
        variant = t % 10
        if variant == 3:
            spec['same'] = True
            qs = refs
            ctx.count('two_collection_same_object')
        elif variant == 6:
            qs, spec['cont2'] = [], rng.choice(['list', 'tuple'])
            ctx.count('two_collection_no_queries')
        elif variant == 8:
            L = len(refs[0])
            refs = [s for s in pool if len(s) == L]
            qs = pool
            ctx.count('two_collection_references_of_one_length')
        add('two_collections', spec, refs, qs)
    # (j) matrix outputs carry the same pairs (coo_matrix keeps d = 0 entries explicitly; 'ndarray' on collections without repeats)
    for t in range(32 if q else 800):
        eng = engines[t % 4]
        k = rng.choice([1, 2]) if eng == 'hash_based' else rng.choice([1, 2, 3])
        seqs = ham_repertoire(rng, rng.randint(2, 30 if eng != 'hash_based' else 15))
        ot = ['coo_matrix', 'ndarray'][(t // 4) % 2]
        if ot == 'ndarray':
            seqs = list(dict.fromkeys(seqs))
        spec = dict(engine=eng, k=k, opts=dict(output_type=ot), cont=rng.choice(['list', 'series_shifted', 'ndarray_object']))
        if t % 8 == 7:
            spec['opts']['n_cpu'] = 2
        if eng in ('symdel', 'nearest_neighbor') and ot == 'coo_matrix' and t % 3 == 0 and len(seqs) > 2:
            h = rng.randint(1, len(seqs) - 1)
            add('matrix_output', spec, seqs[:h], seqs[h:] + [seqs[0]])
        else:
            add('matrix_output', spec, seqs)
    return cases


def history(rng, quick):
    """Calls that share module-level state and one caller-owned buffer (list or ndarray) refilled in place between calls:
    engines, modes (Hamming / default), max_edits and worker counts alternate; a step may repeat the previous arguments."""
    n = rng.randint(3, 22)
    cur = ham_repertoire(rng, n)
    steps = []
    for s in range(rng.randint(3, 6)):
        r = rng.random()
        if s and r < 0.6:
            cur = list(cur)
            for _ in range(rng.randint(1, max(1, n // 2))):
                i = rng.randrange(n)
                cur[i] = rng.choice([cur[rng.randrange(n)], mutate(rng, cur[i], gens.AA, 1) or 'A',
                                     ''.join(rng.choice(gens.AA) for _ in range(rng.randint(1, 12)))])
        elif s and r < 0.75:
            cur = list(cur)
            rng.shuffle(cur)
        eng = rng.choice(['symdel', 'kdtree', 'hash_based', 'nearest_neighbor', 'kdtree'])
        ham = rng.random() < 0.7
        k = rng.choice([1, 2, 3])
        if eng == 'hash_based':
            k = min(k, 2 if ham and n <= 15 else 1)
        opts = {}
        if eng == 'kdtree' and rng.random() < 0.3:
            opts['n_cpu'] = 2
        if eng == 'kdtree' and rng.random() < 0.3:
            opts['compression'] = rng.choice([2, 5])
        steps.append(dict(engine=eng, hamming=ham, k=k, opts=opts, seqs=list(cur)))
    if not any(st['hamming'] for st in steps):
        steps[-1]['hamming'] = True
    return dict(buffer=rng.choice(['list', 'ndarray_object']), steps=steps)


def run_histories(ctx, nn, hists):
    reqs = [('api_brute_self_ham', [st['k'], st['seqs']]) for h in hists for st in h['steps'] if st['hamming']]
    outs = iter(ctx.oracle.run_parallel(reqs))
    for h in hists:
        buf = container(h['buffer'], h['steps'][0]['seqs'])
        for n, st in enumerate(h['steps']):
            buf[:] = st['seqs']                       # the caller's object, refilled in place
            fn = getattr(nn, st['engine'])
            if not st['hamming']:
                call_impl(lambda: fn(buf, max_edits=st['k'], **st['opts']))     # only there to leave its traces; not compared here
                continue
            exp = next(outs)
            if isinstance(exp, Exception):
                raise exp
            exp = canon_model(exp)
            g = call_impl(lambda: fn(buf, max_edits=st['k'], custom_distance='hamming', **st['opts']))
            ctx.count('history_step')
            ctx.case(nontrivial_key=('history', n, st['engine'], st['k'], tuple(st['seqs'])) if exp and n else None)
            try:
                ok = g[0] == 'ok' and canon_triplets(g[1]) == exp
            except Exception:
                ok = False
            if not ok:
                detail = g if g[0] != 'ok' else diff_triplets(canon_triplets(g[1]), exp)
                ctx.violation('property', 'step %d of a call history on one %s refilled in place: %s(%s, max_edits=%d, custom_distance=hamming%s) '
                              'differs from the proved model: %s; earlier steps: %s' %
                              (n, h['buffer'], st['engine'], st['seqs'], st['k'], ''.join(', %s=%s' % kv for kv in sorted(st['opts'].items())),
                               jsonable(detail), [(x['engine'], 'hamming' if x['hamming'] else 'default', x['k'], x['opts']) for x in h['steps'][:n]]),
                              dict(case='history', history=h, step=n, detail=jsonable(detail)), site='nn.%s[hamming,history]' % st['engine'])
                return



def pending_generator_case(nn, spec, refs, qs):
    eng, k = spec['engine'], spec['k']
    return Case('%s[hamming] pending k=%d spec=%s' % (eng, k, json.dumps(spec, sort_keys=True)),
                (lambda: getattr(nn, eng)(list(refs), max_edits=k, custom_distance='hamming', seqs2=(x for x in list(qs)))),
                ('api_brute_cross_ham', [k, list(refs), list(qs)]), seqs=list(refs), seqs2=list(qs), site='nn.%s[hamming,pending]' % eng)


def radius_below_max_edits_cases(ctx, nn):
    """max_custom_distance is the radius of a caller-supplied distance; in Hamming mode it does not cut the answer, whatever its
    value (D21: hash_based applied it to the Hamming value; repaired in /repo by ac40883)."""
    rng = ctx.rng
    cases = []
    for t in range(6 if ctx.quick else 60):
        seqs = ham_repertoire(rng, rng.randint(3, 20))
        ctx.count('max_custom_distance_below_max_edits')
        cases.append(spec_case(nn, 'radius_below_max_edits', dict(engine=['hash_based', 'symdel', 'kdtree', 'nearest_neighbor'][t % 4], k=2,
                                                                   opts=dict(max_custom_distance=rng.choice([0, 1, 1.5]))), seqs))
    return cases


def pending_cases(ctx, nn):
    """Only with PV_PENDING_C07 set: inputs on which the unchanged library departs from the statement as read literally
    (NOTES.md, POSSIBLE DEFECT); kept out of the default run."""
    rng = ctx.rng
    cases = []
    for t in range(6):
        seqs = ham_repertoire(rng, rng.randint(3, 20))
        # 2. seqs2 given as a one-shot iterator: consumed by the input validation, the search then sees no query
        h = rng.randint(1, len(seqs) - 1)
        ctx.count('pending:seqs2_generator')
        cases.append(pending_generator_case(nn, dict(engine=['symdel', 'nearest_neighbor'][t % 2], k=1, pending='seqs2_generator'),
                                            seqs[:h], seqs[h:] + [seqs[0]]))
    return cases

def run(ctx):
    import pyrepseq.nn as nn
    rng = ctx.rng
    ctx.rule = ('(a) all strings of length 1..L over {A,C} in one call under random orderings (every interleaving of length classes '
                'for small lists), k = 1..3, engines symdel / nearest_neighbor / hash_based / kdtree and two-collection symdel; '
                '(b) random mixed-length repertoires with equal-length neighbours separated by other lengths and one-indel pairs. '
                '(c)-(j) widened families: options that must not change the answer (max_custom_distance >= max_edits, a max_returns that '
                'cannot bind, n_cpu, compression, progress) alone and combined, keyword and positional calls, eleven container kinds; '
                'shapes of the length classes (one sequence, two, one length, all lengths distinct, alternating, sorted, all identical, '
                'empty strings); max_edits 4..8 and hash_based max_edits = 3; lengths around 64 / 128 / 256; collections of several '
                'hundred sequences; symbols outside the amino-acid alphabet for the default engine; two-collection form through '
                'symdel / nearest_neighbor / SymdelDB with options, containers, the same object on both sides, no queries; matrix '
                'outputs; (k) call histories on one caller-owned buffer refilled in place, alternating engines, modes and max_edits. '
                'non-trivial := (a),(b): at least two length classes are interleaved and a reported pair has a position that differs from '
                'its position inside its own length class; widened families: a non-empty expected result')
    cases = []

    def nontriv_for(seqs):
        def f(exp):
            if not exp:
                return False
            lens = [len(s) for s in seqs]
            local = {}
            cnt = {}
            for i, L in enumerate(lens):
                local[i] = cnt.get(L, 0)
                cnt[L] = local[i] + 1
            return len(cnt) >= 2 and any(local[i] != i or local[j] != j for i, j, d in exp)
        return f

    def mk(engine, seqs, k, model='api_brute_self_ham', **kw):
        fn = getattr(nn, engine)

        def remake(ss):
            return (lambda: fn(list(ss), max_edits=k, custom_distance='hamming', **kw)), (model, [k, list(ss)])
        th, rq = remake(seqs)
        tag = ''.join(',%s=%s' % kv for kv in sorted(kw.items()))
        return Case('%s[hamming%s] k=%d n=%d' % (engine, tag, k, len(seqs)), th, rq, seqs=list(seqs), site='nn.%s[hamming%s]' % (engine, tag),
                    remake=remake, nontrivial=nontriv_for(list(seqs)))

    L = 3 if ctx.quick else 4
    base = all_strings('AC', L, 1)
    for t in range(8 if ctx.quick else 60):
        seqs = list(base) + rng.sample(base, 4)
        rng.shuffle(seqs)
        k = 1 + t % 3
        for eng in ('symdel', 'kdtree', 'hash_based', 'nearest_neighbor'):
            if eng == 'hash_based' and k == 3:
                continue
            cases.append(mk(eng, seqs, k))
    # every ordering of a small mixed-length list
    small = ['AC', 'CC', 'ACA', 'CCA', 'A']
    perms = list(itertools.permutations(small))
    for p in (rng.sample(perms, 12) if ctx.quick else perms):
        for eng in ('symdel', 'kdtree', 'hash_based'):
            cases.append(mk(eng, list(p), 1))
        c = mk('kdtree', list(p), 1)
        c.req = ('api_kdtree_ham', [1, 1, None, list(p)])
        c.remake = None
        cases.append(c)
    ctx.exhaustive = True
    for t in range(80 if ctx.quick else 2000):
        seqs = ham_repertoire(rng, rng.randint(2, 50))
        k = rng.choice([1, 1, 2, 3])
        eng = ['symdel', 'kdtree', 'hash_based', 'nearest_neighbor'][t % 4]
        if eng == 'hash_based':
            k = min(k, 2)
        ctx.count(eng)
        ctx.count('k=%d' % k)
        if eng == 'kdtree' and t % 8 == 5:
            # the same search on two worker processes: one search per length class, every class against its own sequences
            ctx.count('kdtree_n_cpu=2')
            cases.append(mk(eng, seqs, k, n_cpu=2))
            continue
        cases.append(mk(eng, seqs, k))
    # two-collection form
    for t in range(20 if ctx.quick else 400):
        pool = ham_repertoire(rng, rng.randint(4, 40))
        h = rng.randint(1, len(pool) - 1)
        refs, qs = pool[:h], pool[h:] + rng.sample(pool[:h], 1)
        k = rng.choice([1, 2])
        cases.append(Case('symdel[hamming,seqs2] k=%d' % k,
                          (lambda refs=refs, qs=qs, k=k: nn.symdel(refs, max_edits=k, custom_distance='hamming', seqs2=qs)),
                          ('api_brute_cross_ham', [k, refs, qs]), seqs=refs, seqs2=qs, site='nn.symdel[hamming,seqs2]'))
    cases += widened_cases(ctx, nn)
    cases += radius_below_max_edits_cases(ctx, nn)
    if os.environ.get('PV_PENDING_C07'):
        cases += pending_cases(ctx, nn)
    run_cases(ctx, cases, vm_every=17)
    # (k) call histories
    run_histories(ctx, nn, [history(rng, ctx.quick) for _ in range(25 if ctx.quick else 400)])
    ctx.assumptions += ['rapidfuzz Hamming.distance on equal-length strings', 'scipy KDTree ball query contract']


def replay(ctx, obj):
    import pyrepseq.nn as nn
    r = obj['replay']
    if r.get('case') == 'history':
        run_histories(ctx, nn, [r['history']])
        return
    if 'spec=' in (r.get('case') or ''):
        # widened families: the case description carries every option of the call
        spec = json.loads(r['case'].split('spec=', 1)[1])
        family = (obj.get('site') or ',replay]').split(',', 1)[1].rstrip(']')
        if spec.get('pending') == 'seqs2_generator':
            run_cases(ctx, [pending_generator_case(nn, spec, r['seqs'], r['seqs2'])])
        else:
            run_cases(ctx, [spec_case(nn, family, spec, r['seqs'], r.get('seqs2'))])
        return
    seqs, k = r['seqs'], r['request'][1][0]
    if r.get('seqs2') is not None:
        qs = r['seqs2']
        run_cases(ctx, [Case('replay', lambda: nn.symdel(list(seqs), max_edits=k, custom_distance='hamming', seqs2=list(qs)),
                             ('api_brute_cross_ham', [k, seqs, qs]), seqs=seqs, seqs2=qs, site=obj.get('site'))])
        return
    eng = (obj.get('site') or 'nn.kdtree[hamming]').split('.')[1].split('[')[0]
    fn = getattr(nn, eng, nn.kdtree)
    kw = dict(n_cpu=int((obj.get('site') or '').split('n_cpu=')[1].rstrip(']'))) if 'n_cpu=' in (obj.get('site') or '') else {}
    run_cases(ctx, [Case('replay', lambda: fn(list(seqs), max_edits=k, custom_distance='hamming', **kw),
                         ('api_brute_self_ham', [k, seqs]), seqs=seqs, site=obj.get('site'))])
