"""C13 - grouped, conditional and entropy statistics are compositions of pc and pcDelta.

The oracle is the extracted Coq model (coq/model/Grouped.v); the theorems of coq/props/C13.v say that model is the stated
composition for every table.  Here the six public functions are run side by side with it."""
import itertools, math
from fractions import Fraction
import numpy as np
import pandas as pd
from core import call_impl, close

COLS = ['g', 'h', 'f', 's', 't', 'u']            # g: string key, h: int key, f: float key (multiples of 1/2); s, t: strings, u: int
KEYPOOL = dict(g=['b', 'a', 'B', 'ab', 'aa', 'c', 'Z', 'ba', 'é', 'a b'], h=[3, -2, 0, 1, 10, 11, 2], f=[2.5, -1.0, 0.5, 10.0, 2.0, -0.5])
SEQS = ['CASSL', 'CASSF', 'CASL', 'CASSLG', 'CAT', 'CATS', 'DASSL', 'C', 'CASSLGQ', 'AASSL']
WEIGHTS = [1, 2, 3, 5, 0.5, 2.5]
BASES = [2.0, math.e, 10.0, None, 0.5, 3.7, 2]
EDGES = [[0, 1, 2, 3], [0, 1, 2, 3, 4, 5, 6], [0.5, 1.5, 2.5], [0, 2, 5], [1, 3], [0, 1], [0, 1, 2, 3, 4, 5, 6, 7, 8, 9, 10]]


# ---------------------------------------------------------------- encoding of a case for the model
def enc_cell(x):
    if isinstance(x, str):
        return [ord(c) for c in x]
    if isinstance(x, float):
        assert 2 * x == int(2 * x)
        return [int(2 * x)]                  # a float key column is scaled by 2 as a whole: order preserving, injective
    return [int(x)]


def bycols(by):
    return [by] if isinstance(by, str) else list(by)


def row_key(row, by):
    return [enc_cell(row[COLS.index(c)]) for c in bycols(by)]


def py_key(row, by):
    return tuple(row[COLS.index(c)] for c in bycols(by))


def frz(k):
    return tuple(tuple(c) for c in k)


def feature_value(row, on):
    if isinstance(on, str):
        return row[COLS.index(on)]
    return tuple(str(row[COLS.index(c)]) for c in on)       # pc_joint: astype(str) cells joined by '_' (no cell contains '_')


def table_tokens(rows, by, on):
    d = {}
    return [(row_key(r, by), d.setdefault(feature_value(r, on), len(d) + 1)) for r in rows]


def table_strs(rows, by, col='s'):
    return [(row_key(r, by), r[COLS.index(col)]) for r in rows]


def make_df(rows):
    return pd.DataFrame([list(r) for r in rows], columns=COLS)


def nm(x):
    """an index entry of a result frame as a tuple of Python scalars"""
    if not isinstance(x, tuple):
        x = (x,)
    return tuple(v.item() if hasattr(v, 'item') else v for v in x)


def positions(got, want):
    """Results are tables addressed by group label: the position in `got` of every wanted label (None when the label
    sets differ).  The order in which an implementation lists the groups is not part of the statement."""
    got = [nm(x) for x in got]
    if len(got) != len(want) or len(set(got)) != len(got):
        return None
    where = {g: i for i, g in enumerate(got)}
    try:
        return [where[tuple(w)] for w in want]
    except KeyError:
        return None


def cell_ok(x, q):
    try:
        x = float(x)
    except (TypeError, ValueError):
        return False
    return close(x, q)


def wire_ok(impl, wire):
    """impl = call_impl result of a scalar function; wire = (tag, q): 0 value, 1 NaN, 2 the code raises"""
    tag, q = wire
    if tag == 2:
        return impl[0] == 'exc'
    if impl[0] != 'ok':
        return False
    try:
        x = float(impl[1])
    except (TypeError, ValueError):
        return False
    return math.isnan(x) if tag == 1 else close(x, q)


def matrix_ok(res, names, M):
    if not isinstance(res, pd.DataFrame) or res.shape != (len(names), len(names)):
        return False
    pr, pc_ = positions(res.index.tolist(), names), positions(res.columns.tolist(), names)
    if pr is None or pc_ is None:
        return False
    a = res.to_numpy()
    return all(cell_ok(a[pr[i]][pc_[j]], M[i][j]) for i in range(len(names)) for j in range(len(names)))


def by_label(res, names):
    """rows of a per-group result (frame or series) in the order of `names`, or None"""
    if not isinstance(res, (pd.DataFrame, pd.Series)):
        return None
    p = positions(res.index.tolist(), names)
    if p is None:
        return None
    a = res.to_numpy()
    if a.ndim == 1:
        a = a.reshape(len(a), 1)
    return a[p] if len(p) else a


def pairs_by_label(res, pairs):
    """rows of a condensed result in the order of `pairs` (list of (name1, name2)); a pair may be listed in either orientation"""
    if not isinstance(res, pd.DataFrame) or len(res) != len(pairs):
        return None
    a = res.to_numpy()
    if not pairs:
        return a
    got = [(nm(x), nm(y)) for x, y in res.index.tolist()]
    where = {}
    for i, (x, y) in enumerate(got):
        where[(x, y)] = i
        where[(y, x)] = i
    if len(where) != 2 * len(pairs):
        return None
    try:
        return a[[where[(tuple(x), tuple(y))] for x, y in pairs]]
    except KeyError:
        return None


def rows_ok(values, M):
    """values: 2-d array-like of the implementation; M: list of (None = all NaN | list of exact values)"""
    a = np.asarray(values)
    if a.ndim == 1:
        a = a.reshape(len(a), 1)
    if a.shape[0] != len(M):
        return False
    for i, m in enumerate(M):
        if m is None:
            if not all(cell_ok(x, None) for x in a[i]):
                return False
        elif len(m) != a.shape[1] or not all(cell_ok(x, q) for x, q in zip(a[i], m)):
            return False
    return True


def entropy_ok(impl, wire, base):
    """renyi2_entropy = -log_base(v): checked through base ** (-H) = v (C13_entropy_inverse), never float against float"""
    tag, q = wire
    if tag == 2:
        return impl[0] == 'exc'
    if impl[0] != 'ok':
        return False
    try:
        H = float(impl[1])
    except (TypeError, ValueError):
        return False
    if tag == 1:
        return math.isnan(H)
    lnb = 1.0 if base is None else math.log(base)
    if q == 0:
        return math.isinf(H) and (H > 0) == (lnb > 0)
    if math.isnan(H) or math.isinf(H):
        return False
    return close(math.exp(-H * lnb), q)


def std_ok(impl, parts, base):
    """stdrenyi2 = sqrt(var) / (pc ln base), checked as (S ln base)^2 = var / pc^2"""
    defined, var, pcv = parts
    if not defined or pcv == 0:
        return None                                 # N < 4 or pc = 0: the estimator is not defined, nothing is claimed
    if impl[0] != 'ok':
        return False
    try:
        S = float(impl[1])
    except (TypeError, ValueError):
        return False
    if var < 0:
        return math.isnan(S)
    lnb = 1.0 if base is None else math.log(base)
    if var == 0:
        # an exactly vanishing variance estimate is a difference of equal terms in floating point: ~0 or sqrt(-tiny) = NaN
        return math.isnan(S) or (S * lnb) ** 2 <= 1e-12
    if math.isnan(S) or math.isinf(S):
        return False
    lnb = 1.0 if base is None else math.log(base)
    # S = sqrt(var) / (pc ln base): S ln base = sqrt(var) / pc is positive (for a base below 1 the value itself is negative),
    # and its square is the exact rational var / pc^2
    return S * lnb > 0 and close((S * lnb) ** 2, var / (pcv * pcv))


# ---------------------------------------------------------------- one case = one table and one call of every function
def requests(case):
    rows, by, on = case['rows'], case['by'], case['on']
    tn = table_tokens(rows, by, on)
    ts = table_strs(rows, by)
    feat = case['features']
    tf = table_tokens(rows, by, feat)
    edges = [Fraction(e).limit_denominator(2) for e in case['edges']]
    w = None if case['w'] is None else [Fraction(x).limit_denominator(2) for x in case['w']]
    wbad = None if case.get('wbad') is None else [Fraction(x).limit_denominator(2) for x in case['wbad']]
    return [('api_c13_group_keys', [tn]), ('api_c13_conditional', [w, tn]), ('api_c13_grouped_cross', [tn]),
            ('api_c13_pcdelta_grouped', [edges, case['norm'], ts]), ('api_c13_pcdelta_grouped0', [ts]), ('api_c13_cross_index', [ts]),
            ('api_c13_pcdelta_cross_condensed', [edges, case['norm'], ts]), ('api_c13_pcdelta_cross0_condensed', [ts]),
            ('api_c13_pcdelta_cross0_square', [ts]),
            ('api_c13_renyi2_arg', [True, isinstance(feat, list), None, tf]), ('api_c13_renyi2_arg', [False, isinstance(feat, list), w, tf]),
            ('api_c13_std_parts', [[x for _, x in tf]]), ('api_c13_conditional', [wbad, tn])]


NREQ = 13


def evaluate(ctx, case, outs, light=False):
    """Runs the implementation on the case and compares with the model outputs. Returns the list of (site, message)."""
    import pyrepseq.stats as st
    import pyrepseq.distance as di
    import pyrepseq.entropy as en
    rows, by, on = case['rows'], case['by'], case['on']
    (keys, cond, cross, pdg, pdg0, cidx, pdc, pdc0, pdsq, r_plain, r_cond, stdp, condbad) = outs
    df = make_df(rows)
    k2p = {frz(row_key(r, by)): py_key(r, by) for r in rows}
    names = [k2p[frz(k)] for k in keys]
    pairs = [(k2p[frz(a)], k2p[frz(b)]) for a, b in cidx]
    bad = []
    byarg = by
    # -- pc_conditional
    kw = {}
    if case['w'] is not None:
        # the weights are aligned with the sorted surviving groups BY POSITION whatever container carries them: list, ndarray,
        # tuple, or a pandas Series whose index has nothing to do with the group keys
        wk = case.get('w_kind', 'array' if case.get('w_array') else 'list')
        wv = list(case['w'])
        kw = dict(group_weights={'list': wv, 'array': np.array(wv), 'tuple': tuple(wv),
                                 'series': pd.Series(wv, index=['w%d' % (len(wv) - i) for i in range(len(wv))]),
                                 'series_int': pd.Series(wv, index=list(range(len(wv)))[::-1])}[wk])
    r = call_impl(st.pc_conditional, df, byarg, on, **kw)
    if not wire_ok(r, cond):
        bad.append(('stats.pc_conditional', 'pc_conditional(by=%r, on=%r, %r) = %s, model %s' % (by, on, kw, r, cond)))
    if case.get('wbad') is not None:
        r = call_impl(st.pc_conditional, df, byarg, on, group_weights=case['wbad'])
        if condbad[0] == 2 and r[0] != 'exc':
            bad.append(('stats.pc_conditional[weights]', 'pc_conditional accepted %d weights for another number of groups: %s' % (len(case['wbad']), r)))
    # -- pc_grouped_cross
    r = call_impl(st.pc_grouped_cross, df, byarg, on)
    if r[0] != 'ok' or not matrix_ok(r[1], names, cross):
        bad.append(('stats.pc_grouped_cross', 'pc_grouped_cross(by=%r, on=%r) =\n%s\nmodel: groups %s matrix %s' % (by, on, r[1], names, cross)))
    if light:
        edges_calls = []
    else:
        edges_calls = [case['edges'] if not case.get('edges_array') else np.array(case['edges'])]
    # -- pcDelta_grouped
    for e in edges_calls:
        kwn = {} if case['norm'] else dict(normalize=False)
        r = call_impl(di.pcDelta_grouped, df, byarg, 's', bins=e, **kwn)
        a = by_label(r[1], names) if r[0] == 'ok' else None
        if a is None or not rows_ok(a, [m for _, m in pdg]):
            bad.append(('distance.pcDelta_grouped', 'pcDelta_grouped(by=%r, bins=%r, %r) =\n%s\nmodel %s' % (by, e, kwn, r[1], pdg)))
        r = call_impl(di.pcDelta_grouped_cross, df, byarg, 's', condensed=True, bins=e, **kwn)
        a = pairs_by_label(r[1], pairs) if r[0] == 'ok' else None
        if a is None or not rows_ok(a, pdc):
            bad.append(('distance.pcDelta_grouped_cross[condensed]', 'pcDelta_grouped_cross(by=%r, condensed=True, bins=%r, %r) =\n%s\nmodel %s %s' % (by, e, kwn, r[1], pairs, pdc)))
    # -- bins = 0: the coincidence form
    r = call_impl(di.pcDelta_grouped, df, byarg, 's', bins=0)
    a = by_label(r[1], names) if r[0] == 'ok' else None
    if a is None or not rows_ok(a, [None if m is None else [m] for _, m in pdg0]):
        bad.append(('distance.pcDelta_grouped[bins=0]', 'pcDelta_grouped(by=%r, bins=0) =\n%s\nbut the pcDelta (= pc) of each group alone is %s' % (by, r[1], [(k2p[frz(k)], str(m)) for k, m in pdg0])))
    r = call_impl(di.pcDelta_grouped_cross, df, byarg, 's', bins=0)
    if r[0] != 'ok' or not matrix_ok(r[1], names, pdsq):
        bad.append(('distance.pcDelta_grouped_cross[square]', 'pcDelta_grouped_cross(by=%r, bins=0) =\n%s\nmodel (within-group value on the diagonal): groups %s matrix %s' % (by, r[1], names, pdsq)))
    # -- the sequence given as TWO columns (paired chains: first residue / rest, so rows coincide exactly when the sequences do and some
    #    rows share one column only): the coincidence form of a list of columns is that of the rows, value for value as above
    df2 = df.assign(CDR3A=[str(x)[:1] for x in df['s']], CDR3B=[str(x)[1:] for x in df['s']])
    ctx.count('paired_columns_bins0')
    r = call_impl(di.pcDelta_grouped_cross, df2, byarg, ['CDR3A', 'CDR3B'], bins=0)
    if r[0] != 'ok' or not matrix_ok(r[1], names, pdsq):
        bad.append(('distance.pcDelta_grouped_cross[square,two columns]', 'pcDelta_grouped_cross(by=%r, seq_columns=[CDR3A, CDR3B], bins=0) =\n%s\nmodel (rows '
                    'coincide iff both columns do): groups %s matrix %s' % (by, r[1], names, pdsq)))
    r = call_impl(di.pcDelta_grouped, df2, byarg, ['CDR3A', 'CDR3B'], bins=0)
    a = by_label(r[1], names) if r[0] == 'ok' else None
    if a is None or not rows_ok(a, [None if m is None else [m] for _, m in pdg0]):
        bad.append(('distance.pcDelta_grouped[bins=0,two columns]', 'pcDelta_grouped(by=%r, seq_columns=[CDR3A, CDR3B], bins=0) =\n%s\nbut the pc of each '
                    'group\'s rows is %s' % (by, r[1], [(k2p[frz(k)], str(m)) for k, m in pdg0])))
    if not light:
        r = call_impl(di.pcDelta_grouped_cross, df, byarg, 's', condensed=True, bins=0)
        a = pairs_by_label(r[1], pairs) if r[0] == 'ok' else None
        if a is None or not rows_ok(a, [None if m is None else [m] for m in pdc0]):
            bad.append(('distance.pcDelta_grouped_cross[condensed,bins=0]', 'pcDelta_grouped_cross(by=%r, condensed=True, bins=0) =\n%s\nmodel %s %s' % (by, r[1], pairs, pdc0)))
        # -- entropies
        feat, base = case['features'], case['base']
        kb = {} if case.get('base_default') else dict(base=base)
        if case.get('base_default'):
            base = 2.0
        fsel = feat
        r = call_impl(en.renyi2_entropy, df, fsel, **kb)
        if not entropy_ok(r, r_plain, base):
            bad.append(('entropy.renyi2_entropy', 'renyi2_entropy(features=%r, %r) = %s, but pc = %s' % (feat, kb, r, r_plain)))
        r = call_impl(en.renyi2_entropy, df, fsel, by=byarg, **kb, **kw)
        if not entropy_ok(r, r_cond, base):
            bad.append(('entropy.renyi2_entropy[by]', 'renyi2_entropy(features=%r, by=%r, %r, %r) = %s, but pc_conditional = %s' % (feat, by, kb, kw, r, r_cond)))
        r = call_impl(en.stdrenyi2_entropy, df, fsel, **kb)
        v = std_ok(r, stdp, base)
        if v is False:
            bad.append(('entropy.stdrenyi2_entropy', 'stdrenyi2_entropy(features=%r, %r) = %s, but (defined, varpc, pc) = %s' % (feat, kb, r, stdp)))
        ctx.count('std_defined' if v is not None else 'std_undefined')
        for b0 in (0, -1.5):
            for f in (en.renyi2_entropy, en.stdrenyi2_entropy):
                r = call_impl(f, df, fsel, base=b0)
                if r[0] != 'exc':
                    bad.append(('entropy.base', '%s accepted base=%r' % (f.__name__, b0)))
    return bad, names


def nontrivial(outs):
    (keys, cond, cross, pdg, pdg0, cidx, pdc, pdc0, pdsq, r_plain, r_cond, stdp, condbad) = outs
    big = sum(1 for _, m in pdg0 if m is not None)
    return big >= 2 and cond[0] == 0 and 0 < cond[1] < 1 and any(x is not None and 0 < x < 1 for row in cross for x in row)


def report(ctx, case, bad):
    for site, msg in bad:
        ctx.violation('property', msg + '\ntable rows (g, h, f, s, t, u): %s' % case['rows'], dict(case=case, site=site), site=site)


# ---------------------------------------------------------------- generators
def gen_case(rng, quick):
    nby = rng.choice([1, 1, 1, 2, 2, 3])
    cols = rng.sample(['g', 'h', 'f'], nby)
    by = cols[0] if (nby == 1 and rng.random() < 0.6) else cols
    nbig = rng.choice([0, 1, 2, 2, 3, 3, 4, 5])
    nsingle = rng.choice([0, 0, 1, 1, 2, 3])
    if nbig + nsingle == 0:
        nsingle = 1
    pools = [rng.sample(KEYPOOL[c], min(len(KEYPOOL[c]), rng.randint(2, 5))) for c in cols]
    allkeys = list(itertools.product(*pools))
    rng.shuffle(allkeys)
    allkeys = allkeys[:nbig + nsingle]
    nbig = max(0, len(allkeys) - nsingle)
    sizes = [rng.choice([2, 2, 3, 3, 4, 5, 7]) for _ in range(nbig)] + [1] * (len(allkeys) - nbig)
    spool = rng.sample(SEQS, rng.randint(2, 5))
    tpool = rng.sample(['x', 'y', 'z', 'xy'], rng.randint(1, 3))
    rows = []
    for k, sz in zip(allkeys, sizes):
        kd = dict(zip(cols, k))
        for _ in range(sz):
            rows.append([kd.get('g', 'q'), kd.get('h', 7), kd.get('f', 1.5), rng.choice(spool), rng.choice(tpool), rng.choice([1, 2, 12])])
    rng.shuffle(rows)
    on = rng.choice(['s', 's', ['s'], ['s', 't'], ['s', 't', 'u'], 't', 'u', ['t', 'u']])
    features = rng.choice(['s', ['s'], ['s', 't'], 't', ['t', 'u'], ['s', 't', 'u']])
    w = None if rng.random() < 0.4 else [rng.choice(WEIGHTS) for _ in range(nbig)]
    if w is not None and all(isinstance(x, int) for x in w) is False and rng.random() < 0.5:
        w = [float(x) for x in w]
    wbad = None
    if nbig >= 1 and rng.random() < 0.3:
        wbad = [rng.choice(WEIGHTS) for _ in range(nbig + rng.choice([1, 2]))]
        if len(wbad) < 2:
            wbad = None
    return dict(rows=rows, by=by, on=on, features=features, w=w, w_array=rng.random() < 0.3, w_kind=rng.choice(['list', 'array', 'tuple', 'series', 'series_int']), wbad=wbad, edges=rng.choice(EDGES), edges_array=rng.random() < 0.4,
                norm=rng.random() < 0.8, base=rng.choice(BASES), base_default=rng.random() < 0.15)


def small_tables(nmax):
    """every table with up to nmax rows, keys from {b, a, c} (unsorted), sequences from {A, B}"""
    for n in range(1, nmax + 1):
        for ks in itertools.product('bac', repeat=n):
            for ss in itertools.product('AB', repeat=n):
                yield [[k, 7, 1.5, s, 'x', 1] for k, s in zip(ks, ss)]


def run_cases(ctx, cases, light=False, sample_every=50):
    reqs = [q for c in cases for q in requests(c)]
    outs = ctx.oracle.run_parallel(reqs, nproc=8)
    for n, case in enumerate(cases):
        o = outs[n * NREQ:(n + 1) * NREQ]
        err = [x for x in o if isinstance(x, Exception)]
        if err:
            ctx.violation('correspondence', 'oracle rejected a request: %s' % err[0], dict(case=case))
            continue
        bad, names = evaluate(ctx, case, o, light=light)
        nt = nontrivial(o)
        ctx.case(sample=dict(by=case['by'], on=case['on'], rows=[r[:4] for r in case['rows'][:8]], groups=[list(x) for x in names],
                             pc_conditional=str(o[1][1]), weights=case['w']) if nt and n % sample_every == 0 else None,
                 nontrivial_key=(repr(case['rows']), repr(case['by']), repr(case['on'])) if nt else None)
        report(ctx, case, bad)
        if not light:
            ctx.count('by=%d %s' % (len(bycols(case['by'])), 'label' if isinstance(case['by'], str) else 'list'))
            ctx.count('singletons=%d' % sum(1 for _, m in o[4] if m is None))
            ctx.count('groups>=2 members: %d' % min(4, sum(1 for _, m in o[4] if m is not None)))
            ctx.count('weights' if case['w'] is not None else 'uniform')
            ctx.count('on=%s' % ('label' if isinstance(case['on'], str) else 'list%d' % len(case['on'])))
            if len(case['rows']) <= 7 and len(ctx.vm_cases) < 36:
                rq = requests(case)
                for j in (1, 2, 4, 8):
                    ctx.add_vm(rq[j][0], rq[j][1], o[j])
        if len(ctx.violations) > 6:
            return False
    return True


def run(ctx):
    rng = ctx.rng
    ctx.rule = ('(a) every table with <= %d rows over group keys {b, a, c} and sequences {A, B}: pc_conditional, pc_grouped_cross, pcDelta_grouped(bins=0), '
                'pcDelta_grouped_cross(bins=0, square); (b) random tables with 1-3 grouping columns (string / int / float keys, unsorted, 0-3 singleton groups, '
                '0-5 larger groups), 1-3 feature columns, weights from {1,2,3,5,0.5,2.5} or uniform, bin edge vectors (list / array, integer / half-integer) '
                'and bins=0, condensed and square forms, normalize on/off, bases {2, e, 10, None, 0.5, 3.7, default}: all six functions. '
                'non-trivial := at least two groups with two or more members, 0 < pc_conditional < 1 and some cross entry strictly between 0 and 1') % (4 if ctx.quick else 5)
    # dispatch facts regenerated from the source
    d = ctx.oracle.run([('api_c13_dispatch', [a, b]) for a in (True, False) for b in (True, False)])
    ctx.note('regenerated dispatch (renyi2, stdrenyi2, conditional/cross) for (by_falsy, is_list) in TT, TF, FT, FF: %s' % (d,))
    base_case = dict(by='g', on='s', features='s', w=None, wbad=None, edges=[0, 1, 2], norm=True, base=2.0)
    small = [dict(base_case, rows=rows) for rows in small_tables(4 if ctx.quick else 5)]
    if not run_cases(ctx, small, light=True, sample_every=400):
        return
    ctx.exhaustive = True
    cases = [gen_case(rng, ctx.quick) for _ in range(250 if ctx.quick else 4000)]
    # a few larger tables
    for _ in range(5 if ctx.quick else 60):
        c = gen_case(rng, ctx.quick)
        extra = [list(rng.choice(c['rows'])) for _ in range(rng.randint(20, 80))]
        for r in extra:
            r[3] = rng.choice(SEQS)
        c['rows'] = c['rows'] + extra
        rng.shuffle(c['rows'])
        c['w'] = None
        c['wbad'] = None
        cases.append(c)
    run_cases(ctx, cases)
    ctx.assumptions += ['pandas groupby / filter / apply group rows by key, keep row order inside a group and order groups by ascending key (modelled as a stable '
                        'insertion sort of the distinct keys; exercised on string, int and float keys)',
                        'scipy squareform(vector) and numpy fill_diagonal (modelled by square_of); numpy.histogram bin convention (model/PcDelta.v)',
                        'cells of feature columns contain no "_" and str() is injective on them (domain of C02_rows_coincide_iff_all_columns)',
                        'numpy log / sqrt are the real functions up to 1e-9 (entropies are compared through base**(-H) = pc and (S ln base)^2 = var / pc^2)']


def replay(ctx, obj):
    rp = obj.get('replay') or {}
    case = rp.get('case')
    if not case:
        return run(ctx)
    case.setdefault('wbad', None)
    outs = ctx.oracle.run(requests(case))
    bad, names = evaluate(ctx, case, outs)
    ctx.case(nontrivial_key=repr(case['rows']))
    report(ctx, case, bad)
