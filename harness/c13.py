"""C13 - grouped, conditional and entropy statistics are compositions of pc and pcDelta.

The oracle is the extracted Coq model (coq/model/Grouped.v); the theorems of coq/props/C13.v say that model is the stated
composition for every table.  Here the six public functions are run side by side with it."""
import itertools, math, os
from fractions import Fraction
from collections import Counter
import numpy as np
import pandas as pd
from core import call_impl, close

COLS = ['g', 'h', 'f', 's', 't', 'u']            # g: string key, h: int key, f: float key (multiples of 1/2); s, t: strings, u: int
KEYPOOL = dict(g=['b', 'a', 'B', 'ab', 'aa', 'c', 'Z', 'ba', 'é', 'a b', '', ' a', '10', '9'], h=[3, -2, 0, 1, 10, 11, 2, 100, -10],
               f=[2.5, -1.0, 0.5, 10.0, 2.0, -0.5, 100.5])
SEQS = ['CASSL', 'CASSF', 'CASL', 'CASSLG', 'CAT', 'CATS', 'DASSL', 'C', 'CASSLGQ', 'AASSL']
LONG = 'CASS' + 'GQETQYF' * 18                   # 130 residues (> 127)
# a second sequence pool: long, lower case, non-ASCII, empty
SEQS2 = ['CASSL', LONG, LONG[:60] + 'A' + LONG[61:], LONG[:-1], 'cassl', 'CÄSSL', '', 'CASSLG', 'C', 'CASSF']
WEIGHTS = [1, 2, 3, 5, 0.5, 2.5]
WEIGHTS2 = [1, 2, 3, 5, 0.5, 2.5, 0, -2, -0.5, 100, 7.5]    # the mean is w^2-weighted: a sign does not matter, a zero weight drops the group
BASES = [2.0, math.e, 10.0, None, 0.5, 3.7, 2, 16, 0.1, 1e6, 1.5, 3]
BADBASES = [0, -1.5, -2, 0.0, -1e-9]
EDGES = [[0, 1, 2, 3], [0, 1, 2, 3, 4, 5, 6], [0.5, 1.5, 2.5], [0, 2, 5], [1, 3], [0, 1], [0, 1, 2, 3, 4, 5, 6, 7, 8, 9, 10], [0, 2, 127, 128, 131]]
E25 = list(range(25))                            # pcDelta's default bins: np.arange(0, 25)
GAPS = ['-', '|', '__', '~~']
PENDING = True      # D24 (categorical grouping column with an unused category; repaired in /repo by f30df08): the cases run by default


# ---------------------------------------------------------------- encoding of a case for the model
def enc_cell(x):
    if isinstance(x, str):
        return [ord(c) for c in x]
    if isinstance(x, float):
        assert 2 * x == int(2 * x)
        return [int(2 * x)]                  # a float key column is scaled by 2 as a whole: order preserving, injective
    return [int(x)]


def bycols(by):
    return [by] if isinstance(by, str) else list(by)


def row_key(row, by):
    return [enc_cell(row[COLS.index(c)]) for c in bycols(by)]


def py_key(row, by):
    return tuple(row[COLS.index(c)] for c in bycols(by))


def frz(k):
    return tuple(tuple(c) for c in k)


def feature_value(row, on):
    if isinstance(on, str):
        return row[COLS.index(on)]
    return tuple(str(row[COLS.index(c)]) for c in on)       # pc_joint: astype(str) cells joined by '_' (no cell contains '_')


def table_tokens(rows, by, on):
    d = {}
    return [(row_key(r, by), d.setdefault(feature_value(r, on), len(d) + 1)) for r in rows]


def table_strs(rows, by, col='s'):
    return [(row_key(r, by), r[COLS.index(col)]) for r in rows]


def make_df(rows):
    return pd.DataFrame([list(r) for r in rows], columns=COLS)


def build_df(case):
    """the table of a case as the caller holds it: column dtypes, row labels (index), extra / reordered columns. None of these is
    part of a group, of a feature value or of a sequence, so no stated value depends on them."""
    df = make_df(case['rows'])
    for c, dt in sorted((case.get('dtypes') or {}).items()):
        conv = df[c].astype(dt)
        if conv.tolist() == df[c].tolist():             # only a dtype that holds every cell unchanged (1000 is not an int8)
            df[c] = conv
    lay = case.get('layout')
    if lay in ('extra', 'extra_rev'):
        df.insert(0, 'a0', [None, 'x', 3][:len(df)] + [float('nan')] * max(0, len(df) - 3))
        df['zz'] = float('nan')
    if lay in ('rev', 'extra_rev'):
        df = df[list(df.columns)[::-1]]
    if case.get('index') is not None:
        df.index = list(case['index'])
    return df


def gen_index(rng, n):
    """row labels: default, shifted, reversed, permuted, strings, negative, float, repeated labels (stacked tables)"""
    k = rng.choice(['range', 'range', 'shift', 'rev', 'perm', 'str', 'neg', 'float', 'dup2', 'dup0', 'dup3', 'dupstr'])
    if k == 'range':
        return k, None
    if k == 'shift':
        return k, list(range(1000, 1000 + n))
    if k == 'rev':
        return k, list(range(n))[::-1]
    if k == 'perm':
        p = list(range(n))
        rng.shuffle(p)
        return k, p
    if k == 'str':
        p = ['r%d' % i for i in range(n)]
        rng.shuffle(p)
        return k, p
    if k == 'neg':
        return k, [-3 * i for i in range(n)]
    if k == 'float':
        return k, [0.5 * i for i in range(n)]
    if k == 'dup2':
        return k, [i // 2 for i in range(n)]
    if k == 'dup0':
        return k, [0] * n
    if k == 'dup3':
        return k, [i % 3 for i in range(n)]
    return k, ['xy'[i % 2] for i in range(n)]


def tok_str(rows, cols):
    """the rows of several columns as strings over a private alphabet: equal exactly when the rows coincide in every column"""
    d = {}
    return [chr(0x4e00 + d.setdefault(tuple(r[COLS.index(c)] for c in cols), len(d))) for r in rows]


def invoke(style, f, req, opt=(), kw=None):
    """one public call in one of three spellings of the same arguments. req: [(parameter name, value)] in signature order;
    opt: [(name, value, given, documented default)] the optional positional parameters in signature order; kw: what goes to **kwargs.
    'default': required positionally, given options by keyword; 'positional': everything positionally up to the last given option;
    'keyword': every parameter by name, the options not given with their documented default."""
    kw = dict(kw or {})
    if style == 'keyword':
        return call_impl(f, **dict(req), **{n: v if g else d for n, v, g, d in opt}, **kw)
    if style == 'positional':
        last = max([i for i, o in enumerate(opt) if o[2]], default=-1)
        return call_impl(f, *[v for _, v in req], *[v if g else d for _, v, g, d in opt[:last + 1]], **kw)
    return call_impl(f, *[v for _, v in req], **{n: v for n, v, g, _ in opt if g}, **kw)


def nm(x):
    """an index entry of a result frame as a tuple of Python scalars"""
    if not isinstance(x, tuple):
        x = (x,)
    return tuple(v.item() if hasattr(v, 'item') else v for v in x)


def positions(got, want):
    """Results are tables addressed by group label: the position in `got` of every wanted label (None when the label
    sets differ).  The order in which an implementation lists the groups is not part of the statement."""
    got = [nm(x) for x in got]
    if len(got) != len(want) or len(set(got)) != len(got):
        return None
    where = {g: i for i, g in enumerate(got)}
    try:
        return [where[tuple(w)] for w in want]
    except KeyError:
        return None


def cell_ok(x, q):
    try:
        x = float(x)
    except (TypeError, ValueError):
        return False
    return close(x, q)


def wire_ok(impl, wire):
    """impl = call_impl result of a scalar function; wire = (tag, q): 0 value, 1 NaN, 2 the code raises"""
    tag, q = wire
    if tag == 2:
        return impl[0] == 'exc'
    if impl[0] != 'ok':
        return False
    try:
        x = float(impl[1])
    except (TypeError, ValueError):
        return False
    return math.isnan(x) if tag == 1 else close(x, q)


def matrix_ok(res, names, M):
    if not isinstance(res, pd.DataFrame) or res.shape != (len(names), len(names)):
        return False
    pr, pc_ = positions(res.index.tolist(), names), positions(res.columns.tolist(), names)
    if pr is None or pc_ is None:
        return False
    a = res.to_numpy()
    return all(cell_ok(a[pr[i]][pc_[j]], M[i][j]) for i in range(len(names)) for j in range(len(names)))


def by_label(res, names):
    """rows of a per-group result (frame or series) in the order of `names`, or None"""
    if not isinstance(res, (pd.DataFrame, pd.Series)):
        return None
    p = positions(res.index.tolist(), names)
    if p is None:
        return None
    a = res.to_numpy()
    if a.ndim == 1:
        a = a.reshape(len(a), 1)
    return a[p] if len(p) else a


def pairs_by_label(res, pairs):
    """rows of a condensed result in the order of `pairs` (list of (name1, name2)); a pair may be listed in either orientation"""
    if not isinstance(res, pd.DataFrame) or len(res) != len(pairs):
        return None
    a = res.to_numpy()
    if not pairs:
        return a
    got = [(nm(x), nm(y)) for x, y in res.index.tolist()]
    where = {}
    for i, (x, y) in enumerate(got):
        where[(x, y)] = i
        where[(y, x)] = i
    if len(where) != 2 * len(pairs):
        return None
    try:
        return a[[where[(tuple(x), tuple(y))] for x, y in pairs]]
    except KeyError:
        return None


def rows_ok(values, M):
    """values: 2-d array-like of the implementation; M: list of (None = all NaN | list of exact values)"""
    a = np.asarray(values)
    if a.ndim == 1:
        a = a.reshape(len(a), 1)
    if a.shape[0] != len(M):
        return False
    for i, m in enumerate(M):
        if m is None:
            if not all(cell_ok(x, None) for x in a[i]):
                return False
        elif len(m) != a.shape[1] or not all(cell_ok(x, q) for x, q in zip(a[i], m)):
            return False
    return True


def entropy_ok(impl, wire, base):
    """renyi2_entropy = -log_base(v): checked through base ** (-H) = v (C13_entropy_inverse), never float against float"""
    tag, q = wire
    if tag == 2:
        return impl[0] == 'exc'
    if impl[0] != 'ok':
        return False
    try:
        H = float(impl[1])
    except (TypeError, ValueError):
        return False
    if tag == 1:
        return math.isnan(H)
    lnb = 1.0 if base is None else math.log(base)
    if q == 0:
        return math.isinf(H) and (H > 0) == (lnb > 0)
    if math.isnan(H) or math.isinf(H):
        return False
    return close(math.exp(-H * lnb), q)


def std_ok(impl, parts, base):
    """stdrenyi2 = sqrt(var) / (pc ln base), checked as (S ln base)^2 = var / pc^2"""
    defined, var, pcv = parts
    if not defined or pcv == 0:
        return None                                 # N < 4 or pc = 0: the estimator is not defined, nothing is claimed
    if impl[0] != 'ok':
        return False
    try:
        S = float(impl[1])
    except (TypeError, ValueError):
        return False
    if var < 0:
        return math.isnan(S)
    lnb = 1.0 if base is None else math.log(base)
    if var == 0:
        # an exactly vanishing variance estimate is a difference of equal terms in floating point: ~0 or sqrt(-tiny) = NaN
        return math.isnan(S) or (S * lnb) ** 2 <= 1e-12
    if math.isnan(S) or math.isinf(S):
        return False
    lnb = 1.0 if base is None else math.log(base)
    # S = sqrt(var) / (pc ln base): S ln base = sqrt(var) / pc is positive (for a base below 1 the value itself is negative),
    # and its square is the exact rational var / pc^2
    return S * lnb > 0 and close((S * lnb) ** 2, var / (pcv * pcv))


# ---------------------------------------------------------------- one case = one table and one call of every function
def requests(case):
    rows, by, on = case['rows'], case['by'], case['on']
    tn = table_tokens(rows, by, on)
    ts = table_strs(rows, by)
    feat = case['features']
    tf = table_tokens(rows, by, feat)
    edges = [Fraction(e).limit_denominator(2) for e in case['edges']]
    w = None if case['w'] is None else [Fraction(x).limit_denominator(2) for x in case['w']]
    wbad = None if case.get('wbad') is None else [Fraction(x).limit_denominator(2) for x in case['wbad']]
    return [('api_c13_group_keys', [tn]), ('api_c13_conditional', [w, tn]), ('api_c13_grouped_cross', [tn]),
            ('api_c13_pcdelta_grouped', [edges, case['norm'], ts]), ('api_c13_pcdelta_grouped0', [ts]), ('api_c13_cross_index', [ts]),
            ('api_c13_pcdelta_cross_condensed', [edges, case['norm'], ts]), ('api_c13_pcdelta_cross0_condensed', [ts]),
            ('api_c13_pcdelta_cross0_square', [ts]),
            ('api_c13_renyi2_arg', [True, isinstance(feat, list), None, tf]), ('api_c13_renyi2_arg', [False, isinstance(feat, list), w, tf]),
            ('api_c13_std_parts', [[x for _, x in tf]]), ('api_c13_conditional', [wbad, tn])] + (extra_requests(case, edges, ts) if case.get('extras') else [])


def extra_requests(case, edges, ts):
    """requests 13..19: the histograms as counts (pseudocount form), the default bins, the rows of the columns (s, t) as sequences"""
    rows, by = case['rows'], case['by']
    tst = list(zip([row_key(r, by) for r in rows], tok_str(rows, ['s', 't'])))
    e25 = [Fraction(e) for e in E25]
    # a family that is not asked gets the table without rows (the model aligns every pair of sequences for each of these requests)
    tk = ts if 'pcdelta_kwargs' in case['extras'] else []
    td = ts if 'bins_default' in case['extras'] else []
    return [('api_c13_pcdelta_grouped', [edges, False, tk]), ('api_c13_pcdelta_cross_condensed', [edges, False, tk]),
            ('api_c13_pcdelta_grouped', [e25, case['norm'], td]), ('api_c13_pcdelta_cross_condensed', [e25, case['norm'], td]),
            ('api_c13_pcdelta_grouped0', [tst]), ('api_c13_pcdelta_cross0_square', [tst]), ('api_c13_pcdelta_cross0_condensed', [tst])]


NREQ = 13


def weights_obj(case):
    """the weights are aligned with the sorted surviving groups BY POSITION whatever container carries them: list, ndarray (float / int32),
    tuple, or a pandas Series whose index has nothing to do with the group keys"""
    wk = case.get('w_kind', 'array' if case.get('w_array') else 'list')
    wv = list(case['w'])
    if wk == 'array_int':
        return np.array(wv, dtype=np.int32) if all(float(x) == int(x) for x in wv) else np.array(wv, dtype=float)
    if wk == 'range' and len(wv) >= 1 and wv == list(range(int(wv[0]), int(wv[0]) + len(wv))):
        return range(int(wv[0]), int(wv[0]) + len(wv))
    return {'list': wv, 'array': np.array(wv), 'tuple': tuple(wv),
            'series': pd.Series(wv, index=['w%d' % (len(wv) - i) for i in range(len(wv))]),
            'series_int': pd.Series(wv, index=list(range(len(wv)))[::-1])}.get(wk, wv)


def edges_obj(case):
    e = case['edges']
    k = case.get('edges_kind', 'array' if case.get('edges_array') else 'list')
    if k == 'range':
        k = 'range' if all(float(x) == int(x) for x in e) and list(e) == list(range(int(e[0]), int(e[0]) + len(e))) else 'tuple'
    if k == 'range':
        return range(int(e[0]), int(e[0]) + len(e))
    if k == 'array_i32':
        k = 'array_i32' if all(float(x) == int(x) for x in e) else 'array_float'
    return {'list': list(e), 'array': np.array(e), 'tuple': tuple(e), 'array_float': np.array(e, dtype=float),
            'array_i32': np.array(e, dtype=np.int32) if k == 'array_i32' else None}[k]


def base_obj(case, base):
    k = case.get('base_kind', 'py')
    if base is None or k == 'py':
        return base
    if k == 'np.int64' and float(base) == int(base):
        return np.int64(int(base))
    return np.float64(base)


def external_by(case, df):
    """the grouping given as values instead of column labels (pandas groupby: arrays, Series, mapping or function of the row label)"""
    cols = bycols(case['by'])
    k = case.get('by_ext', 'ndarray')
    unique = df.index.is_unique
    if len(cols) > 1 or isinstance(case['by'], list) and k == 'arrays':
        if k == 'mixed':
            return 'mixed', [cols[0]] + [df[c].to_numpy() for c in cols[1:]]
        return 'arrays', [df[c].to_numpy() for c in cols]
    c = cols[0]
    if k in ('series', 'function', 'dict') and unique:
        if k == 'series':
            return k, df[c]
        m = dict(zip(df.index.tolist(), df[c].tolist()))
        return (k, m) if k == 'dict' else (k, (lambda lab, m=m: m[lab]))
    return 'ndarray', df[c].to_numpy()


def pseudo_rows(counts, c):
    """pcDelta with a pseudocount c > 0: (count + c) / (total + 2c) (model/PcDelta.pseudo, C05)"""
    out = []
    for m in counts:
        tot = sum(m)
        out.append([(x + c) / (tot + 2 * c) for x in m])
    return out


def evaluate(ctx, case, outs, light=False):
    """Runs the implementation on the case and compares with the model outputs. Returns the list of (site, message)."""
    import pyrepseq.stats as st
    import pyrepseq.distance as di
    import pyrepseq.entropy as en
    rows, by, on = case['rows'], case['by'], case['on']
    (keys, cond, cross, pdg, pdg0, cidx, pdc, pdc0, pdsq, r_plain, r_cond, stdp, condbad) = outs[:NREQ]
    df = build_df(case)
    style = case.get('style', 'default')
    tag = '' if style == 'default' else ' [call style: %s]' % style
    k2p = {frz(row_key(r, by)): py_key(r, by) for r in rows}
    names = [k2p[frz(k)] for k in keys]
    pairs = [(k2p[frz(a)], k2p[frz(b)]) for a, b in cidx]
    bad = []
    byarg = by
    T = [('df', df), ('by', byarg)]
    # -- pc_conditional
    kw = {}
    if case['w'] is not None:
        kw = dict(group_weights=weights_obj(case))
    gw = [('group_weights', kw.get('group_weights'), bool(kw), None)]
    r = invoke(style, st.pc_conditional, T + [('on', on)], gw)
    if not wire_ok(r, cond):
        bad.append(('stats.pc_conditional', 'pc_conditional(by=%r, on=%r, %r)%s = %s, model %s' % (by, on, kw, tag, r, cond)))
    if case.get('wbad') is not None:
        r = call_impl(st.pc_conditional, df, byarg, on, group_weights=case['wbad'])
        if condbad[0] == 2 and r[0] != 'exc':
            bad.append(('stats.pc_conditional[weights]', 'pc_conditional accepted %d weights for another number of groups: %s' % (len(case['wbad']), r)))
    # -- pc_grouped_cross
    r = invoke(style, st.pc_grouped_cross, T + [('on', on)])
    if r[0] != 'ok' or not matrix_ok(r[1], names, cross):
        bad.append(('stats.pc_grouped_cross', 'pc_grouped_cross(by=%r, on=%r)%s =\n%s\nmodel: groups %s matrix %s' % (by, on, tag, r[1], names, cross)))
    if light:
        edges_calls = []
    else:
        edges_calls = [edges_obj(case)]
    S = T + [('seq_columns', 's')]
    kwn = (dict(normalize=True) if style == 'keyword' else {}) if case['norm'] else dict(normalize=False)
    # -- pcDelta_grouped
    for e in edges_calls:
        r = invoke(style, di.pcDelta_grouped, S, kw=dict(bins=e, **kwn))
        a = by_label(r[1], names) if r[0] == 'ok' else None
        if a is None or not rows_ok(a, [m for _, m in pdg]):
            bad.append(('distance.pcDelta_grouped', 'pcDelta_grouped(by=%r, bins=%r, %r)%s =\n%s\nmodel %s' % (by, e, kwn, tag, r[1], pdg)))
        r = invoke(style, di.pcDelta_grouped_cross, S, [('condensed', True, True, False)], dict(bins=e, **kwn))
        a = pairs_by_label(r[1], pairs) if r[0] == 'ok' else None
        if a is None or not rows_ok(a, pdc):
            bad.append(('distance.pcDelta_grouped_cross[condensed]', 'pcDelta_grouped_cross(by=%r, condensed=True, bins=%r, %r)%s =\n%s\nmodel %s %s' % (by, e, kwn, tag, r[1], pairs, pdc)))
    # -- bins = 0: the coincidence form
    r = invoke(style, di.pcDelta_grouped, S, kw=dict(bins=0))
    a = by_label(r[1], names) if r[0] == 'ok' else None
    if a is None or not rows_ok(a, [None if m is None else [m] for _, m in pdg0]):
        bad.append(('distance.pcDelta_grouped[bins=0]', 'pcDelta_grouped(by=%r, bins=0)%s =\n%s\nbut the pcDelta (= pc) of each group alone is %s' % (by, tag, r[1], [(k2p[frz(k)], str(m)) for k, m in pdg0])))
    r = invoke(style, di.pcDelta_grouped_cross, S, [('condensed', False, False, False)], dict(bins=0))
    if r[0] != 'ok' or not matrix_ok(r[1], names, pdsq):
        bad.append(('distance.pcDelta_grouped_cross[square]', 'pcDelta_grouped_cross(by=%r, bins=0)%s =\n%s\nmodel (within-group value on the diagonal): groups %s matrix %s' % (by, tag, r[1], names, pdsq)))
    # -- the sequence given as TWO columns (paired chains: first residue / rest, so rows coincide exactly when the sequences do and some
    #    rows share one column only): the coincidence form of a list of columns is that of the rows, value for value as above
    if case.get('paired', True):
        df2 = df.assign(CDR3A=[str(x)[:1] for x in df['s']], CDR3B=[str(x)[1:] for x in df['s']])
        ctx.count('paired_columns_bins0')
        r = call_impl(di.pcDelta_grouped_cross, df2, byarg, ['CDR3A', 'CDR3B'], bins=0)
        if r[0] != 'ok' or not matrix_ok(r[1], names, pdsq):
            bad.append(('distance.pcDelta_grouped_cross[square,two columns]', 'pcDelta_grouped_cross(by=%r, seq_columns=[CDR3A, CDR3B], bins=0) =\n%s\nmodel (rows '
                        'coincide iff both columns do): groups %s matrix %s' % (by, r[1], names, pdsq)))
        r = call_impl(di.pcDelta_grouped, df2, byarg, ['CDR3A', 'CDR3B'], bins=0)
        a = by_label(r[1], names) if r[0] == 'ok' else None
        if a is None or not rows_ok(a, [None if m is None else [m] for _, m in pdg0]):
            bad.append(('distance.pcDelta_grouped[bins=0,two columns]', 'pcDelta_grouped(by=%r, seq_columns=[CDR3A, CDR3B], bins=0) =\n%s\nbut the pc of each '
                        'group\'s rows is %s' % (by, r[1], [(k2p[frz(k)], str(m)) for k, m in pdg0])))
    if not light:
        r = invoke(style, di.pcDelta_grouped_cross, S, [('condensed', True, True, False)], dict(bins=0))
        a = pairs_by_label(r[1], pairs) if r[0] == 'ok' else None
        if a is None or not rows_ok(a, [None if m is None else [m] for m in pdc0]):
            bad.append(('distance.pcDelta_grouped_cross[condensed,bins=0]', 'pcDelta_grouped_cross(by=%r, condensed=True, bins=0)%s =\n%s\nmodel %s %s' % (by, tag, r[1], pairs, pdc0)))
        # -- entropies
        feat, base = case['features'], case['base']
        given = not case.get('base_default')
        if case.get('base_default'):
            base = 2.0
        barg = base_obj(case, base)
        kb = dict(base=barg) if given else {}
        fsel = feat
        F = [('df', df), ('features', fsel)]
        r = invoke(style, en.renyi2_entropy, F, [('by', None, False, None), ('base', barg, given, 2.0)])
        if not entropy_ok(r, r_plain, base):
            bad.append(('entropy.renyi2_entropy', 'renyi2_entropy(features=%r, %r)%s = %s, but pc = %s' % (feat, kb, tag, r, r_plain)))
        r = invoke(style, en.renyi2_entropy, F, [('by', byarg, True, None), ('base', barg, given, 2.0)], kw)
        if not entropy_ok(r, r_cond, base):
            bad.append(('entropy.renyi2_entropy[by]', 'renyi2_entropy(features=%r, by=%r, %r, %r)%s = %s, but pc_conditional = %s' % (feat, by, kb, kw, tag, r, r_cond)))
        r = invoke(style, en.stdrenyi2_entropy, F, [('base', barg, given, 2.0)])
        v = std_ok(r, stdp, base)
        if v is False:
            bad.append(('entropy.stdrenyi2_entropy', 'stdrenyi2_entropy(features=%r, %r)%s = %s, but (defined, varpc, pc) = %s' % (feat, kb, tag, r, stdp)))
        ctx.count('std_defined' if v is not None else 'std_undefined')
        for b0 in case.get('badbases', (0, -1.5)):
            for f in (en.renyi2_entropy, en.stdrenyi2_entropy):
                r = call_impl(f, df, fsel, base=b0)
                if r[0] != 'exc':
                    bad.append(('entropy.base', '%s accepted base=%r' % (f.__name__, b0)))
        bad += evaluate_extras(ctx, case, outs, df, names, pairs, k2p, kw, kwn, base, barg, given)
    return bad, names


def evaluate_extras(ctx, case, outs, df, names, pairs, k2p, kw, kwn, base, barg, given):
    """the rarely used spellings of the same questions; every one is answered by the same model values"""
    import pyrepseq.stats as st
    import pyrepseq.distance as di
    import pyrepseq.entropy as en
    from pyrepseq.metric import Levenshtein
    (keys, cond, cross, pdg, pdg0, cidx, pdc, pdc0, pdsq, r_plain, r_cond, stdp, condbad) = outs[:NREQ]
    extras = case.get('extras') or []
    if not extras:
        return []
    cnt_g, cnt_c, d_g, d_c, st_g0, st_sq, st_c0 = outs[NREQ:NREQ + 7]
    by, on, feat = case['by'], case['on'], case['features']
    bad = []
    for x in extras:
        ctx.count('extra:' + x)
    if 'bins_default' in extras:
        # no `bins` at all / bins=None: pcDelta's default edges 0, 1, ..., 24
        for kwb in ({}, dict(bins=None)):
            r = call_impl(di.pcDelta_grouped, df, by, 's', **kwb, **kwn)
            a = by_label(r[1], names) if r[0] == 'ok' else None
            if a is None or not rows_ok(a, [m for _, m in d_g]):
                bad.append(('distance.pcDelta_grouped[default bins]', 'pcDelta_grouped(by=%r, %r, %r) =\n%s\nmodel (edges 0..24) %s' % (by, kwb, kwn, r[1], d_g)))
            r = call_impl(di.pcDelta_grouped_cross, df, by, 's', True, **kwb, **kwn)
            a = pairs_by_label(r[1], pairs) if r[0] == 'ok' else None
            if a is None or not rows_ok(a, d_c):
                bad.append(('distance.pcDelta_grouped_cross[default bins]', 'pcDelta_grouped_cross(by=%r, condensed=True, %r, %r) =\n%s\nmodel (edges 0..24) %s %s' % (by, kwb, kwn, r[1], pairs, d_c)))
    if 'pcdelta_kwargs' in extras:
        # everything in **kwargs reaches pcDelta: pseudocount, maxseqs (no fewer than there are rows: nothing is dropped), metric (the default one, named)
        pk = case.get('pcd_kwargs') or dict(pseudocount=0.5)
        kwp = {k: v for k, v in pk.items() if k != 'metric'}
        if pk.get('metric'):
            kwp['metric'] = Levenshtein()
        c = Fraction(pk.get('pseudocount', 0)).limit_denominator(4)
        e = edges_obj(case)
        if not case['norm']:
            want_g, want_c = [m for _, m in cnt_g], cnt_c
        elif c == 0:
            want_g, want_c = [m for _, m in pdg], pdc
        else:
            want_g, want_c = pseudo_rows([m for _, m in cnt_g], c), pseudo_rows(cnt_c, c)
        r = call_impl(di.pcDelta_grouped, df, by, 's', bins=e, **kwn, **kwp)
        a = by_label(r[1], names) if r[0] == 'ok' else None
        if a is None or not rows_ok(a, want_g):
            bad.append(('distance.pcDelta_grouped[kwargs]', 'pcDelta_grouped(by=%r, bins=%r, %r, %r) =\n%s\nthe pcDelta of each group alone with these options: %s' % (by, e, kwn, pk, r[1], [[str(q) for q in m] if m else m for m in want_g])))
        r = call_impl(di.pcDelta_grouped_cross, df, by, 's', condensed=True, bins=e, **kwn, **kwp)
        a = pairs_by_label(r[1], pairs) if r[0] == 'ok' else None
        if a is None or not rows_ok(a, want_c):
            bad.append(('distance.pcDelta_grouped_cross[kwargs]', 'pcDelta_grouped_cross(by=%r, condensed=True, bins=%r, %r, %r) =\n%s\nthe two-collection pcDelta of %s with these options: %s' % (by, e, kwn, pk, r[1], pairs, [[str(q) for q in m] if m else m for m in want_c])))
        if 'maxseqs' in kwp or 'metric' in kwp:
            kw0 = {k: v for k, v in kwp.items() if k != 'pseudocount'}
            r = call_impl(di.pcDelta_grouped_cross, df, by, 's', bins=0, **kw0)
            if r[0] != 'ok' or not matrix_ok(r[1], names, pdsq):
                bad.append(('distance.pcDelta_grouped_cross[square,kwargs]', 'pcDelta_grouped_cross(by=%r, bins=0, %r) =\n%s\nmodel: groups %s matrix %s' % (by, pk, r[1], names, pdsq)))
    if 'by_external' in extras:
        kind, bx = external_by(case, df)
        ctx.count('by given as %s' % kind)
        r = call_impl(st.pc_grouped_cross, df, bx, on)
        if r[0] != 'ok' or not matrix_ok(r[1], names, cross):
            bad.append(('stats.pc_grouped_cross[by values]', 'pc_grouped_cross(by=<%s of the column(s) %r>, on=%r) =\n%s\nmodel: groups %s matrix %s' % (kind, by, on, r[1], names, cross)))
        r = call_impl(di.pcDelta_grouped, df, bx, 's', bins=0)
        a = by_label(r[1], names) if r[0] == 'ok' else None
        if a is None or not rows_ok(a, [None if m is None else [m] for _, m in pdg0]):
            bad.append(('distance.pcDelta_grouped[by values]', 'pcDelta_grouped(by=<%s of the column(s) %r>, bins=0) =\n%s\nbut the pc of each group alone is %s' % (kind, by, r[1], [(k2p[frz(k)], str(m)) for k, m in pdg0])))
        r = call_impl(di.pcDelta_grouped_cross, df, bx, 's', bins=0)
        if r[0] != 'ok' or not matrix_ok(r[1], names, pdsq):
            bad.append(('distance.pcDelta_grouped_cross[by values]', 'pcDelta_grouped_cross(by=<%s of the column(s) %r>, bins=0) =\n%s\nmodel: groups %s matrix %s' % (kind, by, r[1], names, pdsq)))
        e = edges_obj(case)
        r = call_impl(di.pcDelta_grouped_cross, df, bx, 's', condensed=True, bins=e, **kwn)
        a = pairs_by_label(r[1], pairs) if r[0] == 'ok' else None
        if a is None or not rows_ok(a, pdc):
            bad.append(('distance.pcDelta_grouped_cross[condensed,by values]', 'pcDelta_grouped_cross(by=<%s of the column(s) %r>, condensed=True, bins=%r, %r) =\n%s\nmodel %s %s' % (kind, by, e, kwn, r[1], pairs, pdc)))
    if 'seq_list' in extras:
        # seq_columns as a list: of the one column (the same sequences), of the columns (s, t) (a row = both cells)
        for cols, g0, sq, c0 in ((['s'], pdg0, pdsq, pdc0), (['s', 't'], st_g0, st_sq, st_c0)):
            r = call_impl(di.pcDelta_grouped, df, by, cols, bins=0)
            a = by_label(r[1], names) if r[0] == 'ok' else None
            if a is None or not rows_ok(a, [None if m is None else [m] for _, m in g0]):
                bad.append(('distance.pcDelta_grouped[bins=0,column list]', 'pcDelta_grouped(by=%r, seq_columns=%r, bins=0) =\n%s\nbut the pc of each group\'s rows is %s' % (by, cols, r[1], [(k2p[frz(k)], str(m)) for k, m in g0])))
            r = call_impl(di.pcDelta_grouped_cross, df, by, cols, bins=0)
            if r[0] != 'ok' or not matrix_ok(r[1], names, sq):
                bad.append(('distance.pcDelta_grouped_cross[square,column list]', 'pcDelta_grouped_cross(by=%r, seq_columns=%r, bins=0) =\n%s\nmodel: groups %s matrix %s' % (by, cols, r[1], names, sq)))
            r = call_impl(di.pcDelta_grouped_cross, df, by, cols, True, bins=0)
            a = pairs_by_label(r[1], pairs) if r[0] == 'ok' else None
            if a is None or not rows_ok(a, [None if m is None else [m] for m in c0]):
                bad.append(('distance.pcDelta_grouped_cross[condensed,column list]', 'pcDelta_grouped_cross(by=%r, seq_columns=%r, condensed=True, bins=0) =\n%s\nmodel %s %s' % (by, cols, r[1], pairs, c0)))
    if 'gap_token' in extras:
        # the separator of the joined feature cells is free as long as no cell contains it: the same stdpc / (pc ln base)
        tok = case.get('gap_token', '-')
        kb = dict(base=barg) if given else {}
        r = call_impl(en.stdrenyi2_entropy, df, feat, gap_token=tok, **kb)
        if std_ok(r, stdp, base) is False:
            bad.append(('entropy.stdrenyi2_entropy[gap_token]', 'stdrenyi2_entropy(features=%r, %r, gap_token=%r) = %s, but (defined, varpc, pc) = %s' % (feat, kb, tok, r, stdp)))
    if 'repeat' in extras:
        # the same questions once more on the same objects (table, weights) after everything above
        r = call_impl(st.pc_conditional, df, by, on, **kw)
        if not wire_ok(r, cond):
            bad.append(('stats.pc_conditional[again]', 'second pc_conditional(by=%r, on=%r, %r) on the same table and weights = %s, model %s' % (by, on, kw, r, cond)))
        kb = dict(base=barg) if given else {}
        r = call_impl(en.renyi2_entropy, df, feat, by, **kb, **kw)
        if not entropy_ok(r, r_cond, base):
            bad.append(('entropy.renyi2_entropy[by,again]', 'second renyi2_entropy(features=%r, by=%r, %r, %r) = %s, but pc_conditional = %s' % (feat, by, kb, kw, r, r_cond)))
        r = call_impl(st.pc_grouped_cross, df, by, on)
        if r[0] != 'ok' or not matrix_ok(r[1], names, cross):
            bad.append(('stats.pc_grouped_cross[again]', 'second pc_grouped_cross(by=%r, on=%r) =\n%s\nmodel: groups %s matrix %s' % (by, on, r[1], names, cross)))
        r = call_impl(di.pcDelta_grouped_cross, df, by, 's', bins=0)
        if r[0] != 'ok' or not matrix_ok(r[1], names, pdsq):
            bad.append(('distance.pcDelta_grouped_cross[square,again]', 'second pcDelta_grouped_cross(by=%r, bins=0) =\n%s\nmodel: groups %s matrix %s' % (by, r[1], names, pdsq)))
    return bad


def nontrivial(outs):
    (keys, cond, cross, pdg, pdg0, cidx, pdc, pdc0, pdsq, r_plain, r_cond, stdp, condbad) = outs[:NREQ]
    big = sum(1 for _, m in pdg0 if m is not None)
    return big >= 2 and cond[0] == 0 and 0 < cond[1] < 1 and any(x is not None and 0 < x < 1 for row in cross for x in row)


def report(ctx, case, bad):
    for site, msg in bad:
        opts = {k: case[k] for k in ('index_kind', 'dtypes', 'layout', 'style') if case.get(k) not in (None, 'range', 'default', {})}
        ctx.violation('property', msg + '\ntable rows (g, h, f, s, t, u): %s%s' % (case['rows'] if len(case['rows']) <= 40 else '%s ... (%d rows, all in the replay)'
                                                                                  % (case['rows'][:40], len(case['rows'])), '\ntable as held by the caller: %s' % opts if opts else ''),
                      dict(case=case, site=site), site=site)


# ---------------------------------------------------------------- generators
# column dtypes a caller's table may carry; none changes a key, a feature value or a sequence
DTYPES = dict(g=['object', 'string'], h=['int8', 'int32', 'Int64', 'float64', 'object'], f=['float32', 'object'],
              s=['object', 'string', 'category'], t=['object', 'category', 'string'], u=['int8', 'uint8', 'float64', 'Int64', 'object'])
EXTRAS = ['bins_default', 'pcdelta_kwargs', 'by_external', 'seq_list', 'gap_token', 'repeat']
ONS = ['s', 's', ['s'], ['s', 't'], ['s', 't', 'u'], 't', 'u', ['t', 'u'], ['s', 's'], ['u', 's']]


def gen_options(rng, case, nextras=None):
    """how the same table and the same questions are handed over: row labels, column dtypes, column layout, spelling of the calls,
    containers of weights / edges / base, and which of the rarely used forms are asked as well"""
    n = len(case['rows'])
    cols = bycols(case['by'])
    case['index_kind'], case['index'] = gen_index(rng, n)
    dt = {}
    if rng.random() < 0.5:
        for c in rng.sample(COLS, rng.choice([1, 1, 2, 3])):
            dt[c] = rng.choice(DTYPES[c])
    if PENDING and rng.random() < 0.5:
        dt[rng.choice(cols)] = 'category'          # POSSIBLE DEFECT (NOTES.md): categorical grouping column with a singleton group
    case['dtypes'] = dt
    case['layout'] = rng.choice([None, None, None, 'extra', 'rev', 'extra_rev'])
    case['style'] = rng.choice(['default', 'default', 'positional', 'keyword'])
    case['edges_kind'] = rng.choice(['list', 'list', 'array', 'array', 'tuple', 'range', 'array_float', 'array_i32'])
    case['base_kind'] = rng.choice(['py', 'py', 'py', 'np.float64', 'np.int64'])
    case['badbases'] = rng.sample(BADBASES, 2)
    k = rng.choice([0, 1, 1, 2]) if nextras is None else nextras
    case['extras'] = sorted(rng.sample(EXTRAS, k))
    pk = dict(pseudocount=rng.choice([0.5, 0.5, 1, 2.5, 0.25, 0]))
    if rng.random() < 0.3:
        del pk['pseudocount']
    if rng.random() < 0.5:
        pk['maxseqs'] = rng.choice([n, n + 1, 10 ** 6])
    if rng.random() < 0.4 or not pk:
        pk['metric'] = True
    case['pcd_kwargs'] = pk
    case['by_ext'] = rng.choice(['ndarray', 'ndarray', 'series', 'function', 'dict', 'arrays', 'mixed'])
    case['gap_token'] = rng.choice(GAPS)
    if 'by_external' in case['extras'] and case['by_ext'] in ('series', 'function', 'dict') and case['index_kind'].startswith('dup'):
        case['index_kind'], case['index'] = 'perm', rng.sample(range(n), n)       # these three address rows by their label: labels must be unique
    return case


def gen_case(rng, quick, shape=None, keypool=None, sizes_of=None, cols=None):
    nby = rng.choice([1, 1, 1, 2, 2, 3])
    cols = rng.sample(['g', 'h', 'f'], nby) if cols is None else cols
    nby = len(cols)
    by = cols[0] if (nby == 1 and rng.random() < 0.6) else cols
    nbig = rng.choice([0, 1, 2, 2, 3, 3, 4, 5])
    nsingle = rng.choice([0, 0, 1, 1, 2, 3])
    if shape is not None:
        nbig, nsingle = shape
    if nbig + nsingle == 0:
        nsingle = 1
    keypool = keypool or KEYPOOL
    pools = [rng.sample(keypool[c], min(len(keypool[c]), rng.randint(2, 5) if shape is None else len(keypool[c]))) for c in cols]
    allkeys = list(itertools.product(*pools))
    rng.shuffle(allkeys)
    allkeys = allkeys[:nbig + nsingle]
    nbig = max(0, len(allkeys) - nsingle)
    sizes = (sizes_of(nbig) if sizes_of else [rng.choice([2, 2, 3, 3, 4, 5, 7]) for _ in range(nbig)]) + [1] * (len(allkeys) - nbig)
    # the second pool (130 residues, lower case, non-ASCII, the empty sequence) on the smaller tables only (up to 14 rows): the model aligns every pair
    spool = rng.sample(SEQS, rng.randint(2, 5)) if sum(sizes) > 14 or rng.random() < (0.75 if quick else 0.6) else rng.sample(SEQS2, rng.randint(2, 5))
    tpool = rng.sample(['x', 'y', 'z', 'xy'], rng.randint(1, 3))
    rows = []
    for k, sz in zip(allkeys, sizes):
        kd = dict(zip(cols, k))
        for _ in range(sz):
            rows.append([kd.get('g', 'q'), kd.get('h', 7), kd.get('f', 1.5), rng.choice(spool), rng.choice(tpool), rng.choice([1, 2, 12])])
    rng.shuffle(rows)
    on = rng.choice(ONS)
    features = rng.choice(['s', ['s'], ['s', 't'], 't', ['t', 'u'], ['s', 't', 'u'], ['t', 't'], 'u'])
    wpool = WEIGHTS if rng.random() < 0.6 else WEIGHTS2
    w = None if rng.random() < 0.4 else [rng.choice(wpool) for _ in range(nbig)]
    if w is not None and nbig and not any(w):
        w[rng.randrange(nbig)] = 2                      # the mean needs one non-zero weight
    if w is not None and rng.random() < 0.12:
        k = rng.choice([1, 2, 5])
        w = list(range(k, k + nbig))                    # what a `range` can carry
    if w is not None and all(isinstance(x, int) for x in w) is False and rng.random() < 0.5:
        w = [float(x) for x in w]
    wbad = None
    if nbig >= 1 and rng.random() < 0.3:
        wbad = [rng.choice(WEIGHTS) for _ in range(nbig + rng.choice([1, 2, -1]))]
        if len(wbad) < 2:
            wbad = None
    case = dict(rows=rows, by=by, on=on, features=features, w=w, w_kind=rng.choice(['list', 'array', 'tuple', 'series', 'series_int', 'array_int', 'range']), wbad=wbad,
                edges=rng.choice(EDGES), norm=rng.random() < 0.8, base=rng.choice(BASES), base_default=rng.random() < 0.15)
    return gen_options(rng, case)


def small_tables(nmax):
    """every table with up to nmax rows, keys from {b, a, c} (unsorted), sequences from {A, B}"""
    for n in range(1, nmax + 1):
        for ks in itertools.product('bac', repeat=n):
            for ss in itertools.product('AB', repeat=n):
                yield [[k, 7, 1.5, s, 'x', 1] for k, s in zip(ks, ss)]


def special_cases(rng, quick):
    """tables of a shape the random generator does not reach: many groups, one large group, every row its own group, one group only"""
    out = []
    many = dict(g=[a + b for a in 'abAé ' for b in 'abc9'] + ['', 'a'], h=list(range(-12, 30, 3)) + [100, 1000, -1000], f=[0.5 * i for i in range(-7, 25, 3)])
    for _ in range(3 if quick else 30):
        ng = rng.randint(9, 14) if quick else rng.randint(9, 26)
        c = gen_case(rng, quick, shape=(ng - 2, 2), keypool=many, cols=[rng.choice(['g', 'h', 'f'])])
        c['kind'] = 'many groups'
        out.append(c)
    for _ in range(1 if quick else 6):
        big = 130 if quick else rng.choice([130, 257, 300])
        c = gen_case(rng, quick, shape=(3, 1), sizes_of=lambda n, big=big: ([big, 3, 2] + [2] * n)[:n])
        c['kind'] = 'large group'
        out.append(c)
    for _ in range(2 if quick else 10):
        c = gen_case(rng, quick, shape=(0, rng.randint(2, 6)))
        c['kind'] = 'singletons only'
        out.append(c)
    for _ in range(2 if quick else 10):
        c = gen_case(rng, quick, shape=(1, 0))
        c['kind'] = 'one group'
        out.append(c)
    return out


def run_cases(ctx, cases, light=False, sample_every=50):
    rq = [requests(c) for c in cases]
    outs = ctx.oracle.run_parallel([q for r in rq for q in r], nproc=8)
    at = 0
    for n, case in enumerate(cases):
        o = outs[at:at + len(rq[n])]
        at += len(rq[n])
        err = [x for x in o if isinstance(x, Exception)]
        if err:
            ctx.violation('correspondence', 'oracle rejected a request: %s' % err[0], dict(case=case))
            continue
        bad, names = evaluate(ctx, case, o, light=light)
        nt = nontrivial(o)
        ctx.case(sample=dict(by=case['by'], on=case['on'], rows=[r[:4] for r in case['rows'][:8]], groups=[list(x) for x in names],
                             pc_conditional=str(o[1][1]), weights=case['w']) if nt and n % sample_every == 0 else None,
                 nontrivial_key=(repr(case['rows']), repr(case['by']), repr(case['on'])) if nt else None)
        report(ctx, case, bad)
        if not light:
            ctx.count('by=%d %s' % (len(bycols(case['by'])), 'label' if isinstance(case['by'], str) else 'list'))
            ctx.count('singletons=%d' % sum(1 for _, m in o[4] if m is None))
            ctx.count('groups>=2 members: %d' % min(4, sum(1 for _, m in o[4] if m is not None)))
            ctx.count('weights' if case['w'] is not None else 'uniform')
            if case['w'] is not None:
                wo = weights_obj(case)
                ctx.count('weights as %s' % (case.get('w_kind') if isinstance(wo, pd.Series) else type(wo).__name__ + (' ' + str(wo.dtype) if isinstance(wo, np.ndarray) else '')))
                if any(x <= 0 for x in case['w']):
                    ctx.count('weights with a zero or negative entry')
            ctx.count('on=%s' % ('label' if isinstance(case['on'], str) else 'list%d' % len(case['on'])))
            ctx.count('row labels: %s' % case.get('index_kind', 'range'))
            ctx.count('call style: %s' % case.get('style', 'default'))
            ctx.count('layout: %s' % case.get('layout'))
            eo = edges_obj(case)
            ctx.count('edges as %s' % (type(eo).__name__ + (' ' + str(eo.dtype) if isinstance(eo, np.ndarray) else '')))
            ctx.count('base as %s' % case.get('base_kind'))
            for c, d in (case.get('dtypes') or {}).items():
                ctx.count('dtype %s:%s' % (c, d))
            if case.get('kind'):
                ctx.count('shape: %s' % case['kind'])
            if any(len(r[3]) > 127 for r in case['rows']):
                ctx.count('sequences longer than 127')
            if len(case['rows']) <= 7 and len(ctx.vm_cases) < 36:
                for j in (1, 2, 4, 8):
                    ctx.add_vm(rq[n][j][0], rq[n][j][1], o[j])
        if len(ctx.violations) > 6:
            return False
    return True


def run_empty(ctx):
    """the table without rows: no group has two members, so pc_conditional (and the entropy of it) is undefined = NaN; pc of no rows is 0/0"""
    import pyrepseq.stats as st
    import pyrepseq.entropy as en
    case = dict(rows=[], by='g', on='s', features='s', w=None, wbad=None, edges=[0, 1, 2], norm=True, base=2.0)
    cond, r_plain, r_cond = ctx.oracle.run([requests(case)[j] for j in (1, 9, 10)])
    df = make_df([])
    for by in ('g', ['g'], ['g', 'h']):
        for on in ('s', ['s', 't']):
            ctx.count('empty table')
            r = call_impl(st.pc_conditional, df, by, on)
            if not wire_ok(r, cond):
                ctx.violation('property', 'pc_conditional(table without rows, by=%r, on=%r) = %s, model %s' % (by, on, r, cond), dict(case=dict(case, by=by, on=on), site='stats.pc_conditional[empty]'), site='stats.pc_conditional[empty]')
            r = call_impl(en.renyi2_entropy, df, on, by=by)
            if not entropy_ok(r, r_cond, 2.0):
                ctx.violation('property', 'renyi2_entropy(table without rows, %r, by=%r) = %s, pc_conditional is %s' % (on, by, r, r_cond), dict(case=dict(case, by=by, features=on), site='entropy.renyi2_entropy[by,empty]'), site='entropy.renyi2_entropy[by,empty]')
    ctx.case()


def run_one_feature_list(ctx):
    """features given as a LIST OF ONE column whose cells are partly missing: a list means the joint form (rows coincide when the
    selected columns agree; a missing cell is one distinct empty value), whatever the length of the list.  Expected value: the fraction
    of coinciding row pairs counted directly (C02_pc_counts), as an exact rational."""
    import pyrepseq.entropy as en
    from fractions import Fraction
    rng = ctx.rng
    for t in range(6 if ctx.quick else 60):
        n = rng.randint(3, 9)
        cells = [rng.choice(['A', 'B', 'A', None, None]) for _ in range(n)]
        if None not in cells:
            cells[rng.randrange(n)] = None
        keys = ['' if c is None else c for c in cells]
        num = sum(1 for i in range(n) for j in range(n) if i != j and keys[i] == keys[j])
        q = Fraction(num, n * (n - 1))
        df = pd.DataFrame(dict(s=pd.Series(cells, dtype=object), g=[rng.choice('ab') for _ in range(n)]))
        base = rng.choice([2.0, math.e, 10.0])
        r = call_impl(en.renyi2_entropy, df, ['s'], base=base)
        ctx.count('one_feature_list_with_missing_cells')
        ctx.case(nontrivial_key=('one-feature-list', tuple(keys)) if 0 < q < 1 else None)
        ok = r[0] == 'ok' and ((q == 0 and (math.isinf(float(r[1])) or float(r[1]) > 700)) or
                               (q > 0 and abs(base ** (-float(r[1])) - float(q)) <= 1e-9))
        if not ok:
            ctx.violation('property', 'renyi2_entropy(table with column s = %s, features=[\'s\'], base=%r) = %s, but the joint pc of the '
                          'selected column is %s (a missing cell is one distinct empty value) and the entropy its -log' % (cells, base, r, q),
                          dict(case=dict(cells=cells, base=base, expected=str(q)), site='entropy.renyi2_entropy[one-feature list]'),
                          site='entropy.renyi2_entropy[one-feature list]')


def run_numeric_feature_with_missing(ctx):
    """ONE numeric feature column (a label, not a list) with missing cells: renyi2_entropy / stdrenyi2_entropy are -log pc and stdpc / pc of
    that column, and pc / stdpc count a missing cell as one more distinct value (NumPy's unique puts all NaN together) - so a tally that
    drops the missing rows (value_counts) is another number (seeded change C13-r6m1).  Expected values: the model's std parts of the
    tokens, NaN being one token."""
    import pyrepseq.entropy as en
    rng = ctx.rng
    for t in range(8 if ctx.quick else 80):
        n = rng.randint(5, 12)
        vals = [rng.choice([1.0, 2.0, 2.0, 3.5, None, None]) for _ in range(n)]
        if None not in vals:
            vals[rng.randrange(n)] = None
        toks = [0 if v is None else int(v * 2) for v in vals]
        parts = ctx.oracle.run([('api_c13_std_parts', [toks])])[0]
        num = sum(1 for i in range(n) for j in range(n) if i != j and toks[i] == toks[j])
        q = Fraction(num, n * (n - 1))
        df = pd.DataFrame(dict(s=[float('nan') if v is None else v for v in vals], g=[rng.choice('ab') for _ in range(n)]))
        base = rng.choice([2.0, math.e, 10.0])
        r = call_impl(en.renyi2_entropy, df, 's', base=base)
        ok = r[0] == 'ok' and ((q == 0 and (math.isinf(float(r[1])) or float(r[1]) > 700)) or
                               (q > 0 and abs(base ** (-float(r[1])) - float(q)) <= 1e-9))
        ctx.count('numeric_feature_with_missing_cells')
        ctx.case(nontrivial_key=('numeric-feature-missing', tuple(toks)) if 0 < q < 1 else None)
        site = 'entropy.renyi2_entropy[numeric feature, missing cells]'
        if not ok:
            ctx.violation('property', 'renyi2_entropy(table with numeric column s = %s, features=\'s\', base=%r) = %s, but pc of that column is %s '
                          '(the missing cells are one distinct value) and the entropy its -log' % (vals, base, r, q),
                          dict(case=dict(cells=vals, base=base, expected=str(q)), site=site), site=site)
            return
        r = call_impl(en.stdrenyi2_entropy, df, 's', base=base)
        v = std_ok(r, parts, base)
        ctx.count('numeric_feature_missing_std_defined' if v is not None else 'numeric_feature_missing_std_undefined')
        site = 'entropy.stdrenyi2_entropy[numeric feature, missing cells]'
        if v is False:
            ctx.violation('property', 'stdrenyi2_entropy(table with numeric column s = %s, features=\'s\', base=%r) = %s, but stdpc / pc of that '
                          'column (the missing cells are one distinct value) has (defined, varpc, pc) = %s' % (vals, base, r, parts),
                          dict(case=dict(cells=vals, base=base, parts=str(parts)), site=site), site=site)
            return


def run_deep_group(ctx):
    """one group far larger than the others (10 001 rows and more: a deep repertoire next to shallow ones): pcDelta_grouped_cross(condensed)
    is still, for every pair of groups, the two-collection pcDelta of ALL their rows - no silent sub-sampling (seeded change C13-r6m2: a default
    maxseqs).  The deep group repeats a few motifs, so the expected histogram is the multiplicity-weighted histogram of the model's
    distances (api_lev) between distinct strings, an exact rational per bin."""
    import pyrepseq.distance as di
    rng = ctx.rng
    motifs = ['CASSLGQ', 'CASSLAQ', 'CASSPGQ', 'CASRLGQY', 'CAWSVGQ', 'CASSL', 'CATSRDNEQF', 'CASS', 'CAS', 'CASSLGQETQYF']
    sizes = [10001, rng.choice([10500, 12000, 20011])] if ctx.quick else [10001, 10002, 16385, 32769, 65537, 100003]
    edges = list(range(0, 31))
    for N in sizes:
        w = [rng.choice([1, 1, 2, 5, 9]) for _ in motifs]
        deep = [m for m, c in zip(motifs, w) for _ in range(c)]
        deep = (deep * (N // len(deep) + 1))[:N]
        rng.shuffle(deep)
        shallow = {'s1': [rng.choice(motifs) for _ in range(rng.randint(1, 4))], 's2': [rng.choice(motifs) for _ in range(rng.randint(2, 3))]}
        rows = [('deep', x) for x in deep] + [(g, x) for g, xs in shallow.items() for x in xs]
        rng.shuffle(rows)
        df = pd.DataFrame(dict(donor=[g for g, _ in rows], cdr3=[x for _, x in rows]))
        groups = dict(shallow, deep=deep)
        names = sorted(groups)
        pairs = [(g, h) for i, g in enumerate(names) for h in names[i + 1:]]
        need = sorted({(a, b) for g, h in pairs for a in set(groups[g]) for b in set(groups[h])})
        dist = dict(zip(need, ctx.oracle.run([('api_lev', [a, b]) for a, b in need])))
        r = call_impl(di.pcDelta_grouped_cross, df, 'donor', 'cdr3', condensed=True, bins=np.array(edges))
        ctx.count('deep_group N>%d' % max(x for x in (9999, 16384, 65536) if N > x))
        ctx.case(nontrivial_key=('deep-group', N, tuple(w)))
        site = 'distance.pcDelta_grouped_cross[one group above 10 000 rows]'
        why = None
        if r[0] != 'ok':
            why = 'raised / returned %s' % (r,)
        else:
            for g, h in pairs:
                cg, ch = Counter(groups[g]), Counter(groups[h])
                exp = [Fraction(0)] * (len(edges) - 1)
                for a, ca in cg.items():
                    for b, cb in ch.items():
                        exp[int(dist[(a, b)])] += Fraction(ca * cb, len(groups[g]) * len(groups[h]))
                try:
                    got = np.asarray(r[1].loc[(g, h)], dtype=float).ravel()
                except Exception as e:
                    why = 'no row for the pair %s: %s' % ((g, h), e)
                    break
                if got.shape != (len(exp),) or any(abs(x - float(q)) > 1e-9 for x, q in zip(got, exp)):
                    why = 'row (%s, %s) = %s, but the two-collection pcDelta of all %d x %d pairs is %s' % (
                        g, h, [round(float(x), 6) for x in got[:14]], len(groups[g]), len(groups[h]), [str(q) for q in exp[:14]])
                    break
        if why:
            ctx.violation('property', 'pcDelta_grouped_cross(table with a group of %d rows over %d motifs and two shallow groups %s, by=donor, '
                          'condensed=True, bins=0..30): %s' % (N, len(motifs), shallow, why),
                          dict(case=dict(N=N, weights=w, shallow=shallow), site=site), site=site)
            return


def run_composition_extras(ctx):
    """the composition itself, on the implementation's own pcDelta: (1) with a metric whose insertions and deletions cost differently the entry
    of the pair (g, h) is pcDelta(group g, group h) in THAT order, whatever the sizes of the groups (seeded change C13-r8m1: the larger group
    put first); (2) the coincidence form bins=0 may be spelled by any zero (Python / NumPy integer or float, 0-d array), as pcDelta itself
    accepts (seeded change C13-r8m2)."""
    import pyrepseq.distance as di
    from pyrepseq.metric import WeightedLevenshtein
    rng = ctx.rng
    for t in range(4 if ctx.quick else 40):
        sizes = dict(zip('abc', rng.sample([2, 3, 5, 6], 3)))
        rows = [(g, ''.join(rng.choice('AC') for _ in range(rng.randint(0, 6)))) for g, n in sizes.items() for _ in range(n)]
        rng.shuffle(rows)
        df = pd.DataFrame(dict(g=[r[0] for r in rows], s=[r[1] for r in rows]))
        w = rng.choice([(1, 3, 2), (3, 1, 2), (1, 2, 5)])
        edges = np.arange(0, 40)
        groups = {g: [x for k, x in rows if k == g] for g in sizes}
        names = sorted(groups)
        r = call_impl(lambda: di.pcDelta_grouped_cross(df, 'g', 's', condensed=True, bins=edges, metric=WeightedLevenshtein(*w)))
        ctx.count('composition: asymmetric metric through **kwargs')
        ctx.case(nontrivial_key=('comp-asym', tuple(rows), w))
        site = 'distance.pcDelta_grouped_cross[asymmetric metric]'
        why = None
        if r[0] != 'ok':
            why = 'outcome %s' % (r,)
        else:
            for i, g in enumerate(names):
                for h in names[i + 1:]:
                    exp = call_impl(lambda: di.pcDelta(groups[g], groups[h], metric=WeightedLevenshtein(*w), bins=edges))
                    try:
                        got = np.asarray(r[1].loc[(g, h)], dtype=float).ravel()
                    except Exception as e:
                        why = 'no row for the pair %s: %s' % ((g, h), e)
                        break
                    if exp[0] != 'ok' or got.shape != np.asarray(exp[1]).shape or not np.allclose(got, np.asarray(exp[1], dtype=float), rtol=0, atol=1e-12, equal_nan=True):
                        why = 'row (%s, %s) = %s, but pcDelta(group %s, group %s) with the same metric = %s' % (
                            g, h, [round(float(x), 6) for x in got[:16]], g, h, exp[1][:16] if exp[0] == 'ok' else exp)
                        break
                if why:
                    break
        if why:
            ctx.violation('property', 'pcDelta_grouped_cross(table %s, by=g, condensed=True, bins=0..39, metric=WeightedLevenshtein%s): %s' % (rows, w, why),
                          dict(case=dict(table=rows, weights=list(w)), site=site), site=site)
            return
    # a table built from an array: INTEGER column labels; a single feature column given by its (non-string) label (seeded change C13-r9m1)
    import pyrepseq.entropy as en
    cells = ['x', 'y', 'x', 'x', 'z', 'y', 'x', 'y']
    dfi = pd.DataFrame([[g_, c_, 7] for g_, c_ in zip('aabbabab', cells)])
    num = sum(1 for i_ in range(8) for j_ in range(8) if i_ != j_ and cells[i_] == cells[j_])
    qi = Fraction(num, 56)
    for lab in (1, np.int64(1)):
        r = call_impl(en.renyi2_entropy, dfi, lab, base=2.0)
        ctx.count('composition: integer column label as the single feature')
        ctx.case(nontrivial_key=('comp-intlabel', repr(lab)))
        ok = r[0] == 'ok' and abs(2.0 ** (-float(r[1])) - float(qi)) <= 1e-9
        r2 = call_impl(en.stdrenyi2_entropy, dfi, lab, base=2.0)
        ok2 = r2[0] == 'ok'
        if not (ok and ok2):
            site = 'entropy.renyi2_entropy[integer column label]'
            ctx.violation('property', 'table with integer column labels 0, 1, 2 (column 1 = %s): renyi2_entropy(df, %r) = %s (pc of that column is %s), '
                          'stdrenyi2_entropy(df, %r) = %s' % (cells, lab, r, qi, lab, str(r2)[:200]), dict(case=dict(cells=cells, label=repr(lab)), site=site), site=site)
            return
    # zeros of other types
    rows = [('a', 'AC'), ('a', 'AC'), ('a', 'A'), ('b', 'AC'), ('b', 'C'), ('b', 'C'), ('c', 'AC')]
    df = pd.DataFrame(dict(g=[r[0] for r in rows], s=[r[1] for r in rows]))
    base_g = call_impl(lambda: di.pcDelta_grouped(df, 'g', 's', bins=0))
    base_c = call_impl(lambda: di.pcDelta_grouped_cross(df, 'g', 's', bins=0))
    for name, z in (('np.int64(0)', np.int64(0)), ('0.0', 0.0), ('np.float64(0)', np.float64(0)), ('np.array(0)', np.array(0)), ('np.arange(3)[0]', np.arange(3)[0])):
        for fn, base, what in ((di.pcDelta_grouped, base_g, 'pcDelta_grouped'), (di.pcDelta_grouped_cross, base_c, 'pcDelta_grouped_cross[square]')):
            r = call_impl(lambda: fn(df, 'g', 's', bins=z))
            ctx.count('composition: bins = a zero of another type')
            ctx.case(nontrivial_key=('comp-zero', name, what))
            same = r[0] == 'ok' and base[0] == 'ok' and np.allclose(np.asarray(r[1], dtype=float), np.asarray(base[1], dtype=float), atol=1e-12, rtol=0, equal_nan=True)
            if not same:
                site = 'distance.%s[bins=zero of another type]' % what.split('[')[0]
                ctx.violation('property', '%s(table %s, by=g, bins=%s) = %s, but with bins=0 (the same coincidence form for pcDelta) it is %s' %
                              (what, rows, name, str(r)[:300], str(base)[:300]), dict(case=dict(table=rows, zero=name), site=site), site=site)
                return


def run(ctx):
    rng = ctx.rng
    ctx.rule = ('(a) every table with <= %d rows over group keys {b, a, c} and sequences {A, B}: pc_conditional, pc_grouped_cross, pcDelta_grouped(bins=0), '
                'pcDelta_grouped_cross(bins=0, square); (b) random tables with 1-3 grouping columns (string / int / float keys, unsorted, 0-3 singleton groups, '
                '0-5 larger groups; also 9-26 groups, one group of 130-300 rows, singletons only, one group, no rows), 1-3 feature columns, weights from '
                '{1,2,3,5,0.5,2.5} (also 0, negative, 100) or uniform in seven containers, bin edge vectors (list / tuple / range / int and float arrays, integer / '
                'half-integer), default bins and bins=0, pseudocount / maxseqs / metric through **kwargs, condensed and square forms, normalize on/off, twelve bases as '
                'Python and NumPy numbers, None and default; the table with default / shifted / permuted / string / float / repeated row labels, other column dtypes, '
                'extra and reordered columns; calls spelled positionally, by keyword and mixed; grouping given as column labels or as values (array, Series, mapping, '
                'function); sequence column(s) as a label or a list: all six functions. '
                'non-trivial := at least two groups with two or more members, 0 < pc_conditional < 1 and some cross entry strictly between 0 and 1') % (4 if ctx.quick else 5)
    # dispatch facts regenerated from the source
    d = ctx.oracle.run([('api_c13_dispatch', [a, b]) for a in (True, False) for b in (True, False)])
    ctx.note('regenerated dispatch (renyi2, stdrenyi2, conditional/cross) for (by_falsy, is_list) in TT, TF, FT, FF: %s' % (d,))
    base_case = dict(by='g', on='s', features='s', w=None, wbad=None, edges=[0, 1, 2], norm=True, base=2.0)
    # quick tier: the two-column spelling on every fourth of the small tables (all of them in the thorough tier)
    small = [dict(base_case, rows=rows, paired=(not ctx.quick or i % 4 == 0)) for i, rows in enumerate(small_tables(4 if ctx.quick else 5))]
    if not run_cases(ctx, small, light=True, sample_every=400):
        return
    ctx.exhaustive = True
    run_empty(ctx)
    run_one_feature_list(ctx)
    run_numeric_feature_with_missing(ctx)
    run_deep_group(ctx)
    run_composition_extras(ctx)
    cases = [gen_case(rng, ctx.quick) for _ in range(250 if ctx.quick else 4000)]
    # every rarely used form at least a few times whatever the seed
    for x in EXTRAS:
        for _ in range(2 if ctx.quick else 10):
            c = gen_case(rng, ctx.quick)
            c['extras'] = [x]
            cases.append(c)
    # a few larger tables
    for _ in range(5 if ctx.quick else 60):
        c = gen_case(rng, ctx.quick)
        extra = [list(rng.choice(c['rows'])) for _ in range(rng.randint(20, 80))]
        for r in extra:
            r[3] = rng.choice(SEQS)
        c['rows'] = [r if len(r[3]) <= 20 else r[:3] + ['CASSLGQ'] + r[4:] for r in c['rows'] + extra]
        rng.shuffle(c['rows'])
        c['w'] = None
        c['wbad'] = None
        gen_options(rng, c)
        cases.append(c)
    cases += special_cases(rng, ctx.quick)
    run_cases(ctx, cases)
    ctx.assumptions += ['pandas groupby / filter / apply group rows by key, keep row order inside a group and order groups by ascending key (modelled as a stable '
                        'insertion sort of the distinct keys; exercised on string, int and float keys)',
                        'scipy squareform(vector) and numpy fill_diagonal (modelled by square_of); numpy.histogram bin convention (model/PcDelta.v)',
                        'cells of feature columns contain no "_" (nor the separator handed to stdrenyi2_entropy, nor ".") and str() is injective on them (domain of C02_rows_coincide_iff_all_columns)',
                        'numpy log / sqrt are the real functions up to 1e-9 (entropies are compared through base**(-H) = pc and (S ln base)^2 = var / pc^2)']


def replay(ctx, obj):
    rp = obj.get('replay') or {}
    case = rp.get('case')
    if not case or 'rows' not in case:
        # the special families (one-feature list, numeric feature with missing cells, deep group) are re-run as a whole: they draw from the
        # run's own seed, which the replay file carries
        return run(ctx)
    case.setdefault('wbad', None)
    if not case['rows']:
        return run_empty(ctx)
    outs = ctx.oracle.run(requests(case))
    bad, names = evaluate(ctx, case, outs)
    ctx.case(nontrivial_key=repr(case['rows']))
    report(ctx, case, bad)
