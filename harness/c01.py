"""C01 - default neighbour search returns exactly the pairs within max_edits."""
import gens
from gens import all_strings, repertoire, has_indel_pair, has_dup_pair
from searchlib import Case, run_cases
from core import call_impl


def run(ctx):
    import pyrepseq.nn as nn
    rng = ctx.rng
    ctx.rule = ('(a) every string of length <= L over {A,C} and <= L-1 over {A,C,D}, each duplicated once, shuffled, '
                'all pairs in ONE call, k = 1..3; (b) random clonal repertoires (20 letters, unicode in thorough) incl. '
                'homopolymers, empty string, strings shorter than k, k = 1..4; both symdel and nearest_neighbor. '
                'non-trivial := expected result holds an insertion/deletion pair and a distance-0 pair')
    cases = []

    def nontriv_for(seqs):
        return lambda exp: has_indel_pair(seqs, exp) and has_dup_pair(exp)

    def mk(fn, fname, seqs, k, model):
        def remake(ss):
            return (lambda: fn(list(ss), max_edits=k)), (model, [k, list(ss)])
        th, rq = remake(seqs)
        return Case('%s k=%d n=%d' % (fname, k, len(seqs)), th, rq, seqs=list(seqs), site='nn.symdel',
                    remake=remake, nontrivial=nontriv_for(list(seqs)))

    # (a) exhaustive small alphabets
    L = 3 if ctx.quick else 4
    base = all_strings('AC', L) + all_strings('ACD', L - 1, 1)
    for k in (1, 2, 3):
        seqs = base + base
        rng.shuffle(seqs)
        cases.append(mk(nn.symdel, 'symdel[exhaustive]', seqs, k, 'api_brute_self_lev'))
        sub = rng.sample(base, 14) + rng.sample(base, 6)
        cases.append(mk(nn.nearest_neighbor, 'nearest_neighbor[exhaustive-sub]', sub, k, 'api_symdel_self_lev'))
    ctx.exhaustive = True
    # (b) random repertoires
    nrep = 120 if ctx.quick else 2500
    for t in range(nrep):
        n = rng.randint(1, 60 if ctx.quick else 250)
        alpha = gens.AA
        if not ctx.quick and t % 7 == 0:
            alpha = 'ACé中\U0001F600xyz'
        seqs = repertoire(rng, n, alpha)
        k = rng.choice([1, 1, 2, 2, 3, 4])
        fn, fname = (nn.symdel, 'symdel') if t % 2 else (nn.nearest_neighbor, 'nearest_neighbor')
        small = n <= 14 and k <= 2
        ctx.count('k=%d' % k)
        ctx.count('n<=14' if n <= 14 else 'n>14')
        ctx.count('has_empty' if '' in seqs else 'no_empty')
        cases.append(mk(fn, fname, seqs, k, 'api_symdel_self_lev' if small else 'api_brute_self_lev'))
    run_cases(ctx, cases, vm_every=9)

    # auxiliary: the deletion-variant generator against comb_gen (only if the helper still exists)
    cg = getattr(nn, '_comb_gen', None)
    if cg is not None:
        strs = all_strings('AC', 5 if ctx.quick else 7)
        reqs = [('api_comb_gen', [k, s]) for s in strs for k in (0, 1, 2, 4)]
        outs = ctx.oracle.run_parallel(reqs)
        bad = 0
        for (f, (k, s)), o in zip(reqs, outs):
            r = call_impl(cg, s, k)
            if r[0] != 'ok' or sorted(r[1]) != sorted(o):
                bad += 1
        ctx.extra['aux_comb_gen'] = dict(compared=len(reqs), differing=bad,
                                         note='auxiliary localisation only; never decides the verdict')
    ctx.assumptions += ['rapidfuzz Levenshtein.distance returns the Levenshtein distance (tied to slev by C08 correspondence)',
                        'Python set/dict/itertools.combinations semantics']


def replay(ctx, obj):
    import pyrepseq.nn as nn
    r = obj['replay']
    seqs = r['seqs']
    k = r['request'][1][0]
    c = Case('replay', lambda: nn.symdel(list(seqs), max_edits=k), ('api_brute_self_lev', [k, seqs]), seqs=seqs, site='nn.symdel')
    run_cases(ctx, [c])
