"""C01 - default neighbour search returns exactly the pairs within max_edits."""
import random
import time
import gens
from gens import all_strings, repertoire, has_indel_pair, has_dup_pair, canon_triplets, canon_model, diff_triplets, shrink_list, mutate
from searchlib import Case, run_cases
from core import call_impl, jsonable


# alphabets outside ACDEFGHIKLMNPQRSTVWY (round 3): ambiguity codes / stop marker, remaining capitals, lowercase,
# digits, gap / punctuation / whitespace, non-ASCII (Latin-1, BMP, astral), and mixtures with amino-acid letters
NON_AA_PAIRS = ['XB', 'Z*', 'ac', 'x7', '01', '-.', ' _', 'é中', '\U0001F600ß', 'AX', 'c*', 'Cc']
NON_AA_ALPHABETS = ['XBZ*', 'BJOUXZ', 'acdefghiklmnpqrstvwy', 'xyz', '0123456789', 'ACGT-.* ', 'AX', 'aA1*',
                    'é中\U0001F600ßж', 'ACDXBZ*acd']
RELABEL_TARGETS = ['abcdefghijklmnopqrstuvwxyz', 'BJOUXZ*0123456789-._ #', 'éèêëàâäçîïôöùûüÿßжд中文字\U0001F600\U0001F601',
                   'ACDEFGHIKLXBZ*acdefghikl']


def run(ctx):
    import pyrepseq.nn as nn
    rng = ctx.rng
    ctx.rule = ('(a) every string of length <= L over {A,C} and <= L-1 over {A,C,D}, each duplicated once, shuffled, '
                'all pairs in ONE call, k = 1..3; (b) random clonal repertoires (20 letters, unicode in thorough) incl. '
                'homopolymers, empty string, strings shorter than k, k = 1..4; both symdel and nearest_neighbor; '
                '(c) [round 3] alphabets OUTSIDE the 20 amino-acid letters (X/B/Z/*, other capitals, lowercase, digits, '
                'punctuation/gap characters, non-ASCII incl. astral code points): every string up to a length bound over '
                '2-letter such alphabets (each fn, k = 1..3) and about a third of the random repertoires, either grown '
                'directly over such an alphabet or an amino-acid repertoire re-lettered through a random injective map. '
                'non-trivial := expected result holds an insertion/deletion pair and a distance-0 pair')
    cases = []

    def nontriv_for(seqs):
        return lambda exp: has_indel_pair(seqs, exp) and has_dup_pair(exp)

    def mk(fn, fname, seqs, k, model):
        def remake(ss):
            return (lambda: fn(list(ss), max_edits=k)), (model, [k, list(ss)])
        th, rq = remake(seqs)
        return Case('%s k=%d n=%d' % (fname, k, len(seqs)), th, rq, seqs=list(seqs), site='nn.symdel',
                    remake=remake, nontrivial=nontriv_for(list(seqs)))

    # (a) exhaustive small alphabets
    L = 3 if ctx.quick else 4
    base = all_strings('AC', L) + all_strings('ACD', L - 1, 1)
    for k in (1, 2, 3):
        seqs = base + base
        rng.shuffle(seqs)
        cases.append(mk(nn.symdel, 'symdel[exhaustive]', seqs, k, 'api_brute_self_lev'))
        sub = rng.sample(base, 14) + rng.sample(base, 6)
        cases.append(mk(nn.nearest_neighbor, 'nearest_neighbor[exhaustive-sub]', sub, k, 'api_symdel_self_lev'))
    # (c1) exhaustive over 2-letter alphabets that share nothing with the 20 amino-acid letters, and mixed ones:
    # the statement says ANY alphabet, so nothing in the search may depend on a letter being an amino acid
    pool2 = list(NON_AA_PAIRS)
    rng.shuffle(pool2)
    Lc = 3 if ctx.quick else 4
    for n2, al in enumerate(pool2 if not ctx.quick else pool2[:4]):
        b2 = all_strings(al, Lc)
        for k in (1, 2, 3):
            seqs = b2 + b2
            rng.shuffle(seqs)
            # alternate which public function gets the brute-force-specified model; both see every alphabet and k
            cases.append(mk(nn.nearest_neighbor, 'nearest_neighbor[exhaustive %r]' % al, seqs, k, 'api_brute_self_lev'))
            seqs = list(seqs)
            rng.shuffle(seqs)
            cases.append(mk(nn.symdel, 'symdel[exhaustive %r]' % al, seqs, k,
                            'api_symdel_self_lev' if len(seqs) <= 14 else 'api_brute_self_lev'))
            ctx.count('exhaustive_nonAA k=%d' % k)
    ctx.exhaustive = True
    # (b) random repertoires
    nrep = 120 if ctx.quick else 2500
    for t in range(nrep):
        n = rng.randint(1, 60 if ctx.quick else 250)
        alpha = gens.AA
        relabel = None
        if not ctx.quick and t % 7 == 0:
            alpha = 'ACé中\U0001F600xyz'
        elif t % 3 == 0:
            # (c2) a repertoire grown over a non-amino-acid alphabet (roots keep the C...F/W frame, edits use the alphabet)
            alpha = rng.choice(NON_AA_ALPHABETS)
        elif t % 3 == 1 and t % 4 < 2:
            # (c3) an amino-acid repertoire re-lettered by a random injective map: same distances, no amino-acid letter left
            relabel = rng.choice(RELABEL_TARGETS)
        seqs = repertoire(rng, n, alpha)
        if relabel is not None:
            tgt = rng.sample(relabel, len(gens.AA))
            seqs = [x.translate(str.maketrans(gens.AA, ''.join(tgt))) for x in seqs]
        ctx.count('alphabet=AA' if alpha is gens.AA and relabel is None else 'alphabet=non-AA')
        k = rng.choice([1, 1, 2, 2, 3, 4])
        fn, fname = (nn.symdel, 'symdel') if t % 2 else (nn.nearest_neighbor, 'nearest_neighbor')
        small = n <= 14 and k <= 2
        ctx.count('k=%d' % k)
        ctx.count('n<=14' if n <= 14 else 'n>14')
        ctx.count('has_empty' if '' in seqs else 'no_empty')
        cases.append(mk(fn, fname, seqs, k, 'api_symdel_self_lev' if small else 'api_brute_self_lev'))
    run_cases(ctx, cases, vm_every=9)

    # (d)-(l) [audit round] input kinds the generators above never produce: containers, ignored options, the default and large
    # max_edits, long strings, collections of more than 2**15 strings, big buckets, repeated calls on one object
    t_wide = time.time()
    run_wide(ctx)
    ctx.extra['widened_families_wall_s'] = round(time.time() - t_wide, 1)

    # auxiliary: the deletion-variant generator against comb_gen (only if the helper still exists)
    cg = getattr(nn, '_comb_gen', None)
    if cg is not None:
        strs = all_strings('AC', 5 if ctx.quick else 7)
        reqs = [('api_comb_gen', [k, s]) for s in strs for k in (0, 1, 2, 4)]
        outs = ctx.oracle.run_parallel(reqs)
        bad = 0
        for (f, (k, s)), o in zip(reqs, outs):
            r = call_impl(cg, s, k)
            if r[0] != 'ok' or sorted(r[1]) != sorted(o):
                bad += 1
        ctx.extra['aux_comb_gen'] = dict(compared=len(reqs), differing=bad,
                                         note='auxiliary localisation only; never decides the verdict')
    ctx.assumptions += ['rapidfuzz Levenshtein.distance returns the Levenshtein distance (tied to slev by C08 correspondence)',
                        'Python set/dict/itertools.combinations semantics']


def replay(ctx, obj):
    import pyrepseq.nn as nn
    r = obj['replay']
    if 'spec' in r:                      # a case of the widened families: the spec carries function, container, options, k
        run_specs(ctx, [r['spec']], shrink=False)
        return
    if 'history' in r:
        run_histories(ctx, [r['history']])
        return
    seqs = r['seqs']
    k = r['request'][1][0]
    # replay through the public function that failed (nearest_neighbor need not be the same code path as symdel)
    fn = nn.nearest_neighbor if str(r.get('case', '')).startswith('nearest_neighbor') else nn.symdel
    c = Case('replay', lambda: fn(list(seqs), max_edits=k), ('api_brute_self_lev', [k, seqs]), seqs=seqs, site='nn.symdel')
    run_cases(ctx, [c])


# =====================================================================================================================
# Audit round: widened input kinds.  Every case of these families is a JSON-able "spec" of ONE public call
#   dict(family=..., fn='symdel'|'nearest_neighbor', via='nn'|'top', container=<kind>, salt=<int>, seqs=[...], k=<int>,
#        how='kw'|'pos'|'allkw'|'fullpos'|'default', opts={option: value}, expect='oracle'|'blocks'|'dp')
# so that a replay carries the function, the container kind, every option and the way the arguments were passed.
# Expected values: 'oracle' = the extracted model (all_pairs_self, proved = the bucket-pairing model by C01_brute_force_agrees);
# 'blocks' = the same model run on every class of positions connected by shared letters, pairs across classes being no
# neighbours by C01_no_common_letter_not_neighbours (every string longer than max_edits) - this is what makes collections of
# more than 2**15 strings decidable; 'dp' = the Wagner-Fischer recurrence (the statement of slev, lib/Edits.v wlev_cons)
# evaluated row by row in numpy for strings too long for the unary-number oracle, cross-checked against api_lev on every run.
INF = float('inf')
OPT_ORDER = ['max_returns', 'n_cpu', 'custom_distance', 'max_custom_distance', 'output_type', 'seqs2', 'progress']
OPT_DEFAULT = dict(max_returns=None, n_cpu=1, custom_distance=None, max_custom_distance=INF, output_type='triplets',
                   seqs2=None, progress=False)
CONTAINERS = ['tuple', 'ndarray_U', 'ndarray_Uwide', 'ndarray_object', 'ndarray_strided', 'ndarray_U_strided', 'list_npstr',
              'list_mixed_npstr', 'series_default', 'series_shifted', 'series_permuted', 'series_reversed', 'series_string_index',
              'series_dup_labels', 'series_float_index', 'series_string_dtype', 'series_categorical', 'pd_index', 'deque']


def make_container(kind, seqs, salt=0):
    """The same strings in the same order as another kind of collection (positions = order of iteration)."""
    import collections
    import numpy as np
    import pandas as pd
    seqs = [str(x) for x in seqs]
    n = len(seqs)
    if kind == 'list':
        return seqs
    if kind == 'tuple':
        return tuple(seqs)
    if kind == 'ndarray_U':
        return np.array(seqs)
    if kind == 'ndarray_Uwide':
        return np.array(seqs, dtype='<U%d' % (max(map(len, seqs)) + 37))
    if kind in ('ndarray_object', 'ndarray_strided'):
        a = np.empty(n if kind == 'ndarray_object' else 2 * n, dtype=object)
        if kind == 'ndarray_object':
            a[:] = seqs
            return a
        a[::2] = seqs
        a[1::2] = 'zz'
        return a[::2]
    if kind == 'ndarray_U_strided':
        return np.array([y for x in seqs for y in (x, 'zzzz')])[::2]
    if kind == 'list_npstr':
        return [np.str_(x) for x in seqs]
    if kind == 'list_mixed_npstr':
        return [np.str_(x) if i % 2 else x for i, x in enumerate(seqs)]
    if kind == 'pd_index':
        return pd.Index(seqs, dtype=object)
    if kind == 'deque':
        return collections.deque(seqs)
    perm = list(range(n))
    random.Random(salt * 7919 + n).shuffle(perm)
    index = dict(series_default=None, series_shifted=range(5, 5 + n), series_permuted=perm, series_reversed=range(n - 1, -1, -1),
                 series_string_index=['r%d' % i for i in perm], series_dup_labels=[i // 2 for i in range(n)],
                 series_float_index=[0.5 * i - 1 for i in range(n)], series_string_dtype=perm, series_categorical=None)
    if kind not in index:
        raise ValueError(kind)
    dtype = {'series_string_dtype': 'string', 'series_categorical': 'category'}.get(kind, object)
    return pd.Series(seqs, index=index[kind], dtype=dtype)


def k_eff(spec):
    """max_edits in force: the documented default is 1 when the caller does not pass it."""
    return 1 if spec.get('how') == 'default' else spec['k']


def spec_call(spec):
    """Run the public call a spec describes on the current tree."""
    import pyrepseq
    import pyrepseq.nn as nn
    fn = getattr(pyrepseq if spec.get('via') == 'top' else nn, spec['fn'])
    c = make_container(spec.get('container', 'list'), spec['seqs'], spec.get('salt', 0))
    k, opts, how = spec.get('k'), dict(spec.get('opts') or {}), spec.get('how', 'kw')
    if how == 'default':
        return fn(c, **opts)
    if how == 'kw':
        return fn(c, max_edits=k, **opts)
    if how == 'pos':
        return fn(c, k, **opts)
    if how == 'allkw':
        return fn(seqs=c, max_edits=k, **opts)
    if how == 'fullpos':
        order = OPT_ORDER if spec['fn'] == 'symdel' else OPT_ORDER[:-1]
        return fn(c, k, *[opts.get(name, OPT_DEFAULT[name]) for name in order])
    raise ValueError(how)


def letter_classes(seqs):
    """Positions grouped by the transitive closure of 'the two strings share a letter' (an empty string is alone)."""
    parent = {}

    def find(x):
        while parent[x] != x:
            parent[x] = parent[parent[x]]
            x = parent[x]
        return x
    for s in seqs:
        for c in s:
            parent.setdefault(c, c)
        for c in s[1:]:
            ra, rb = find(s[0]), find(c)
            if ra != rb:
                parent[ra] = rb
    groups = {}
    for i, s in enumerate(seqs):
        groups.setdefault(find(s[0]) if s else ('', i), []).append(i)
    return list(groups.values())


def lev_rows(a, b):
    """Levenshtein distance by the recurrence of lib/Edits.v (wlev_cons with unit weights), one numpy row per letter of a:
    new[j] = min(old[j] + 1, old[j-1] + [a_i <> b_j], new[j-1] + 1); the last term is a running minimum of new[j] - j."""
    import numpy as np
    B = np.array([ord(c) for c in b], dtype=np.int64)
    idx = np.arange(len(b) + 1, dtype=np.int64)
    old = idx.copy()
    for i, ca in enumerate(a, 1):
        new = np.empty_like(old)
        new[0] = i
        new[1:] = np.minimum(old[1:] + 1, old[:-1] + (B != ord(ca)))
        old = np.minimum.accumulate(new - idx) + idx
    return int(old[-1])


def expected_dp(seqs, k):
    out = []
    for i in range(len(seqs)):
        for j in range(i + 1, len(seqs)):
            if abs(len(seqs[i]) - len(seqs[j])) > k:        # lev_length_lower: never within k
                continue
            d = 0 if seqs[i] == seqs[j] else lev_rows(seqs[i], seqs[j])
            if d <= k:
                out += [(i, j, d), (j, i, d)]
    return canon_model(out)


def expected_batch(ctx, specs):
    """Expected canonical triplet lists of a batch of specs; identical oracle requests are sent once."""
    reqs, index, plans = [], {}, []

    def want(k, ss):
        key = (k, tuple(ss))
        if key not in index:
            small = len(ss) <= 12 and k <= 2 and max(map(len, ss)) <= 12
            index[key] = len(reqs)
            reqs.append(('api_symdel_self_lev' if small and len(reqs) % 2 else 'api_brute_self_lev', [k, list(ss)]))
        return index[key]
    for sp in specs:
        k, seqs, mode = k_eff(sp), sp['seqs'], sp.get('expect', 'oracle')
        if mode == 'blocks' and any(len(x) <= k for x in seqs):
            mode = 'oracle'          # the lemma needs every string longer than max_edits; generators guarantee it
        if mode == 'oracle':
            plans.append(('o', want(k, seqs)))
        elif mode == 'blocks':
            plans.append(('b', [(pos, want(k, [seqs[p] for p in pos])) for pos in letter_classes(seqs) if len(pos) > 1]))
        else:
            plans.append(('d', None))
    outs = ctx.oracle.run_parallel(reqs, nproc=4) if reqs else []
    for o in outs:
        if isinstance(o, Exception):
            raise o
    res = []
    for sp, (mode, plan) in zip(specs, plans):
        if mode == 'o':
            res.append(canon_model(outs[plan]))
        elif mode == 'b':
            acc = []
            for pos, r in plan:
                acc += [(pos[a], pos[b], d) for a, b, d in outs[r]]
            res.append(canon_model(acc))
        else:
            res.append(expected_dp(sp['seqs'], k_eff(sp)))
    return res


def _canon_impl(got):
    if got[0] != 'ok':
        return False, got
    try:
        return True, canon_triplets(got[1])
    except Exception as e:
        return False, ('exc', 'unreadable result: %r' % (e,))


def spec_desc(sp):
    return '%s%s[%s] container=%s how=%s k=%s opts=%s n=%d' % (
        'pyrepseq.' if sp.get('via') == 'top' else 'nn.', sp['fn'], sp.get('family', '?'), sp.get('container', 'list'),
        sp.get('how', 'kw'), sp.get('k'), sp.get('opts') or {}, len(sp['seqs']))


def spec_fails(ctx, sp):
    exp = expected_batch(ctx, [sp])[0]
    ok, impl = _canon_impl(call_impl(spec_call, sp))
    return not (ok and impl == exp)


def shrink_spec(ctx, sp, impl, exp):
    """Fewer strings with the same function, container kind and options still failing."""
    seqs = sp['seqs']
    if isinstance(impl, list):
        d = diff_triplets(impl, exp)
        for t in (d['missing'] + d['spurious'] + d['repeated'])[:4]:
            i, j = sorted((t[0], t[1]))
            if 0 <= i < j < len(seqs):
                cand = dict(sp, seqs=[seqs[i], seqs[j]])
                try:
                    if spec_fails(ctx, cand):
                        return cand
                except Exception:
                    pass
        for t in (d['spurious'] + d['repeated'])[:2]:
            i = max(t[0], t[1])
            if 0 <= i < len(seqs) - 1:           # a triplet that names positions up to i only: the prefix of length i + 1 may do
                cand = dict(sp, seqs=list(seqs[:i + 1]))
                try:
                    if spec_fails(ctx, cand):
                        sp, seqs = cand, cand['seqs']
                        break
                except Exception:
                    pass
    n = len(seqs)
    steps = 300 if n <= 400 else (60 if n <= 5000 else 24)
    try:
        return dict(sp, seqs=shrink_list(seqs, lambda ss: spec_fails(ctx, dict(sp, seqs=ss)), max_steps=steps))
    except Exception:
        return sp


def run_specs(ctx, specs, shrink=True):
    exps = expected_batch(ctx, specs)
    nviol = 0
    for sp, exp in zip(specs, exps):
        if nviol + len(ctx.violations) >= 3 and len(sp['seqs']) > 2000:
            # the verdict is decided; a broken implementation can take minutes on each of the huge collections
            ctx.count('wide:huge_case_skipped_after_violations')
            continue
        ok, impl = _canon_impl(call_impl(spec_call, sp))
        nt = len(exp) > 0
        desc = spec_desc(sp)
        ctx.count('wide:%s' % sp.get('family', '?'))
        ctx.case(sample=dict(case=desc, seqs=[x[:40] for x in sp['seqs'][:12]] + (['...'] if len(sp['seqs']) > 12 else []),
                             result=[(a, b, str(d)) for a, b, d in exp[:8]]) if nt else None,
                 nontrivial_key=(desc, len(exp), tuple(sp['seqs'][:50])) if nt else None)
        if ok and impl == exp:
            continue
        nviol += 1
        if nviol > 3:
            continue
        small = shrink_spec(ctx, sp, impl, exp) if shrink else sp
        e2 = expected_batch(ctx, [small])[0]
        ok2, impl2 = _canon_impl(call_impl(spec_call, small))
        if ok2 and impl2 == e2:                      # not reproducible on the shrunk input (state dependent): keep the original
            small, e2, ok2, impl2 = sp, exp, ok, impl
        detail = diff_triplets(impl2, e2) if ok2 else impl2
        shown = small['seqs'] if len(small['seqs']) <= 30 else small['seqs'][:30] + ['... (%d strings)' % len(small['seqs'])]
        ctx.violation('property', '%s: implementation differs from the proved model on %s: %s' %
                      (spec_desc(small), [x if len(x) <= 300 else x[:300] + '...(%d letters)' % len(x) for x in shown],
                       jsonable(detail)),
                      dict(case=spec_desc(small), spec=jsonable(small), seqs=small['seqs'], detail=jsonable(detail),
                           request=['api_brute_self_lev', [k_eff(small), small['seqs']]]), site='nn.symdel')
    return nviol


# ---- repeated calls on one object ------------------------------------------------------------------------------------
# history = dict(container=<kind>, salt=.., init=[...], steps=[step, ...]) with steps
#   ['call', fn, k, opts]   a C01 call on the object as it is now (compared with the model)
#   ['set', i, s] ['append', s] ['delete', i] ['reverse'] ['refill', [...]]   the caller changes the object in place
#   ['other', name, k]      another public function of the module runs on the same strings in between (result not judged here)
def _apply_step(obj, cur, st):
    kind = st[0]
    is_series = type(obj).__module__.startswith('pandas')
    if kind == 'set':
        cur[st[1]] = st[2]
        if is_series:
            obj.iloc[st[1]] = st[2]
        else:
            obj[st[1]] = st[2]
    elif kind == 'append':
        cur.append(st[1])
        obj.append(st[1])
    elif kind == 'delete':
        del cur[st[1]]
        del obj[st[1]]
    elif kind == 'reverse':
        cur.reverse()
        if isinstance(obj, list):
            obj.reverse()
        elif is_series:
            obj.iloc[:] = list(cur)
        else:
            obj[:] = list(cur)
    elif kind == 'refill':
        cur[:] = list(st[1])
        if is_series:
            obj.iloc[:] = list(st[1])
        else:
            obj[:] = list(st[1])


def _other_call(name, cur, k):
    import pyrepseq.nn as nn
    cur = list(cur)
    aa = [x for x in cur if x and set(x) <= set(gens.AA)] or ['CAF']
    f = dict(hash_based=lambda: nn.hash_based(aa, max_edits=1),
             kdtree=lambda: nn.kdtree(aa, max_edits=k),
             symdeldb=lambda: nn.SymdelDB(cur, k + 1).lookup(cur[:3]),
             symdel_hamming=lambda: nn.symdel(cur, max_edits=k, custom_distance='hamming'),
             symdel_seqs2=lambda: nn.symdel(cur, max_edits=k, seqs2=list(reversed(cur))),
             # a reference that holds only part of the strings, queried with all of them, at the SAME max_edits as the call that follows:
             # whatever a two-collection search leaves behind (a cache of deletion variants cut down to one index) shows next (C01-r6m3)
             symdel_seqs2_part=lambda: nn.symdel(cur[:2], max_edits=k, seqs2=cur),
             symdeldb_part=lambda: nn.SymdelDB(cur[:1], k).lookup(cur),
             nn_seqs2_part=lambda: nn.nearest_neighbor(cur[-2:], max_edits=k, seqs2=cur),
             nn_seqs2=lambda: nn.nearest_neighbor(cur[:4], max_edits=k + 2, seqs2=cur),
             nn_ndarray=lambda: nn.nearest_neighbor(cur, max_edits=k, output_type='ndarray'),
             nn_coo=lambda: nn.nearest_neighbor(cur, max_edits=k, output_type='coo_matrix'),
             symdel_custom=lambda: nn.symdel(cur, max_edits=k, custom_distance=lambda a, b: abs(len(a) - len(b)),
                                             max_custom_distance=1),
             rejected=lambda: nn.symdel(cur, max_edits=0))[name]
    call_impl(f)


def run_histories(ctx, hists):
    import pyrepseq.nn as nn
    # first pass on plain lists: what the object holds at every C01 call
    plans = []
    for h in hists:
        cur, calls = list(h['init']), []
        for st in h['steps']:
            if st[0] == 'call':
                calls.append(dict(family='history', fn=st[1], k=st[2], opts=st[3], seqs=list(cur)))
            elif st[0] != 'other':
                _apply_step(list(cur), cur, st)
        plans.append(calls)
    flat = [c for calls in plans for c in calls]
    exps = iter(expected_batch(ctx, flat))
    for h, calls in zip(hists, plans):
        obj = make_container(h['container'], h['init'], h.get('salt', 0))
        cur, ncall, bad = list(h['init']), 0, None
        for si, st in enumerate(h['steps']):
            if st[0] == 'call':
                exp = next(exps)
                ncall += 1
                ok, impl = _canon_impl(call_impl(getattr(nn, st[1]), obj, max_edits=st[2], **(st[3] or {})))
                ctx.case(nontrivial_key=('history', si, tuple(cur[:40]), st[1], st[2]) if exp else None)
                if not (ok and impl == exp) and bad is None:
                    bad = (si, diff_triplets(impl, exp) if ok else impl, list(cur))
            elif st[0] == 'other':
                _other_call(st[1], cur, st[2])
            else:
                _apply_step(obj, cur, st)
        ctx.count('wide:history[%s]' % h['container'])
        ctx.count('wide:history calls', ncall)
        if bad is not None:
            si, detail, held = bad
            ctx.violation('property', 'call history on ONE %s object: step %d %r returned a result that differs from the proved model '
                          'for the strings the object held at that moment %s: %s (steps before it: %s)' %
                          (h['container'], si, h['steps'][si], held[:30], jsonable(detail), jsonable(h['steps'][:si])[-12:]),
                          dict(case='history', history=jsonable(h), failing_step=si, seqs=held, detail=jsonable(detail)),
                          site='nn.symdel')


# ---- generators of the widened families --------------------------------------------------------------------------------
def block_alphabet(b):
    """Three letters of block b; different blocks share no letter: six blocks of amino-acid letters, then consecutive code
    points from U+0100 (Latin, Greek, Cyrillic, ..., CJK; stops before the surrogates), then from U+10000 (astral planes)."""
    aa = ['ACD', 'EFG', 'HIK', 'LMN', 'PQR', 'STV']
    if b < len(aa):
        return aa[b]
    start = 0x100 + 3 * (b - len(aa))
    if start + 2 >= 0xD800:
        start = 0x10000 + 3 * (b - len(aa) - (0xD800 - 0x100) // 3)
    return chr(start) + chr(start + 1) + chr(start + 2)


def block_collection(rng, n, k):
    """n strings in blocks over pairwise DISJOINT alphabets (3 letters each), every string longer than k, shuffled:
    neighbours exist only inside a block (C01_no_common_letter_not_neighbours)."""
    seqs, b = [], 0
    while len(seqs) < n:
        al = block_alphabet(b)
        b += 1
        root = ''.join(rng.choice(al) for _ in range(k + rng.randint(1, 4)))
        for _ in range(rng.randint(1, 11)):
            x = mutate(rng, root, al, rng.randint(0, k + 1)) if rng.random() < 0.8 else \
                ''.join(rng.choice(al) for _ in range(k + rng.randint(1, 4)))
            if len(x) > k:
                seqs.append(x)
    seqs = seqs[:n]
    rng.shuffle(seqs)
    return seqs


def long_family(rng, L, k, alphabet):
    """Strings of about L letters: a root, planted edits at the ends and around the machine-word boundaries 64/128/256,
    pairs exactly k and k+1 edits apart, a rotation (equal length, 2 edits), an unrelated string of the same length."""
    root = ''.join(rng.choice(alphabet) for _ in range(L))

    def other(c):
        return rng.choice([x for x in alphabet if x != c])

    def sub(s, p):
        return s[:p] + other(s[p]) + s[p + 1:]
    marks = sorted({0, L - 1, L // 2} | {p for p in (62, 63, 64, 65, 126, 127, 128, 129, 254, 255, 256, 257) if p < L})
    out = [root, root, sub(root, 0), sub(root, L - 1), root[1:], root[:-1], other(root[0]) + root, root + other(root[-1]),
           root[1:] + root[0], root[::-1]]
    for p in rng.sample(marks, min(4, len(marks))):
        out += [sub(root, p), root[:p] + root[p + 1:], root[:p] + other(root[p]) + root[p:]]
    x = root
    for t, p in enumerate(rng.sample(range(L), min(k + 1, L))):     # k and k + 1 substitutions
        x = sub(x, p)
        if t + 1 >= k:
            out.append(x)
    out += [''.join(rng.choice(alphabet) for _ in range(L)), '', root[:1], root[:k + 1]]     # and a few short ones in the same call
    rng.shuffle(out)
    return out


def run_wide(ctx):
    rng = ctx.rng
    quick = ctx.quick
    specs = []

    def add(family, fn, seqs, k, **kw):
        sp = dict(family=family, fn=fn, seqs=list(seqs), k=k)
        sp.update(kw)
        specs.append(sp)
    fns = ['nearest_neighbor', 'symdel']

    def small_rep(lo=6, hi=24):
        alpha = gens.AA if rng.random() < 0.6 else rng.choice(NON_AA_ALPHABETS)
        return repertoire(rng, rng.randint(lo, hi), alpha)

    # (d) container kinds: the same strings as tuple / ndarray (unicode, wide unicode, object, strided views) / lists of
    # numpy strings / pandas Series with default, shifted, permuted, reversed, string, duplicated, float labels, string and
    # categorical dtype / pandas Index / deque.  Positions are positions of iteration, never labels.
    for r in range(5 if quick else 40):
        seqs = small_rep()
        kinds = list(CONTAINERS)
        rng.shuffle(kinds)
        for t, kind in enumerate(kinds):
            add('container=' + kind, fns[(t + r) % 2], seqs, rng.choice([1, 2, 2, 3]), container=kind, salt=rng.randrange(1000),
                via='top' if t % 3 == 0 else 'nn')
    # (e) parameters documented as ignored by this search (n_cpu; max_custom_distance without a custom distance; for symdel
    # also max_returns and progress), defaults passed explicitly, two of them together, and every way of passing them
    both = [dict(n_cpu=2), dict(n_cpu=3), dict(n_cpu=16), dict(max_custom_distance=0), dict(max_custom_distance=0.5),
            dict(max_custom_distance=1), dict(max_custom_distance=2.0), dict(custom_distance=None), dict(output_type='triplets'),
            dict(seqs2=None), dict(max_returns=None), dict(n_cpu=2, max_custom_distance=0),
            dict(n_cpu=4, output_type='triplets', seqs2=None), dict(custom_distance=None, max_custom_distance=1)]
    only_symdel = [dict(max_returns=1), dict(max_returns=2), dict(max_returns=7), dict(progress=True), dict(progress=False),
                   dict(max_returns=2, n_cpu=2), dict(max_returns=1, max_custom_distance=0), dict(progress=True, n_cpu=2),
                   dict(max_returns=3, progress=True)]
    for r in range(3 if quick else 30):
        seqs = small_rep(10, 30)
        for t, o in enumerate(both):
            add('ignored-option', fns[(t + r) % 2], seqs, rng.choice([2, 2, 3]), opts=o, how=['kw', 'pos', 'allkw'][t % 3],
                via='top' if t % 2 else 'nn', salt=t,
                container=rng.choice(['list', 'list', 'tuple', 'ndarray_U', 'ndarray_object', 'series_permuted', 'series_string_index']))
        for t, o in enumerate(only_symdel):
            add('ignored-option(symdel)', 'symdel', seqs, rng.choice([1, 2, 3]), opts=o, how=['kw', 'pos', 'allkw', 'fullpos'][t % 4])
        # all arguments by position, with values that tell the slots apart (a swap in the forwarding raises or changes the result)
        for fn in fns:
            add('all-positional', fn, seqs, rng.choice([1, 2, 3]), how='fullpos', opts=dict(n_cpu=2, max_custom_distance=0.5))
            add('all-positional', fn, seqs, 2, how='fullpos', opts={})
            # max_edits not passed: the documented default 1
            add('default-max_edits', fn, seqs, None, how='default', via='top')
            add('default-max_edits', fn, seqs, None, how='default', opts=dict(n_cpu=2), container='tuple')
    # (f) max_edits far above the usual 1..4, up to values above every string length (then every pair is a neighbour pair)
    for r in range(2 if quick else 12):
        al = rng.choice(['AC', 'ACD', 'CASF', 'xy*'])
        seqs = [''.join(rng.choice(al) for _ in range(rng.randint(0, 9))) for _ in range(rng.randint(4, 14))]
        seqs += [rng.choice(seqs), al[0] * 9, al[-1] * 8, '']
        rng.shuffle(seqs)
        for t, k in enumerate([5, 6, 8] + [rng.choice([7, 9, 10, 12]), rng.choice([16, 33, 64, 100]), rng.choice([255, 256, 1000])]):
            add('large-max_edits', fns[(t + r) % 2], seqs, k, how=['kw', 'pos'][t % 2])
    # (g) bucket shapes: one sequence many times (a distance-0 clique), every substitution / insertion at one position
    # (one bucket with dozens of members), all strings of one length, all lengths distinct, nothing within reach, n = 1, n = 2
    star_al = gens.AA + 'XBZ*acd'
    root = 'CASS' + ''.join(rng.choice(gens.AA) for _ in range(rng.randint(2, 5))) + 'F'
    p = rng.randrange(1, len(root) - 1)
    star = [root] + [root[:p] + c + root[p + 1:] for c in star_al] + [root[:p] + c + root[p:] for c in star_al[:9]] + [root[:p] + root[p + 1:]]
    rng.shuffle(star)
    far = ['A' * 6, 'C' * 9, 'D' * 12, 'EFGH' * 4, 'KLMN' * 2]
    shapes = [('clique', [root] * (40 if quick else 90)), ('clique', [''] * 17 + ['A'] * 3), ('star', star),
              ('one-length', [''.join(rng.choice('AC') for _ in range(6)) for _ in range(45)]),
              ('distinct-lengths', ['A' * i for i in rng.sample(range(0, 26), 20)]),
              ('nothing-in-reach', far), ('n=1', ['']), ('n=1', ['A']), ('n=1', [root]), ('n=2', [root, root]), ('n=2', ['', '']),
              ('n=2', [root, root[1:]]), ('n=2', ['', 'A']), ('n=2', [root, root[::-1] + 'WW']), ('n=2', ['A', 'C'])]
    for t, (name, seqs) in enumerate(shapes):
        for k in ((1, 2) if quick else (1, 2, 3)):
            if name == 'nothing-in-reach' and k > 2:
                continue
            add('shape=' + name, fns[(t + k) % 2], seqs, k, container=['list', 'tuple', 'ndarray_U', 'series_permuted'][(t + k) % 4],
                salt=t)
    # (h) strings with control characters, quotes, whitespace at the ends, combining marks (lists only: numpy's fixed-width
    # unicode type strips trailing NULs, which is numpy's doing, not the search's)
    for t, al in enumerate(['\n\x00', '\t"', "\\'", 'e\u0301', ' A', '\r\x7f', '\u200bA', 'aA', '\xe9e\u0301']):
        b2 = all_strings(al, 3)
        seqs = b2 + rng.sample(b2, 6)
        rng.shuffle(seqs)
        for k in (1, 2):
            add('control-characters', fns[(t + k) % 2], seqs, k)
    # (i) long strings: 63..65, 127..129, 255..257 letters (machine-word boundaries of bit-parallel edit distance code),
    # about 1000 letters for max_edits = 1; few-letter alphabets give long runs, 20 letters give none
    lens = [(64, 1, 'oracle'), (65, 2, 'dp'), (63, 2, 'dp'), (128, 1, 'dp'), (127, 2, 'dp'), (129, 1, 'dp'), (256, 1, 'dp'), (257, 1, 'dp')]
    if not quick:
        lens += [(64, 3, 'dp'), (129, 2, 'dp'), (255, 2, 'dp'), (300, 1, 'dp'), (1000, 1, 'dp'), (1024, 1, 'dp'), (2049, 1, 'dp'),
                 (70, 2, 'oracle')]
    for t, (L, k, how) in enumerate(lens):
        seqs = long_family(rng, L, k, 'AC' if t % 3 == 0 else gens.AA)
        if how == 'oracle':
            seqs = seqs[:9]
        elif (k >= 2 and L > 130) or L > 1500:      # the search itself stores about L**k deletion variants of L letters per string
            seqs = seqs[:8]
        add('long-strings L=%d' % L, fns[t % 2], seqs, k, expect=how, container='list' if t % 4 else 'ndarray_U')
    # (j) many strings: 257, about 1100, more than 2**15 and more than 2**16 positions in one call
    sizes = [(257, 2), (1100, 1), (2 ** 15 + 37, 1), (2 ** 16 + 21, 1)] if quick else [(256, 3), (257, 2), (1100, 2), (4097, 3), (2 ** 15 + 37, 2),
                                                                 (2 ** 16 + 21, 1)]
    for t, (n, k) in enumerate(sizes):
        add('many-strings n=%d' % n, fns[t % 2], block_collection(rng, n, k), k, expect='blocks',
            container='list' if n < 2000 or t % 2 else 'ndarray_object')

    # the row-wise recurrence used for long strings agrees with the model's distance (api_lev) on fresh pairs
    pairs = []
    for _ in range(30):
        a = ''.join(rng.choice('ACD') for _ in range(rng.randint(0, 30)))
        pairs.append((a, mutate(rng, a, 'ACD', rng.randint(0, 6))))
    outs = ctx.oracle.run([('api_lev', [a, b]) for a, b in pairs])
    for (a, b), o in zip(pairs, outs):
        if lev_rows(a, b) != o:
            raise RuntimeError('harness self-check: lev_rows(%r, %r) = %d, model says %r' % (a, b, lev_rows(a, b), o))
    run_specs(ctx, specs)

    # (k)/(l) repeated calls on ONE object: other max_edits, the object changed in place in between, other public functions of
    # the module run in between (they share the module's globals)
    hists = []
    others = ['hash_based', 'kdtree', 'symdeldb', 'symdel_hamming', 'symdel_seqs2', 'nn_seqs2', 'nn_ndarray', 'nn_coo',
              'symdel_custom', 'rejected', 'symdel_seqs2_part', 'symdeldb_part', 'nn_seqs2_part']
    parts = ['symdel_seqs2_part', 'symdeldb_part', 'nn_seqs2_part']
    for r in range(12 if quick else 60):
        seqs = small_rep(8, 20)
        extra = small_rep(8, 20)
        kind = ['list', 'ndarray_object', 'ndarray_Uwide', 'series_permuted', 'list', 'series_string_index'][r % 6]
        steps = [['call', fns[r % 2], 1, {}], ['call', fns[(r + 1) % 2], 3, {}], ['call', fns[r % 2], 1, {}]]
        steps += [['set', 0, seqs[-1]], ['call', fns[r % 2], 2, {}]]
        steps += [['other', rng.choice(others), rng.choice([1, 2, 3])], ['call', fns[(r + 1) % 2], rng.choice([1, 2]), {}]]
        if kind == 'list':
            steps += [['append', rng.choice(seqs)], ['delete', 1], ['call', fns[r % 2], 2, dict(n_cpu=2)]]
        steps += [['reverse'], ['call', 'symdel', 2, {}]]
        if kind != 'list':          # arrays and Series are refilled with as many strings as they hold
            steps += [['refill', [x[:30] for x in (extra * 3)[:len(seqs)]]], ['call', fns[r % 2], rng.choice([1, 2, 3]), {}]]
        else:
            steps += [['refill', extra], ['call', fns[r % 2], rng.choice([1, 2, 3]), {}]]
        for name in rng.sample(others, 3) + [parts[r % 3]]:
            k_other = rng.choice([1, 2, 3])
            steps += [['other', name, k_other], ['call', rng.choice(fns), k_other if name in parts else rng.choice([1, 2, 3]), {}]]
        hists.append(dict(container=kind, salt=r, init=seqs, steps=steps))
    run_histories(ctx, hists)
