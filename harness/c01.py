"""C01 - default neighbour search returns exactly the pairs within max_edits."""
import gens
from gens import all_strings, repertoire, has_indel_pair, has_dup_pair
from searchlib import Case, run_cases
from core import call_impl


# alphabets outside ACDEFGHIKLMNPQRSTVWY (round 3): ambiguity codes / stop marker, remaining capitals, lowercase,
# digits, gap / punctuation / whitespace, non-ASCII (Latin-1, BMP, astral), and mixtures with amino-acid letters
NON_AA_PAIRS = ['XB', 'Z*', 'ac', 'x7', '01', '-.', ' _', 'é中', '\U0001F600ß', 'AX', 'c*', 'Cc']
NON_AA_ALPHABETS = ['XBZ*', 'BJOUXZ', 'acdefghiklmnpqrstvwy', 'xyz', '0123456789', 'ACGT-.* ', 'AX', 'aA1*',
                    'é中\U0001F600ßж', 'ACDXBZ*acd']
RELABEL_TARGETS = ['abcdefghijklmnopqrstuvwxyz', 'BJOUXZ*0123456789-._ #', 'éèêëàâäçîïôöùûüÿßжд中文字\U0001F600\U0001F601',
                   'ACDEFGHIKLXBZ*acdefghikl']


def run(ctx):
    import pyrepseq.nn as nn
    rng = ctx.rng
    ctx.rule = ('(a) every string of length <= L over {A,C} and <= L-1 over {A,C,D}, each duplicated once, shuffled, '
                'all pairs in ONE call, k = 1..3; (b) random clonal repertoires (20 letters, unicode in thorough) incl. '
                'homopolymers, empty string, strings shorter than k, k = 1..4; both symdel and nearest_neighbor; '
                '(c) [round 3] alphabets OUTSIDE the 20 amino-acid letters (X/B/Z/*, other capitals, lowercase, digits, '
                'punctuation/gap characters, non-ASCII incl. astral code points): every string up to a length bound over '
                '2-letter such alphabets (each fn, k = 1..3) and about a third of the random repertoires, either grown '
                'directly over such an alphabet or an amino-acid repertoire re-lettered through a random injective map. '
                'non-trivial := expected result holds an insertion/deletion pair and a distance-0 pair')
    cases = []

    def nontriv_for(seqs):
        return lambda exp: has_indel_pair(seqs, exp) and has_dup_pair(exp)

    def mk(fn, fname, seqs, k, model):
        def remake(ss):
            return (lambda: fn(list(ss), max_edits=k)), (model, [k, list(ss)])
        th, rq = remake(seqs)
        return Case('%s k=%d n=%d' % (fname, k, len(seqs)), th, rq, seqs=list(seqs), site='nn.symdel',
                    remake=remake, nontrivial=nontriv_for(list(seqs)))

    # (a) exhaustive small alphabets
    L = 3 if ctx.quick else 4
    base = all_strings('AC', L) + all_strings('ACD', L - 1, 1)
    for k in (1, 2, 3):
        seqs = base + base
        rng.shuffle(seqs)
        cases.append(mk(nn.symdel, 'symdel[exhaustive]', seqs, k, 'api_brute_self_lev'))
        sub = rng.sample(base, 14) + rng.sample(base, 6)
        cases.append(mk(nn.nearest_neighbor, 'nearest_neighbor[exhaustive-sub]', sub, k, 'api_symdel_self_lev'))
    # (c1) exhaustive over 2-letter alphabets that share nothing with the 20 amino-acid letters, and mixed ones:
    # the statement says ANY alphabet, so nothing in the search may depend on a letter being an amino acid
    pool2 = list(NON_AA_PAIRS)
    rng.shuffle(pool2)
    Lc = 3 if ctx.quick else 4
    for n2, al in enumerate(pool2 if not ctx.quick else pool2[:4]):
        b2 = all_strings(al, Lc)
        for k in (1, 2, 3):
            seqs = b2 + b2
            rng.shuffle(seqs)
            # alternate which public function gets the brute-force-specified model; both see every alphabet and k
            cases.append(mk(nn.nearest_neighbor, 'nearest_neighbor[exhaustive %r]' % al, seqs, k, 'api_brute_self_lev'))
            seqs = list(seqs)
            rng.shuffle(seqs)
            cases.append(mk(nn.symdel, 'symdel[exhaustive %r]' % al, seqs, k,
                            'api_symdel_self_lev' if len(seqs) <= 14 else 'api_brute_self_lev'))
            ctx.count('exhaustive_nonAA k=%d' % k)
    ctx.exhaustive = True
    # (b) random repertoires
    nrep = 120 if ctx.quick else 2500
    for t in range(nrep):
        n = rng.randint(1, 60 if ctx.quick else 250)
        alpha = gens.AA
        relabel = None
        if not ctx.quick and t % 7 == 0:
            alpha = 'ACé中\U0001F600xyz'
        elif t % 3 == 0:
            # (c2) a repertoire grown over a non-amino-acid alphabet (roots keep the C...F/W frame, edits use the alphabet)
            alpha = rng.choice(NON_AA_ALPHABETS)
        elif t % 3 == 1 and t % 4 < 2:
            # (c3) an amino-acid repertoire re-lettered by a random injective map: same distances, no amino-acid letter left
            relabel = rng.choice(RELABEL_TARGETS)
        seqs = repertoire(rng, n, alpha)
        if relabel is not None:
            tgt = rng.sample(relabel, len(gens.AA))
            seqs = [x.translate(str.maketrans(gens.AA, ''.join(tgt))) for x in seqs]
        ctx.count('alphabet=AA' if alpha is gens.AA and relabel is None else 'alphabet=non-AA')
        k = rng.choice([1, 1, 2, 2, 3, 4])
        fn, fname = (nn.symdel, 'symdel') if t % 2 else (nn.nearest_neighbor, 'nearest_neighbor')
        small = n <= 14 and k <= 2
        ctx.count('k=%d' % k)
        ctx.count('n<=14' if n <= 14 else 'n>14')
        ctx.count('has_empty' if '' in seqs else 'no_empty')
        cases.append(mk(fn, fname, seqs, k, 'api_symdel_self_lev' if small else 'api_brute_self_lev'))
    run_cases(ctx, cases, vm_every=9)

    # auxiliary: the deletion-variant generator against comb_gen (only if the helper still exists)
    cg = getattr(nn, '_comb_gen', None)
    if cg is not None:
        strs = all_strings('AC', 5 if ctx.quick else 7)
        reqs = [('api_comb_gen', [k, s]) for s in strs for k in (0, 1, 2, 4)]
        outs = ctx.oracle.run_parallel(reqs)
        bad = 0
        for (f, (k, s)), o in zip(reqs, outs):
            r = call_impl(cg, s, k)
            if r[0] != 'ok' or sorted(r[1]) != sorted(o):
                bad += 1
        ctx.extra['aux_comb_gen'] = dict(compared=len(reqs), differing=bad,
                                         note='auxiliary localisation only; never decides the verdict')
    ctx.assumptions += ['rapidfuzz Levenshtein.distance returns the Levenshtein distance (tied to slev by C08 correspondence)',
                        'Python set/dict/itertools.combinations semantics']


def replay(ctx, obj):
    import pyrepseq.nn as nn
    r = obj['replay']
    seqs = r['seqs']
    k = r['request'][1][0]
    # replay through the public function that failed (nearest_neighbor need not be the same code path as symdel)
    fn = nn.nearest_neighbor if str(r.get('case', '')).startswith('nearest_neighbor') else nn.symdel
    c = Case('replay', lambda: fn(list(seqs), max_edits=k), ('api_brute_self_lev', [k, seqs]), seqs=seqs, site='nn.symdel')
    run_cases(ctx, [c])
