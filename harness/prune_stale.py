#!/usr/bin/env python3
"""After a partial `make -k`, delete every .vo that is not up to date with respect
to its source or (transitively) its dependencies, so that no stale proof can be
loaded by a later coqc."""
import os, re, sys
coq = sys.argv[1]
deps = {}
src = {}
mk = os.path.join(coq, '.Makefile.d')
if not os.path.exists(mk):
    sys.exit(0)
for line in open(mk).read().replace('\\\n', ' ').split('\n'):
    if ':' not in line:
        continue
    lhs, rhs = line.split(':', 1)
    tg = [t for t in lhs.split() if t.endswith('.vo')]
    if not tg:
        continue
    t = tg[0]
    r = rhs.split()
    src[t] = [x for x in r if x.endswith('.v')]
    deps[t] = [x for x in r if x.endswith('.vo') and not x.startswith('/')]
mt = lambda p: os.path.getmtime(os.path.join(coq, p)) if os.path.exists(os.path.join(coq, p)) else None
stale = set()
changed = True
while changed:
    changed = False
    for t in deps:
        if t in stale:
            continue
        m = mt(t)
        bad = m is None or any((mt(s) or 0) > m for s in src[t]) or \
            any(d in stale or (mt(d) is None) or mt(d) > m for d in deps[t] if d in deps)
        if bad:
            stale.add(t)
            changed = True
for t in stale:
    p = os.path.join(coq, t)
    if os.path.exists(p):
        os.remove(p)
print('pruned', sorted(stale))
