"""Input generators and canonicalisers shared by the search properties."""
import itertools
from fractions import Fraction
import numpy as np

AA = 'ACDEFGHIKLMNPQRSTVWY'


def all_strings(alphabet, maxlen, minlen=0):
    out = []
    for n in range(minlen, maxlen + 1):
        out += [''.join(t) for t in itertools.product(alphabet, repeat=n)]
    return out


def mutate(rng, s, alphabet, nmut):
    s = list(s)
    for _ in range(nmut):
        op = rng.choice('sid')
        if op == 's' and s:
            s[rng.randrange(len(s))] = rng.choice(alphabet)
        elif op == 'i':
            s.insert(rng.randint(0, len(s)), rng.choice(alphabet))
        elif op == 'd' and s:
            del s[rng.randrange(len(s))]
    return ''.join(s)


def repertoire(rng, n, alphabet=AA, maxmut=4, extras=True, minlen=0):
    """Clonal families grown from CDR3-like roots by random edits, plus duplicates,
    homopolymers, very short strings and (optionally) the empty string."""
    seqs = []
    while len(seqs) < n:
        L = rng.randint(max(3, minlen), 14)
        root = 'C' + ''.join(rng.choice(alphabet) for _ in range(L)) + rng.choice('FW')
        fam = rng.randint(1, 6)
        for _ in range(fam):
            seqs.append(mutate(rng, root, alphabet, rng.randint(0, maxmut)))
        if extras and rng.random() < 0.5:
            seqs.append(rng.choice(seqs))                       # duplicate
        if extras and rng.random() < 0.2:
            seqs.append(rng.choice(alphabet) * rng.randint(1, 6))  # homopolymer
        if extras and rng.random() < 0.15:
            seqs.append(''.join(rng.choice(alphabet) for _ in range(rng.randint(0, 2))))
    seqs = [s for s in seqs if len(s) >= minlen][:n]
    if not seqs:
        seqs = ['C' * max(1, minlen)]
    rng.shuffle(seqs)
    return seqs


def canon_triplets(t):
    """Implementation output -> sorted list of (int, int, Fraction)."""
    out = []
    for x in t:
        d = x[2]
        if isinstance(d, (float, np.floating)):
            d = Fraction(float(d)).limit_denominator(10 ** 6) if np.isfinite(d) else None
        else:
            d = Fraction(int(d))
        out.append((int(x[0]), int(x[1]), d))
    return sorted(out, key=lambda z: (z[0], z[1], -1 if z[2] is None else z[2]))


def canon_model(t):
    return sorted((int(a), int(b), Fraction(c)) for a, b, c in t)


def has_indel_pair(seqs, trip):
    return any(len(seqs[i]) != len(seqs[j]) for i, j, _ in trip)


def has_dup_pair(trip):
    return any(d == 0 for _, _, d in trip)


def shrink_list(items, fails, max_steps=400, budget=None):
    """Greedy delta debugging: drop elements while `fails(items)` stays true.  Stops after `budget` seconds (PV_SHRINK_BUDGET, default
    120): a shrunk replay is a convenience, the verdict does not wait for it (one candidate of 30 000 sequences can take minutes)."""
    import os, time
    if budget is None:
        budget = float(os.environ.get('PV_SHRINK_BUDGET', '120'))
    deadline = time.time() + budget
    items = list(items)
    steps = 0
    chunk = max(1, len(items) // 2)
    while chunk >= 1 and steps < max_steps and time.time() < deadline:
        i = 0
        progressed = False
        while i < len(items) and steps < max_steps and time.time() < deadline:
            cand = items[:i] + items[i + chunk:]
            steps += 1
            if cand and _safe(fails, cand):
                items = cand
                progressed = True
            else:
                i += chunk
        if chunk == 1 and not progressed:
            break
        chunk = max(1, chunk // 2) if chunk > 1 else (1 if progressed else 0)
    return items


def _safe(f, x):
    try:
        return bool(f(x))
    except Exception:
        return False


def diff_triplets(impl, model):
    si, sm = set(impl), set(model)
    return dict(missing=sorted(sm - si)[:5], spurious=sorted(si - sm)[:5],
                repeated=[t for t in set(impl) if impl.count(t) > 1][:5])
