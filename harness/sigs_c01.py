"""Oracle entry point of the regenerated deletion-variant generator (coq/extract/Api_c01.v)."""
from proto import L, O, T, STRS
SIGS = {
    'api_c01_gen_comb_gen': (['nat', 'str'], STRS),
}
