"""C14 - distance-filtered search keeps exactly the pairs inside both radii."""
from fractions import Fraction
import gens
from gens import all_strings, repertoire
from searchlib import Case, run_cases
import customs


def run(ctx):
    import pyrepseq.nn as nn
    rng = ctx.rng
    ctx.rule = ('engines symdel / nearest_neighbor / symdel(seqs2) / hash_based / kdtree x six symmetric custom distances '
                '(lev, 3*lev, lev/2, length difference, weighted lev, a code-sum distance unrelated to edit distance) x k = 1..3 x '
                'max_custom_distance in {inf, 0, values on and next to attained distances}; small exhaustive string sets and random '
                'repertoires. non-trivial := some pair is inside the Levenshtein radius but outside the custom radius or vice versa, '
                'and the expected result is non-empty. Widened (c14_wide.py, c14_tcrdist_wide.py; counters wide_* / tcrdist_wide_*): containers, '
                'omitted and positional arguments, kinds of callables, options documented as ignored, kdtree speed options, matrix outputs, sizes '
                '(1 sequence, >= 128 / >= 256 residues, > 1000 sequences, > 255 table rows), alphabets, second collections, call histories over '
                'module-level state, containers refilled in place; for nearest_neighbor_tcrdist also table kinds, partial tcrdist_kwargs, **kwargs '
                'and radii at attained values - non-trivial there := the expected result is non-empty')
    cases = []

    def mk(engine, which, seqs, k, maxc, seqs2=None):
        fn = getattr(nn, engine)
        cd = customs.make(which)
        mc = float('inf') if maxc is None else (int(maxc) if Fraction(maxc).denominator == 1 and rng.random() < 0.5 else float(maxc))
        mq = None if maxc is None else Fraction(maxc)
        if seqs2 is None:
            def remake(ss):
                return (lambda: fn(list(ss), max_edits=k, custom_distance=cd, max_custom_distance=mc),
                        ('api_brute_self_custom', [which, k, mq, list(ss)]))
            th, rq = remake(seqs)
        else:
            remake = None
            th = lambda: fn(list(seqs), max_edits=k, custom_distance=cd, max_custom_distance=mc, seqs2=list(seqs2))
            rq = ('api_brute_cross_custom', [which, k, mq, list(seqs), list(seqs2)])

        def nontriv(exp, seqs=list(seqs), seqs2=seqs2):
            if not exp:
                return False
            # is some pair cut by exactly one of the two radii?
            import rapidfuzz.distance.Levenshtein as RL
            A = seqs if seqs2 is None else list(seqs2)
            B = seqs
            for i in range(min(len(A), 12)):
                for j in range(min(len(B), 12)):
                    if seqs2 is None and i == j:
                        continue
                    inl = RL.distance(A[i], B[j]) <= k
                    inc = maxc is None or Fraction(cd(A[i], B[j])) <= Fraction(maxc)
                    if inl != inc:
                        return True
            return False
        return Case('%s custom=%s k=%d maxc=%s n=%d' % (engine, customs.NAMES[which], k, maxc, len(seqs)), th, rq,
                    seqs=list(seqs), seqs2=None if seqs2 is None else list(seqs2),
                    site='nn.%s[custom%s]' % (engine, ',seqs2' if seqs2 is not None else ''), remake=remake, nontrivial=nontriv)

    base = all_strings('AC', 3) + ['CAAA', 'CADA', 'CDDA', 'AAAC']
    radii = [None, 0, 1, Fraction(1, 2), Fraction(3, 2), 2, 3, 4, 6]
    engines = ['symdel', 'nearest_neighbor', 'kdtree', 'hash_based']
    n = 0
    for which in range(6):
        for k in (1, 2):
            for maxc in radii:
                n += 1
                if ctx.quick and n % 3:
                    continue
                eng = engines[n % 4]
                seqs = rng.sample(base, 10) + rng.sample(base, 2)
                cases.append(mk(eng, which, seqs, k, maxc))
                if n % 4 == 0:
                    cases.append(mk('symdel', which, seqs[:6], k, maxc, seqs2=seqs[4:]))
    # the zero custom radius with every engine and every distance, whatever the tier and seed: several of the distances vanish between
    # DIFFERENT strings (length difference, code sums), so "custom distance 0" is not "identical" (seeded change C14-r6m1: a shortcut in
    # one engine for max_custom_distance == 0)
    zero = ['CAA', 'CAD', 'ACA', 'CAA', 'CADA', 'CDAA', 'AC', 'CA', 'DAC']
    for which in range(6):
        for k in (1, 2):
            for eng in engines:
                cases.append(mk(eng, which, zero, k, 0))
                ctx.count('zero custom radius: %s' % eng)
            cases.append(mk('symdel', which, zero[:5], k, 0, seqs2=zero[3:]))
    # a distance whose values are of order 10^5 with radii one below / on / one above attained values: a comparison with a RELATIVE tolerance
    # (np.isclose) keeps a pair at 100001 under the radius 100000 (seeded change C14-r7m2) - every engine, whatever the tier and seed
    big = ['CAA', 'CAD', 'ACA', 'CADA', 'CDAA', 'AC', 'CAA']
    for k in (1, 2):
        for maxc in (100000, 100001, 200001, 200002):
            for eng in engines:
                cases.append(mk(eng, 6, big, k, maxc))
                ctx.count('large-scale distance at the radius: %s' % eng)
            cases.append(mk('symdel', 6, big[:4], k, maxc, seqs2=big[2:]))
    # one residue more than 255 times in a sequence: the composition counts the kdtree pre-filter works on do not wrap (seeded change
    # C14-r8m1: counts held in uint8)
    longs = ['A' * 257, 'A' * 258, 'A' * 256 + 'C', 'C' + 'A' * 257, 'CAF', 'A' * 255, 'A' * 256, 'A' * 255 + 'C']   # 255 | 256: across the wrap
    for eng in ('kdtree', 'symdel'):
        for which, maxc in ((0, None), (1, 3), (3, 1)):
            cases.append(mk(eng, which, longs, 1, maxc))
            ctx.count('one residue more than 255 times: %s' % eng)
    # via the algorithm-mirroring models
    for t in range(8 if ctx.quick else 60):
        which, k, maxc = rng.randrange(6), rng.choice([1, 2]), rng.choice(radii)
        seqs = rng.sample(base, 7)
        c = mk('symdel', which, seqs, k, maxc)
        c.req = ('api_symdel_self_custom', [which, k, None if maxc is None else Fraction(maxc), seqs])
        c.remake = None
        cases.append(c)
        c = mk('kdtree', which, seqs, k, maxc)
        c.req = ('api_kdtree_custom', [which, k, None if maxc is None else Fraction(maxc), 1, None, seqs])
        c.remake = None
        cases.append(c)
        if k == 1:
            c = mk('hash_based', which, seqs, k, maxc)
            c.req = ('api_hash_custom', [which, k, None if maxc is None else Fraction(maxc), seqs])
            c.remake = None
            cases.append(c)
    for t in range(60 if ctx.quick else 1500):
        which, k = rng.randrange(6), rng.choice([1, 1, 2, 3])
        maxc = rng.choice(radii + [5, 7, 9])
        eng = engines[t % 4]
        seqs = repertoire(rng, rng.randint(2, 40))
        if eng == 'hash_based':
            k = min(k, 2)
            seqs = [s for s in seqs if len(s) <= (13 if k == 1 else 8)][:25] or ['CAF']
        ctx.count(eng)
        ctx.count('custom=' + customs.NAMES[which])
        ctx.count('maxc=inf' if maxc is None else 'maxc=finite')
        if t % 5 == 4 and eng in ('symdel', 'nearest_neighbor'):
            h = max(1, len(seqs) // 2)
            cases.append(mk(eng, which, seqs[:h], k, maxc, seqs2=seqs[h:] or seqs[:1]))
        else:
            cases.append(mk(eng, which, seqs, k, maxc))
    run_cases(ctx, cases, vm_every=0)
    # database objects queried repeatedly with DIFFERENT distance functions / radii: an answer must not depend on what the same
    # object was asked before (SymdelDB fixes max_edits at construction, LookupDB takes it per lookup)
    from gens import canon_triplets, canon_model
    from core import call_impl
    for t in range(10 if ctx.quick else 120):
        refs = [s for s in repertoire(rng, rng.randint(3, 14)) if len(s) <= 11] or ['CAF', 'CAW']
        qs = ([s for s in repertoire(rng, rng.randint(1, 6)) if len(s) <= 11] or ['CAF']) + rng.sample(refs, min(2, len(refs)))
        use_lookupdb = t % 2 == 0
        k0 = rng.choice([1, 2])
        db = call_impl(lambda: nn.LookupDB(refs) if use_lookupdb else nn.SymdelDB(refs, k0))
        if db[0] != 'ok':
            ctx.violation('property', 'building the database raised %s' % (db,), dict(refs=refs), site='nn.db.build')
            continue
        steps = [(rng.randrange(6), rng.choice([1, 2]) if use_lookupdb else k0, rng.choice([None, None, 0, 1, 2, 3, 6])) for _ in range(rng.randint(2, 5))]
        outs = ctx.oracle.run([('api_brute_cross_custom', [w, kk, None if m is None else Fraction(m), refs, qs]) for w, kk, m in steps])
        for step, ((w, kk, m), exp) in enumerate(zip(steps, outs)):
            kw = dict(custom_distance=customs.make(w), max_custom_distance=float('inf') if m is None else m)
            g = call_impl(lambda: db[1].lookup(qs, max_edits=kk, **kw) if use_lookupdb else db[1].lookup(qs, **kw))
            ctx.case(nontrivial_key=('db-history', t, step) if exp else None)
            ctx.count('db_history_' + ('LookupDB' if use_lookupdb else 'SymdelDB'))
            if g[0] != 'ok' or canon_triplets(g[1]) != canon_model(exp):
                ctx.violation('property', 'lookup %d on one %s with custom distance "%s", max_edits=%d, max_custom_distance=%s differs from the pairs inside '
                              'both radii (earlier lookups on the same object: %s)' % (step, 'LookupDB' if use_lookupdb else 'SymdelDB', customs.NAMES[w], kk, m,
                                                                                   [(customs.NAMES[a], b, c) for a, b, c in steps[:step]]),
                              dict(refs=refs, queries=qs, steps=[list(x) for x in steps[:step + 1]], got=str(g)[:300]),
                              site='nn.LookupDB.lookup[custom]' if use_lookupdb else 'nn.SymdelDB.lookup[custom]')
                break
    # kdtree on two worker processes, several searches in one process with DIFFERENT sequences / distance functions / radii: each answer
    # is that of its own arguments (workers started for an earlier search know nothing about this one)
    for t in range(4 if ctx.quick else 40):
        steps = []
        for _ in range(rng.randint(2, 3)):
            steps.append((rng.randrange(6), rng.choice([1, 2]), rng.choice([None, 0, 1, 2, 3, 6]), repertoire(rng, rng.randint(3, 20))))
        outs = ctx.oracle.run([('api_brute_self_custom', [w, kk, None if m is None else Fraction(m), ss]) for w, kk, m, ss in steps])
        for step, ((w, kk, m, ss), exp) in enumerate(zip(steps, outs)):
            g = call_impl(lambda: nn.kdtree(list(ss), max_edits=kk, custom_distance=customs.make(w),
                                            max_custom_distance=float('inf') if m is None else m, n_cpu=2))
            ctx.case(nontrivial_key=('kdtree-2cpu-history', t, step) if exp and step else None)
            ctx.count('kdtree_two_workers_history_call')
            if g[0] != 'ok' or canon_triplets(g[1]) != canon_model(exp):
                ctx.violation('property', 'kdtree(n_cpu=2) call %d in one process, custom distance "%s", max_edits=%d, max_custom_distance=%s on %s '
                              'differs from the pairs inside both radii (earlier calls: %s): %s' % (
                                  step, customs.NAMES[w], kk, m, ss[:8], [(customs.NAMES[a], b, c, len(d)) for a, b, c, d in steps[:step]], str(g)[:200]),
                              dict(steps=[[a, b, None if c is None else str(c), d] for a, b, c, d in steps[:step + 1]], n_cpu=2, got=str(g)[:300]),
                              site='nn.kdtree[custom,n_cpu=2,history]')
                break
    # coverage audit: the input space around the cases above (containers, defaults, kinds of callables, ignored options, kdtree speed
    # options, matrix outputs, sizes, alphabets, second collections, histories) - see c14_wide.py
    import c14_wide
    c14_wide.run(ctx)
    import c14_tcrdist
    c14_tcrdist.run(ctx)
    ctx.assumptions += ['custom distances are symmetric with d(x,x) = 0 (stated domain)',
                        'real pwseqdist is absent: nearest_neighbor_tcrdist runs against the vendored stand-in /verif/standin/pwseqdist']


def replay(ctx, obj):
    run(ctx)
