"""Oracle entry points of C13 (coq/extract/Api_c13.v)."""
from proto import L, O, T, STRS
KEY = L(L('Z'))
TN = L(T(KEY, 'N'))        # table with token feature values
TS = L(T(KEY, 'str'))      # table with string feature values
SIGS = {
    'api_c13_group_keys': ([TN], L(KEY)),
    'api_c13_conditional': ([O(L('Q')), TN], T('nat', 'Q')),
    'api_c13_grouped_cross': ([TN], L(L(O('Q')))),
    'api_c13_pcdelta_grouped': ([L('Q'), 'bool', TS], L(T(KEY, O(L('Q'))))),
    'api_c13_pcdelta_grouped0': ([TS], L(T(KEY, O('Q')))),
    'api_c13_cross_index': ([TS], L(T(KEY, KEY))),
    'api_c13_pcdelta_cross_condensed': ([L('Q'), 'bool', TS], L(O(L('Q')))),
    'api_c13_pcdelta_cross0_condensed': ([TS], L(O('Q'))),
    'api_c13_pcdelta_cross0_square': ([TS], L(L(O('Q')))),
    'api_c13_renyi2_arg': (['bool', 'bool', O(L('Q')), TN], T('nat', 'Q')),
    'api_c13_std_parts': ([L('N')], T('bool', 'Q', 'Q')),
    'api_c13_dispatch': (['bool', 'bool'], T('nat', T('nat', 'nat'), T('nat', 'nat'))),
}
