"""C17 - resampling and power-law utilities conserve counts and honour their bounds.

The random draw is an explicit argument of the Coq model, so the implementation is compared through
(a) the executable specification predicates extracted from Coq (proved = the Prop specification), evaluated on the
    implementation's OWN output - they hold for every draw (conservation laws);
(b) a draw recovered from the output (canonical draw) under which the model must reproduce the output exactly;
(c) auxiliary only: the draw NumPy documents for the same seed (choice(N, n, replace=False)) fed to the model.
Uniformity is a statistical TEST (chi-square, false-alarm probability 1e-9 per statistic), labelled as such.
NumPy's global generator is seeded from ctx.rng before every implementation call."""
import itertools, math
from decimal import Decimal, getcontext
from fractions import Fraction
import numpy as np
import pandas as pd
from core import call_impl, close

FALSE_ALARM = 1e-9
LN_DIGITS = 30


# ------------------------------------------------------------------ helpers
def _seed(ctx):
    return ctx.rng.randrange(2 ** 32)


def _as_int(x):
    """integer value of a NumPy / Python number, None if it is not integer-valued"""
    try:
        f = float(x)
    except Exception:
        return None
    if not math.isfinite(f) or f != math.floor(f):
        return None
    return int(f)


def _container(v, kind):
    if kind == 'list':
        return list(v)
    if kind == 'tuple':
        return tuple(v)
    if kind == 'ndarray':
        return np.array(v, dtype=int) if all(isinstance(x, int) for x in v) else np.array(v)
    if kind == 'series':
        return pd.Series(v)
    raise ValueError(kind)


def _ln_fraction(q):
    """ln of a positive Fraction to LN_DIGITS significant digits, as an exact Fraction (decimal: correctly rounded)"""
    getcontext().prec = LN_DIGITS
    d = Decimal(q.numerator) / Decimal(q.denominator)
    return Fraction(d.ln())


# ------------------------------------------------------------------ subsample
def _sub_call(counts, n, seed, kind):
    from pyrepseq.stats import subsample
    arg = _container(counts, kind)
    np.random.seed(seed)
    return call_impl(subsample, arg, n)


def _sub_output_pairs(res):
    """(pairs, problem): the returned (unique, counts) as a list of int pairs"""
    try:
        u, c = res
        u, c = list(np.asarray(u).tolist()), list(np.asarray(c).tolist())
    except Exception as e:
        return None, 'result is not a pair of arrays (%s)' % type(e).__name__
    if len(u) != len(c):
        return None, 'index and count arrays differ in length'
    pairs = []
    for a, b in zip(u, c):
        ia, ib = _as_int(a), _as_int(b)
        if ia is None or ib is None or ia < 0 or ib < 0:
            return None, 'non-integer or negative entry (%r, %r)' % (a, b)
        pairs.append((ia, ib))
    return pairs, None


def check_subsample(ctx, cases, tag):
    """cases: list of (counts, n, seed, container kind). All decided in two oracle batches."""
    impl = [_sub_call(*c) for c in cases]
    req1, slots = [], []
    for k, ((counts, n, seed, kind), r) in enumerate(zip(cases, impl)):
        total = sum(counts)
        ctx.count('subsample:%s' % ('n>total' if n > total else 'n=0' if n == 0 else 'n=total' if n == total else '0<n<total'))
        ctx.count('subsample:container=%s' % kind)
        rep = dict(func='subsample', counts=list(counts), n=n, numpy_seed=seed, container=kind)
        if n > total:
            ctx.case(nontrivial_key=('sub-refuse', tuple(counts), n))
            if r[0] != 'exc':
                ctx.violation('property', 'subsample(%s, %d) with n larger than the total %d did not refuse: returned %s'
                              % (list(counts), n, total, _brief(r[1])), dict(rep, impl=_brief(r[1])), site='stats.subsample')
            continue
        if r[0] == 'exc':
            ctx.case()
            ctx.violation('property', 'subsample(%s as %s, %d) raised %s although 0 <= n <= total = %d'
                          % (list(counts), kind, n, r[1], total), dict(rep, impl=str(r)), site='stats.subsample')
            continue
        pairs, problem = _sub_output_pairs(r[1])
        if pairs is None:
            ctx.case()
            ctx.violation('property', 'subsample(%s, %d): %s' % (list(counts), n, problem), dict(rep, impl=_brief(r[1])),
                          site='stats.subsample')
            continue
        np.random.seed(seed)
        try:
            doc_draw = [int(t) for t in np.random.choice(total, size=n, replace=False)] if total > 0 else []
        except Exception:
            doc_draw = None
        slots.append((k, pairs, doc_draw, len(req1)))
        req1 += [('api_c17_subsample_ok', [list(counts), n, pairs]), ('api_c17_canon_draw', [list(counts), pairs])]
        if doc_draw is not None:
            req1.append(('api_c17_subsample', [list(counts), doc_draw]))
    out1 = ctx.oracle.run_parallel(req1)
    req2, slots2 = [], []
    for k, pairs, doc_draw, pos in slots:
        counts, n, seed, kind = cases[k]
        rep = dict(func='subsample', counts=list(counts), n=n, numpy_seed=seed, container=kind, impl=pairs)
        ok, canon = out1[pos], out1[pos + 1]
        nontriv = 0 < n < sum(counts) and len([c for c in counts if c > 0]) >= 2
        ctx.case(sample=dict(rep, spec_ok=ok) if nontriv and k % 97 == 0 and len(ctx.samples) < 2 else None,
                 nontrivial_key=('sub', tuple(counts), n, tuple(pairs)) if nontriv else None)
        if isinstance(ok, Exception) or ok is not True:
            ctx.violation('property', 'subsample(%s as %s, %d) returned indices/counts %s: not (ascending distinct categories, '
                          'positive counts summing to n, each at most the original count)' % (list(counts), kind, n, pairs),
                          rep, site='stats.subsample')
            continue
        if doc_draw is not None:
            m = out1[pos + 2]
            ctx.count('subsample:documented_draw_%s' % ('reproduces_output' if m == pairs else 'differs(auxiliary)'))
        if k % 7 == 0 and len(ctx.vm_cases) < 25:
            ctx.add_vm('api_c17_subsample_ok', [list(counts), n, pairs], ok)
        slots2.append((k, pairs, canon, len(req2)))
        req2 += [('api_c17_valid_draw', [sum(counts), n, canon]), ('api_c17_subsample', [list(counts), canon])]
    out2 = ctx.oracle.run_parallel(req2)
    for k, pairs, canon, pos in slots2:
        counts, n, seed, kind = cases[k]
        valid, model = out2[pos], out2[pos + 1]
        if valid is not True or model != pairs:
            ctx.violation('correspondence', 'subsample(%s, %d) = %s passes the specification but the model does not reproduce it '
                          'from the recovered draw %s (valid=%s, model=%s)' % (list(counts), n, pairs, canon, valid, model),
                          dict(func='subsample', counts=list(counts), n=n, numpy_seed=seed, container=kind, impl=pairs),
                          site='stats.subsample')
        elif k % 11 == 0 and len(ctx.vm_cases) < 40:
            ctx.add_vm('api_c17_subsample', [list(counts), canon], model)


def _brief(v):
    s = repr(v)
    return s if len(s) < 300 else s[:300] + '...'


# ------------------------------------------------------------------ downsample
def _ds_build(values, kind, labels=None):
    """the caller's collection; returns (object, list of element keys in order)"""
    if kind == 'list':
        return list(values), list(values)
    if kind == 'tuple':
        return tuple(values), list(values)
    if kind == 'ndarray':
        return np.array(values, dtype=str), list(values)
    if kind == 'series':
        return pd.Series(values, index=labels, dtype=object), list(values)
    if kind == 'dataframe':
        df = pd.DataFrame({'CDR3B': list(values), 'TRBV': ['TRBV%d' % (len(v) % 3) for v in values],
                           'clonal_counts': [len(v) + 1 for v in values]}, index=labels)
        return df, [(lab,) + tuple(row) for lab, row in zip(df.index.tolist(), df.itertuples(index=False, name=None))]
    raise ValueError(kind)


def _ds_keys(obj, kind):
    """element keys of a result"""
    if isinstance(obj, pd.DataFrame):
        return [(lab,) + tuple(row) for lab, row in zip(obj.index.tolist(), obj.itertuples(index=False, name=None))]
    if isinstance(obj, pd.Series):
        return [str(x) for x in obj.tolist()]
    return [str(x) for x in (obj.tolist() if isinstance(obj, np.ndarray) else list(obj))]


def check_downsample(ctx, cases):
    """cases: list of (values, kind, labels, maxseqs, seed)"""
    from pyrepseq.distance import downsample
    req, slots = [], []
    for k, (values, kind, labels, maxseqs, seed) in enumerate(cases):
        obj, keys = _ds_build(values, kind, labels)
        before = _ds_keys(obj, kind) if kind != 'dataframe' else keys
        np.random.seed(seed)
        r = call_impl(downsample, obj, maxseqs)
        N = len(keys)
        rep = dict(func='downsample', values=list(values), container=kind, labels=labels, maxseqs=maxseqs, numpy_seed=seed)
        regime = 'None' if maxseqs is None else ('unchanged' if N <= maxseqs else 'reduced')
        ctx.count('downsample:%s' % regime)
        ctx.count('downsample:container=%s' % kind)
        nontriv = regime == 'reduced' and 0 < maxseqs and len(set(keys)) >= 2
        if r[0] == 'exc':
            ctx.case()
            ctx.violation('property', 'downsample(%s of %d elements, maxseqs=%s) raised %s' % (kind, N, maxseqs, r[1]),
                          dict(rep, impl=str(r)), site='distance.downsample')
            continue
        out = r[1]
        after = _ds_keys(obj, kind)
        if [str(x) for x in after] != [str(x) for x in before]:
            ctx.violation('property', 'downsample altered the caller\'s %s' % kind, rep, site='distance.downsample')
        try:
            okeys = _ds_keys(out, kind)
        except Exception as e:
            ctx.case()
            ctx.violation('property', 'downsample(%s, maxseqs=%s) returned %s' % (kind, maxseqs, _brief(out)), rep,
                          site='distance.downsample')
            continue
        if regime != 'reduced':
            # unchanged input must come back unchanged: same container type, same elements in the same order
            ctx.case(nontrivial_key=('ds-id', kind, tuple(map(str, keys)), maxseqs) if N > 0 else None)
            if type(out) is not type(obj):
                ctx.violation('property', 'downsample(%s of %d elements, maxseqs=%s) returned a %s, not the input unchanged'
                              % (kind, N, maxseqs, type(out).__name__), dict(rep, impl=_brief(out)), site='distance.downsample')
                continue
            if kind == 'dataframe' and (list(out.columns) != list(obj.columns)):
                ctx.violation('property', 'downsample changed the columns of an unchanged table', rep, site='distance.downsample')
                continue
        elif kind == 'dataframe':
            if not isinstance(out, pd.DataFrame) or list(out.columns) != list(obj.columns):
                ctx.case()
                ctx.violation('property', 'downsample(table, maxseqs=%s) returned %s: not a table with the same columns'
                              % (maxseqs, _brief(out)), rep, site='distance.downsample')
                continue
        code = {}
        for x in keys:
            code.setdefault(x if kind == 'dataframe' else str(x), len(code) + 1)
        xs = [code[x if kind == 'dataframe' else str(x)] for x in keys]
        fresh = len(code) + 1
        oc = []
        for x in okeys:
            if x in code:
                oc.append(code[x])
            else:
                oc.append(fresh)      # an element that is not in the input at all
        slots.append((k, xs, oc, regime, nontriv, okeys, len(req)))
        req += [('api_c17_downsample_ok', [xs, maxseqs, oc]), ('api_c17_recover_draw', [xs, oc])]
    out1 = ctx.oracle.run_parallel(req)
    req2, slots2 = [], []
    for k, xs, oc, regime, nontriv, okeys, pos in slots:
        values, kind, labels, maxseqs, seed = cases[k]
        rep = dict(func='downsample', values=list(values), container=kind, labels=labels, maxseqs=maxseqs, numpy_seed=seed,
                   impl=[str(x) for x in okeys])
        ok, draw = out1[pos], out1[pos + 1]
        if regime == 'reduced':
            ctx.case(sample=dict(rep, spec_ok=ok) if nontriv and k % 53 == 0 and len(ctx.samples) < 3 else None,
                     nontrivial_key=('ds', kind, tuple(xs), maxseqs, tuple(oc)) if nontriv else None)
        if ok is not True:
            what = ('is not the input unchanged' if regime != 'reduced' else
                    'is not exactly maxseqs elements forming a sub-multiset%s of the input' % (' (subset of rows)' if kind == 'dataframe' else ''))
            ctx.violation('property', 'downsample(%s %s, maxseqs=%s) returned %s, which %s'
                          % (kind, [str(v) for v in values], maxseqs, [str(x) for x in okeys], what), rep, site='distance.downsample')
            continue
        if k % 5 == 0 and len(ctx.vm_cases) < 50:
            ctx.add_vm('api_c17_downsample_ok', [xs, maxseqs, oc], ok)
        if regime == 'reduced':
            if draw is None:
                ctx.violation('correspondence', 'no draw reproduces the accepted output %s' % oc, rep, site='distance.downsample')
                continue
            slots2.append((k, xs, oc, draw, len(req2)))
            req2 += [('api_c17_valid_draw', [len(xs), maxseqs, draw]), ('api_c17_downsample', [xs, maxseqs, draw])]
        else:
            slots2.append((k, xs, oc, [], len(req2)))
            req2 += [('api_c17_valid_draw', [0, 0, []]), ('api_c17_downsample', [xs, maxseqs, []])]
    out2 = ctx.oracle.run_parallel(req2)
    for k, xs, oc, draw, pos in slots2:
        values, kind, labels, maxseqs, seed = cases[k]
        valid, model = out2[pos], out2[pos + 1]
        if valid is not True or model != oc:
            ctx.violation('correspondence', 'downsample model under the recovered draw %s gives %s, implementation %s' % (draw, model, oc),
                          dict(func='downsample', values=list(values), container=kind, labels=labels, maxseqs=maxseqs, numpy_seed=seed),
                          site='distance.downsample')


# ------------------------------------------------------------------ uniformity (a statistical TEST)
def uniformity_tests(ctx):
    from scipy.stats import chi2
    from pyrepseq.stats import subsample
    from pyrepseq.distance import downsample
    T = 3000 if ctx.quick else 20000
    results = []

    def pearson(obs, exp, scale, df, name, rep, T=T):
        stat = scale * sum((o - e) ** 2 / e for o, e in zip(obs, exp) if e > 0)
        thr = float(chi2.isf(FALSE_ALARM, df))
        results.append(dict(test=name, draws=T, statistic=round(stat, 3), threshold=round(thr, 3), df=df))
        ctx.case(nontrivial_key=('chi2', name))
        if stat > thr:
            ctx.violation('property', 'TEST (chi-square, false-alarm probability %g): %s - items are not equally likely to be kept: '
                          'statistic %.1f > %.1f (df %d) over %d draws; observed %s expected %s'
                          % (FALSE_ALARM, name, stat, thr, df, T, obs, [round(e, 1) for e in exp]),
                          dict(rep, draws=T, observed=obs, expected=[float(e) for e in exp], statistic=stat, threshold=thr),
                          site='uniformity')

    # expected inclusion frequency comes from the model: #subsets containing an item / #subsets (C17_uniform_item: = n/N)
    K, n = 8, 3
    incl, allsub = ctx.oracle.run([('api_c17_inclusion', [K, n])])[0]
    p = Fraction(incl, allsub)
    # (1) subsample, one item per category: the per-item inclusion is observable
    seed0 = _seed(ctx)
    np.random.seed(seed0)
    obs = [0] * K
    for _ in range(T):
        u, c = subsample([1] * K, n)
        for i in u.tolist():
            obs[int(i)] += 1
    pearson(obs, [T * float(p)] * K, (K - 1) / (K - n), K - 1, 'subsample([1]*8, 3): per-item inclusion',
            dict(func='uniform_subsample_items', counts=[1] * K, n=n, numpy_seed=seed0))
    # (2) subsample, unequal categories: category totals follow the multivariate hypergeometric law
    counts, n2 = [3, 1, 4, 2], 4
    N = sum(counts)
    seed1 = _seed(ctx)
    np.random.seed(seed1)
    obs = [0] * len(counts)
    for _ in range(T):
        u, c = subsample(counts, n2)
        for i, x in zip(u.tolist(), c.tolist()):
            obs[int(i)] += int(x)
    pearson(obs, [T * n2 * ci / N for ci in counts], (N - 1) / (N - n2), len(counts) - 1,
            'subsample([3,1,4,2], 4): category totals', dict(func='uniform_subsample_cats', counts=counts, n=n2, numpy_seed=seed1))
    # (3) downsample of distinct sequences (list) and of table rows: per-position inclusion
    seqs = ['CAS%sF' % ('A' * i) for i in range(K)]
    for kind in ('list', 'dataframe'):
        obj, keys = _ds_build(seqs, kind, list(range(K)))
        seed2 = _seed(ctx)
        np.random.seed(seed2)
        obs = [0] * K
        TT = T if kind == 'list' else max(T // 6, 500)
        for _ in range(TT):
            out = downsample(obj, n)
            got = out['CDR3B'].tolist() if kind == 'dataframe' else out.tolist()
            for s in got:
                obs[seqs.index(str(s))] += 1
        pearson(obs, [TT * float(p)] * K, (K - 1) / (K - n), K - 1, 'downsample(8 distinct %s elements, 3): per-position inclusion' % kind,
                dict(func='uniform_downsample', container=kind, n=n, numpy_seed=seed2), T=TT)
    ctx.extra['uniformity_tests'] = results
    ctx.extra['uniformity_note'] = ('statistical TEST, not a theorem: chi-square with false-alarm probability %g per statistic; '
                                    'expected frequencies from the model (api_c17_inclusion = n/N by C17_uniform_item)' % FALSE_ALARM)


# ------------------------------------------------------------------ powerlaw_sample
def check_powerlaw_sample(ctx, cases):
    """cases: (size, xmin, alpha, seed)"""
    from pyrepseq.stats import powerlaw_sample
    req, slots = [], []
    for k, (size, xmin, alpha, seed) in enumerate(cases):
        np.random.seed(seed)
        r = call_impl(powerlaw_sample, size, xmin, alpha)
        rep = dict(func='powerlaw_sample', size=size, xmin=xmin, alpha=alpha, numpy_seed=seed)
        ctx.count('powerlaw_sample:size=%s' % ('0' if int(size) == 0 else '1' if int(size) == 1 else '<=100' if size <= 100 else '<=1e4' if size <= 10 ** 4 else '>1e4'))
        ctx.count('powerlaw_sample:alpha%s' % ('<1.5' if alpha < 1.5 else '<3' if alpha < 3 else '>=3'))
        if r[0] == 'exc':
            ctx.case()
            ctx.violation('property', 'powerlaw_sample(size=%s, xmin=%s, alpha=%s) raised %s' % (size, xmin, alpha, r[1]), rep,
                          site='stats.powerlaw_sample')
            continue
        try:
            vals = np.asarray(r[1], dtype=float).ravel().tolist()
        except Exception:
            ctx.case()
            ctx.violation('property', 'powerlaw_sample returned %s' % _brief(r[1]), rep, site='stats.powerlaw_sample')
            continue
        if not all(math.isfinite(v) for v in vals):
            ctx.case()
            ctx.violation('property', 'powerlaw_sample(size=%s, xmin=%s, alpha=%s) returned a non-finite value' % (size, xmin, alpha),
                          rep, site='stats.powerlaw_sample')
            continue
        fr = [Fraction(v) for v in vals]
        slots.append((k, vals, fr, len(req)))
        req.append(('api_c17_powerlaw_ok', [int(size), Fraction(xmin), fr]))
    outs = ctx.oracle.run_parallel(req)
    for k, vals, fr, pos in slots:
        size, xmin, alpha, seed = cases[k]
        ok = outs[pos]
        rep = dict(func='powerlaw_sample', size=size, xmin=xmin, alpha=alpha, numpy_seed=seed)
        nontriv = int(size) >= 1 and any(v > xmin for v in vals)
        ctx.case(sample=dict(rep, first_values=vals[:6], spec_ok=ok) if nontriv and k % 13 == 0 and len(ctx.samples) < 4 else None,
                 nontrivial_key=('pl', int(size), xmin, alpha, seed) if nontriv else None)
        if ok is not True:
            bad = [v for v in vals if v < xmin or v != math.floor(v)][:3]
            why = ('%d values returned, %d requested' % (len(vals), int(size)) if len(vals) != int(size)
                   else 'values %s are not integer-valued numbers >= xmin' % bad)
            ctx.violation('property', 'powerlaw_sample(size=%s, xmin=%s, alpha=%s) with numpy seed %d: %s' % (size, xmin, alpha, seed, why),
                          dict(rep, bad_values=bad, returned=len(vals)), site='stats.powerlaw_sample')
        elif len(fr) <= 6 and len(ctx.vm_cases) < 58:
            ctx.add_vm('api_c17_powerlaw_ok', [int(size), Fraction(xmin), fr], ok)


# ------------------------------------------------------------------ powerlaw_mle_alpha: closed forms
METHODS = {'simple': 0, 'continuitycorrection': 1}


def check_mle_closed(ctx, cases):
    """cases: (counts, cmin, method, container)"""
    from pyrepseq.stats import powerlaw_mle_alpha
    req = [('api_c17_mle_lnargs', [METHODS[m], [Fraction(x) for x in c], Fraction(cmin)]) for c, cmin, m, kind in cases]
    args = ctx.oracle.run_parallel(req)
    lncache = {}
    req2 = []
    for (c, cmin, m, kind), a in zip(cases, args):
        tbl = []
        for q in sorted(set(a)):
            if q not in lncache:
                lncache[q] = _ln_fraction(q) if q > 0 else Fraction(0)
            tbl.append((q, lncache[q]))
        req2.append(('api_c17_mle', [METHODS[m], tbl, [Fraction(x) for x in c], Fraction(cmin)]))
    outs = ctx.oracle.run_parallel(req2)
    for k, ((c, cmin, m, kind), a, o) in enumerate(zip(cases, args, outs)):
        gen_defined, complete, gen, doc = o
        # the documented quotient exists iff the documented sum of logarithms is not 0 (table values are exact rationals)
        defined = sum((lncache[q] for q in a), Fraction(0)) != 0
        arg = _container(c, kind)
        r = call_impl(powerlaw_mle_alpha, arg, cmin, m)
        rep = dict(func='powerlaw_mle_alpha', counts=list(c), cmin=cmin, method=m, container=kind)
        ctx.count('mle:%s' % m)
        ctx.count('mle:%s' % ('defined' if defined else 'degenerate(sum ln = 0)'))
        nontriv = defined and len(set(a)) >= 2
        ctx.case(sample=dict(rep, impl=str(r), documented=float(doc)) if nontriv and k % 41 == 0 and len(ctx.samples) < 5 else None,
                 nontrivial_key=('mle', m, tuple(c), cmin) if nontriv else None)
        if len(ctx.violations) > 20:
            break
        if not defined:
            # every kept count equals cmin ('simple') or no count is >= cmin: the closed form has no value;
            # the implementation answers inf / nan there - a finite answer is reported as a model/implementation difference
            if r[0] == 'ok' and math.isfinite(float(r[1])) and len(a) > 0:
                ctx.violation('correspondence', 'powerlaw_mle_alpha(%s, %s, %s) = %s although the documented sum of logarithms is 0'
                              % (list(c), cmin, m, r[1]), rep, site='stats.powerlaw_mle_alpha')
            continue
        if r[0] != 'ok' or not close(float(r[1]), doc):
            form = '1 + n/sum ln(c/cmin)' if m == 'simple' else '1 + n/sum ln(c/(cmin - 1/2))'
            ctx.violation('property', 'powerlaw_mle_alpha(%s as %s, cmin=%s, method=%r) = %s but the documented closed form %s over the '
                          'counts >= cmin gives %.12g' % (list(c), kind, cmin, m, r[1], form, float(doc)),
                          dict(rep, impl=str(r), expected=float(doc)), site='stats.powerlaw_mle_alpha')
            continue
        if not complete or not gen_defined or not close(float(r[1]), gen):
            ctx.violation('correspondence', 'the model generated from the source disagrees with the implementation on %s cmin=%s %s: '
                          '%.12g vs %s (ln arguments all on the documented table: %s)' % (list(c), cmin, m, float(gen), r[1], complete),
                          rep, site='stats.powerlaw_mle_alpha')


# ------------------------------------------------------------------ powerlaw_mle_alpha: 'exact'
def _hurwitz_decimal(s, q, M=24, terms=8):
    """Hurwitz zeta by Euler-Maclaurin in 40-digit decimals: an evaluation independent of SciPy (contract cross-check)"""
    getcontext().prec = 40
    s, q = Decimal(repr(s)), Decimal(repr(q))
    tot = sum((q + k) ** (-s) for k in range(M))
    a = q + M
    tot += a ** (1 - s) / (s - 1) + a ** (-s) / 2
    B = [Fraction(1, 6), Fraction(-1, 30), Fraction(1, 42), Fraction(-1, 30), Fraction(5, 66), Fraction(-691, 2730),
         Fraction(7, 6), Fraction(-3617, 510)]
    poch = s
    fact = Decimal(2)
    for j in range(1, terms + 1):
        b = Decimal(B[j - 1].numerator) / Decimal(B[j - 1].denominator)
        tot += b / fact * poch * a ** (-s - 2 * j + 1)
        poch *= (s + 2 * j - 1) * (s + 2 * j)
        fact *= (2 * j + 1) * (2 * j + 2)
    return tot


def _loglik(x, alphas, cmin):
    import scipy.special
    x = np.asarray(x, dtype=float)
    x = x[x >= cmin]
    return -len(x) * np.log(scipy.special.zeta(alphas, cmin)) - alphas * np.sum(np.log(x))


def _discrete_powerlaw(rng, n, alpha, cmin):
    """counts from an (approximately) discrete power law - the harness's own generator, not the function under test"""
    out = []
    for _ in range(n):
        u = rng.random()
        out.append(int(math.floor((cmin - 0.5) * (1 - u) ** (-1.0 / (alpha - 1.0)) + 0.5)))
    return [min(v, 10 ** 9) for v in out]


def check_mle_exact(ctx, cases):
    """cases: (counts, cmin, bounds or None)"""
    from pyrepseq.stats import powerlaw_mle_alpha
    import scipy.special
    G = 400 if ctx.quick else 2000
    TOL = Fraction(1, 10 ** 6)
    req, slots = [], []
    worst = 0.0
    for k, (c, cmin, bounds) in enumerate(cases):
        kw = dict(bounds=list(bounds)) if bounds is not None else {}
        lo, hi = bounds if bounds is not None else (1.5, 4.5)
        r = call_impl(powerlaw_mle_alpha, np.array(c), cmin, 'exact', **kw)
        rep = dict(func='powerlaw_mle_alpha', method='exact', counts=list(c), cmin=cmin, bounds=[lo, hi], default_bounds=bounds is None)
        ctx.count('mle:exact:%s' % ('default bounds' if bounds is None else 'custom bounds'))
        if r[0] != 'ok' or not math.isfinite(float(r[1])):
            ctx.case()
            ctx.violation('property', "powerlaw_mle_alpha(%d counts, cmin=%s, 'exact', bounds=%s) -> %s" % (len(c), cmin, [lo, hi], r),
                          rep, site='stats.powerlaw_mle_alpha[exact]')
            continue
        a = float(r[1])
        grid = np.linspace(lo, hi, G)
        ll = _loglik(c, grid, cmin)
        ll_a = float(_loglik(c, np.array([min(max(a, lo), hi)]), cmin)[0]) if lo <= a <= hi else float('-inf')
        if k < 6:
            for al in (float(grid[G // 3]), a if lo <= a <= hi else lo):
                zs, zd = float(scipy.special.zeta(al, cmin)), _hurwitz_decimal(al, cmin)
                worst = max(worst, abs(zs / float(zd) - 1))
        j = int(np.argmax(ll))
        boundary = j in (0, G - 1)
        ctx.count('mle:exact:%s' % ('optimum at a bound' if boundary else 'interior optimum'))
        if not (lo <= a <= hi):
            ctx.case()
            ctx.violation('property', "powerlaw_mle_alpha(..., 'exact', bounds=%s) returned %r outside its bounds" % ([lo, hi], a),
                          dict(rep, impl=a), site='stats.powerlaw_mle_alpha[exact]')
            continue
        slots.append((k, a, boundary, len(req), ll_a, float(ll[j]), float(grid[j])))
        req.append(('api_c17_exact_ok', [Fraction(lo), Fraction(hi), Fraction(a), Fraction(ll_a), TOL, [Fraction(float(v)) for v in ll]]))
        # concave likelihood whose maximum over the bounds sits at an end point e: the bounded minimiser stops within its
        # x-tolerance of e, so the position is judged instead (|a - e| <= 1e-4) when the likelihood criterion fails
        e = float(grid[j])
        req.append(('api_c17_exact_ok', [Fraction(lo), Fraction(hi), Fraction(a), -abs(Fraction(a) - Fraction(e)),
                                        Fraction(1, 10 ** 4), [Fraction(0)]]))
    outs = ctx.oracle.run_parallel(req)
    for k, a, boundary, pos, ll_a, llmax, amax in slots:
        c, cmin, bounds = cases[k]
        lo, hi = bounds if bounds is not None else (1.5, 4.5)
        ok = True if (outs[pos] is True or (boundary and outs[pos + 1] is True)) else False
        rep = dict(func='powerlaw_mle_alpha', method='exact', counts=list(c), cmin=cmin, bounds=[lo, hi], default_bounds=bounds is None,
                   impl=a, loglik_at_impl=ll_a, grid_max=llmax, grid_argmax=amax)
        ctx.case(sample=dict(n=len(c), cmin=cmin, bounds=[lo, hi], impl=a, loglik_at_impl=ll_a, grid_max=llmax, grid_argmax=amax) if k % 9 == 0 else None,
                 nontrivial_key=('exact', tuple(c), cmin, lo, hi) if not boundary else None)
        if ok is not True:
            ctx.violation('property', "powerlaw_mle_alpha(%d counts, cmin=%s, 'exact', bounds=%s) = %.9g is not a maximiser of the discrete "
                          'power-law likelihood within the bounds: log-likelihood %.9g there, %.9g at alpha=%.6g'
                          % (len(c), cmin, [lo, hi], a, ll_a, llmax, amax), rep, site='stats.powerlaw_mle_alpha[exact]')
    ctx.extra['zeta_contract_crosscheck'] = ('scipy.special.zeta vs an independent 40-digit Euler-Maclaurin evaluation: '
                                             'max relative difference %.2e on %d points' % (worst, min(len(cases), 6) * 2))
    if worst > 1e-9:
        ctx.note('scipy.special.zeta deviates from the independent evaluation by %.2e (contract, not pyrepseq)' % worst)


# ------------------------------------------------------------------ generators
def gen_subsample_cases(ctx):
    rng = ctx.rng
    cases = []
    kinds = ['list', 'ndarray', 'tuple', 'series']
    # exhaustive: every count vector of length 0..4 with entries 0..4, every n from 0 to total, and n = total+1, total+3
    k = 0
    for L in range(0, 5):
        for counts in itertools.product(range(5), repeat=L):
            total = sum(counts)
            ns = list(range(total + 1)) + [total + 1, total + 3]
            if ctx.quick and total > 6:
                # quick tier: all n for small totals, a spread of n for the larger ones (thorough: every n)
                ns = sorted(set([0, 1, total // 2, total - 1, total, total + 1] + [rng.randint(0, total)]))
            for n in ns:
                cases.append((counts, n, _seed(ctx), kinds[k % 4] if (k % 5 == 0 and L > 0) else 'list'))
                k += 1
    ctx.exhaustive = True
    # random large vectors
    for _ in range(60 if ctx.quick else 1200):
        L = rng.randint(1, 40)
        counts = tuple(rng.choice([0, 0, 1, 1, 2, 3, 5, 8, 20, rng.randint(0, 60)]) for _ in range(L))
        total = sum(counts)
        n = rng.choice([0, total, rng.randint(0, total), rng.randint(0, total), total + rng.randint(1, 5)])
        cases.append((counts, n, _seed(ctx), rng.choice(kinds)))
    return cases


AA = 'ACDEFGHIKLMNPQRSTVWY'


def gen_downsample_cases(ctx):
    rng = ctx.rng
    cases = []
    pool = ['CASSF', 'CASSLF', 'CAF', 'CASSQETQYF', 'CSARDF']
    kinds = ['list', 'ndarray', 'series', 'dataframe', 'tuple']
    # every multiset pattern over a 3-sequence pool for N <= 4 (quick) / 5, every maxseqs 0..N+2 and None, every container
    Nmax = 4 if ctx.quick else 5
    for N in range(0, Nmax + 1):
        for values in itertools.product(pool[:3], repeat=N):
            if list(values) != sorted(values) and rng.random() < (0.6 if ctx.quick else 0.0):
                continue
            for kind in kinds:
                if kind == 'dataframe' and N == 0:
                    continue
                labels = None
                if kind in ('series', 'dataframe'):
                    labels = rng.choice([list(range(N)), list(range(N))[::-1], [10 + 3 * i for i in range(N)],
                                         [i // 2 for i in range(N)], [i % 2 for i in range(N)], ['r%d' % (i % 3) for i in range(N)]])   # incl. duplicated / string labels (pd.concat without ignore_index)
                for m in list(range(0, N + 3)) + [None]:
                    cases.append((list(values), kind, labels, m, _seed(ctx)))
    for _ in range(120 if ctx.quick else 2500):
        N = rng.randint(1, 60 if ctx.quick else 300)
        base = [''.join(rng.choice(AA) for _ in range(rng.randint(3, 12))) for _ in range(rng.randint(1, max(1, N // 2)))]
        values = [rng.choice(base + pool) for _ in range(N)]
        kind = rng.choice(kinds)
        labels = None
        if kind in ('series', 'dataframe'):
            labels = list(range(N))
            c = rng.random()
            if c < 0.4:
                rng.shuffle(labels)
            elif c < 0.7:
                labels = [rng.randrange(max(1, N // 2)) for _ in range(N)]      # duplicated labels
        m = rng.choice([0, 1, N - 1, N, N + 1, N + 2, None, rng.randint(0, N), rng.randint(0, N)])
        cases.append((values, kind, labels, max(m, 0) if m is not None else None, _seed(ctx)))
    return cases


def gen_powerlaw_cases(ctx):
    rng = ctx.rng
    cases = []
    for size in [0, 1, 2, 3]:
        for xmin in [1, 2, 7, 50]:
            for alpha in [1.06, 1.5, 2.0, 3.0, 5.99]:
                cases.append((size, xmin, alpha, _seed(ctx)))
    for _ in range(150 if ctx.quick else 1500):
        size = rng.choice([5, 10, 100, 1000, rng.randint(0, 3000)])
        xmin = rng.randint(1, 50)
        alpha = rng.choice([round(rng.uniform(1.06, 6.0), 3), round(rng.uniform(1.06, 1.6), 3), 2.0])
        if rng.random() < 0.2:
            size, xmin = float(size), float(xmin)
        cases.append((size, xmin, alpha, _seed(ctx)))
    for size in ([10 ** 5] if ctx.quick else [10 ** 5] * 8 + [10 ** 4] * 20):
        cases.append((size, rng.randint(1, 50), round(rng.uniform(1.06, 6.0), 3), _seed(ctx)))
    return cases


def gen_mle_cases(ctx):
    rng = ctx.rng
    cases = []
    vals = [0, 1, 2, 3, 5]          # 0: a clonotype absent from this sample of a merged table - below every threshold, never fitted
    Lmax = 3 if ctx.quick else 4
    for L in range(1, Lmax + 1):
        for c in itertools.product(vals, repeat=L):
            for cmin in (1, 2):
                for m in METHODS:
                    cases.append((list(c), cmin, m, 'list' if (len(cases) % 3) else 'ndarray'))
    for _ in range(150 if ctx.quick else 1000):
        n = rng.randint(1, 80 if ctx.quick else 250)
        cmin = rng.choice([1, 1, 2, 3, 5, 10, 1.0, 2.0, 1.5])
        alpha = rng.uniform(1.5, 4.0)
        c = _discrete_powerlaw(rng, n, alpha, 1)
        if rng.random() < 0.1:
            c = [int(cmin)] * n if float(cmin) == int(cmin) else c      # degenerate: every count equals cmin
        c = [min(v, 10 ** 6) for v in c]
        if rng.random() < 0.3:
            c += [0] * rng.randint(1, 5)         # zero counts (absent clonotypes) lie below any cmin
            rng.shuffle(c)
            ctx.count('mle:counts_with_zeros')
        cases.append((c, cmin, rng.choice(list(METHODS)), rng.choice(['list', 'ndarray', 'series', 'tuple'])))
    return cases


def gen_exact_cases(ctx):
    rng = ctx.rng
    cases = []
    for _ in range(25 if ctx.quick else 300):
        n = rng.randint(30, 600)
        cmin = rng.choice([1, 1, 2, 3])
        alpha = rng.uniform(1.8, 4.0)
        c = _discrete_powerlaw(rng, n, alpha, cmin)
        if rng.random() < 0.3:
            c += [rng.randint(1, 3) for _ in range(rng.randint(0, 30))]       # counts below cmin are ignored by the fit
        r = rng.random()
        bounds = None if r < 0.55 else rng.choice([(1.2, 3.0), (2.0, 6.0), (1.5, 2.5), (1.1, 8.0), (3.0, 4.0)])
        cases.append((c, cmin, bounds))
    return cases


# ------------------------------------------------------------------ entry points
def run(ctx):
    ctx.rule = ('subsample: every count vector of length 0..4 with entries 0..4 x n in 0..total, total+1, total+3 (quick: a spread of n '
                'for totals > 6) in list/ndarray/tuple/Series form, plus random vectors up to 40 categories; non-trivial := 0 < n < total '
                'and >= 2 non-empty categories, distinct by (counts, n, output). downsample: every multiset pattern over a 3-sequence pool, '
                'N <= 4/5, x list/ndarray/Series/DataFrame/tuple x maxseqs 0..N+2 and None, plus random collections; non-trivial := reduced, '
                'maxseqs > 0, >= 2 distinct elements. powerlaw_sample: sizes 0..1e5, xmin 1..50, alpha in [1.06, 6); non-trivial := some value '
                'above xmin. powerlaw_mle_alpha: every count vector over {1,2,3,5} of length <= 3/4 x cmin 1,2 x both closed forms, random '
                'power-law samples; exact: bounds respected and log-likelihood >= grid maximum - 1e-6. NumPy seeded from ctx.rng per call.')
    check_subsample(ctx, gen_subsample_cases(ctx), 'main')
    if len(ctx.violations) < 20:
        check_downsample(ctx, gen_downsample_cases(ctx))
    if len(ctx.violations) < 20:
        check_powerlaw_sample(ctx, gen_powerlaw_cases(ctx))
    if len(ctx.violations) < 20:
        check_mle_closed(ctx, gen_mle_cases(ctx))
    if len(ctx.violations) < 20:
        check_mle_exact(ctx, gen_exact_cases(ctx))
    if len(ctx.violations) < 20:
        uniformity_tests(ctx)
    _shrink_first(ctx)
    ctx.assumptions += [
        'numpy.random.choice(a, n, replace=False) returns n entries of a at distinct positions, each n-subset equally likely '
        '(modelled as the explicit draw S; uniformity only TESTED: chi-square, false-alarm 1e-9)',
        'pandas DataFrame.sample(n) returns n distinct rows with their labels (modelled as the same draw)',
        'numpy.random.rand returns floats in [0, 1); float64 evaluation of the inverse-transform formula (r within 1e-16 of 1 not covered)',
        "scipy.optimize.minimize_scalar(method='bounded') and scipy.special.zeta (Hurwitz zeta) for method='exact': exercised, not proved",
        'decimal logarithms (30 digits) stand for ln in the closed forms; float64 result compared with the exact rational, rel 1e-9',
    ]


def _shrink_first(ctx):
    """cheap shrinking: among the property violations prefer the smallest input"""
    def size(v):
        r = v.get('replay') or {}
        return len(repr(r.get('counts', r.get('values', r.get('size', '')))))
    prop = [v for v in ctx.violations if v['kind'] == 'property']
    if len(prop) > 1:
        best = min(prop, key=size)
        ctx.violations.remove(best)
        ctx.violations.insert(0, best)


def replay(ctx, obj):
    r = obj['replay']
    f = r.get('func')
    if f == 'subsample':
        check_subsample(ctx, [(tuple(r['counts']), r['n'], r['numpy_seed'], r.get('container', 'list'))], 'replay')
    elif f == 'downsample':
        check_downsample(ctx, [(r['values'], r['container'], r.get('labels'), r['maxseqs'], r['numpy_seed'])])
    elif f == 'powerlaw_sample':
        check_powerlaw_sample(ctx, [(r['size'], r['xmin'], r['alpha'], r['numpy_seed'])])
    elif f == 'powerlaw_mle_alpha' and r.get('method') == 'exact':
        check_mle_exact(ctx, [(r['counts'], r['cmin'], None if r.get('default_bounds') else tuple(r['bounds']))])
    elif f == 'powerlaw_mle_alpha':
        check_mle_closed(ctx, [(r['counts'], r['cmin'], r['method'], r.get('container', 'list'))])
    else:
        run(ctx)
