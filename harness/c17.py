"""C17 - resampling and power-law utilities conserve counts and honour their bounds.

The random draw is an explicit argument of the Coq model, so the implementation is compared through
(a) the executable specification predicates extracted from Coq (proved = the Prop specification), evaluated on the
    implementation's OWN output - they hold for every draw (conservation laws);
(b) a draw recovered from the output (canonical draw) under which the model must reproduce the output exactly;
(c) auxiliary only: the draw NumPy documents for the same seed (choice(N, n, replace=False)) fed to the model.
Uniformity is a statistical TEST (chi-square, false-alarm probability 1e-9 per statistic), labelled as such.
NumPy's global generator is seeded from ctx.rng before every implementation call."""
import itertools, math, os
from decimal import Decimal, getcontext
from fractions import Fraction
import numpy as np
import pandas as pd
from core import call_impl, close

FALSE_ALARM = 1e-9
LN_DIGITS = 30


# ------------------------------------------------------------------ helpers
def _seed(ctx):
    return ctx.rng.randrange(2 ** 32)


def _as_int(x):
    """integer value of a NumPy / Python number, None if it is not integer-valued"""
    try:
        f = float(x)
    except Exception:
        return None
    if not math.isfinite(f) or f != math.floor(f):
        return None
    return int(f)


INT_DTYPES = ['int8', 'uint8', 'int16', 'uint16', 'int32', 'uint32', 'int64', 'uint64']


def _fits(v, dt):
    """every entry of v is representable in the integer dtype dt"""
    ii = np.iinfo(dt)
    return all(isinstance(x, int) and ii.min <= x <= ii.max for x in v)


def _series_index(N, var):
    if var == 'shifted':
        return list(range(5, 5 + N))
    if var == 'permuted':
        return list(range(N))[::-1]
    if var == 'string':
        return ['c%d' % (N - i) for i in range(N)]
    if var == 'duplicated':
        return [i // 2 for i in range(N)]
    return None


def _container(v, kind):
    """the caller's vector of numbers. kind = base[:variant]: list[:npints], tuple, ndarray[:<dtype>],
    series[:shifted|permuted|string|duplicated|Int64] (index variants: the functions work by POSITION, never by label)"""
    base, _, var = kind.partition(':')
    if base == 'list':
        if var == 'npints':
            return [(np.int64(x) if i % 2 else np.int32(x)) if isinstance(x, int) else x for i, x in enumerate(v)]
        return list(v)
    if base == 'tuple':
        return tuple(v)
    if base == 'ndarray':
        if var:
            return np.array(v, dtype=var)
        return np.array(v, dtype=int) if all(isinstance(x, int) for x in v) else np.array(v)
    if base == 'series':
        if var == 'Int64':
            return pd.Series(list(v), dtype='Int64')
        return pd.Series(list(v), index=_series_index(len(v), var))
    raise ValueError(kind)


def _typed(v, t):
    """v as the scalar type named t ('int', 'float', 'np.int64', 'np.float64', ...); None / 'py': unchanged"""
    if t in (None, 'py'):
        return v
    if t == 'int':
        return int(v)
    if t == 'float':
        return float(v)
    return getattr(np, t[3:])(v)


def _content(obj):
    """printable snapshot of the caller's vector (to see whether a call altered it)"""
    if isinstance(obj, pd.DataFrame):
        return [repr(x) for x in _ds_keys(obj, 'dataframe')] + [repr(list(obj.columns))]
    if isinstance(obj, pd.Series):
        return [repr(x) for x in obj.tolist()] + [repr(obj.index.tolist())]
    if isinstance(obj, np.ndarray):
        return [repr(x) for x in obj.tolist()] + [str(obj.dtype)]
    return [repr(x) for x in obj]


def _refill(obj, new):
    """the caller overwrites one preallocated object in place (same length)"""
    if isinstance(obj, pd.Series):
        obj.iloc[:] = list(new)
    else:
        obj[:] = list(new)


def _ln_fraction(q):
    """ln of a positive Fraction to LN_DIGITS significant digits, as an exact Fraction (decimal: correctly rounded)"""
    getcontext().prec = LN_DIGITS
    d = Decimal(q.numerator) / Decimal(q.denominator)
    return Fraction(d.ln())


# ------------------------------------------------------------------ subsample
def _sub_call(counts, n, seed, kind, ntype='int'):
    from pyrepseq.stats import subsample
    arg = _container(counts, kind)
    np.random.seed(seed)
    return call_impl(subsample, arg, _typed(n, ntype))


SUB_MODEL_MAX = 1200        # the model under a recovered draw is quadratic in the total: run up to this total / 400 categories


def _sub_output_pairs(res):
    """(pairs, problem): the returned (unique, counts) as a list of int pairs"""
    try:
        u, c = res
        u, c = list(np.asarray(u).tolist()), list(np.asarray(c).tolist())
    except Exception as e:
        return None, 'result is not a pair of arrays (%s)' % type(e).__name__
    if len(u) != len(c):
        return None, 'index and count arrays differ in length'
    pairs = []
    for a, b in zip(u, c):
        ia, ib = _as_int(a), _as_int(b)
        if ia is None or ib is None or ia < 0 or ib < 0:
            return None, 'non-integer or negative entry (%r, %r)' % (a, b)
        pairs.append((ia, ib))
    return pairs, None


def check_subsample(ctx, cases, tag, results=None, reps=None):
    """cases: list of (counts, n, seed, container kind[, type of n]). All decided in two oracle batches.
    results / reps: implementation answers already obtained (call sequences on one object) and their replays."""
    cases = [tuple(c) + ('int',) * (5 - len(c)) for c in cases]
    impl = results if results is not None else [_sub_call(*c) for c in cases]
    req1, slots = [], []

    def replay_of(k):
        counts, n, seed, kind, ntype = cases[k]
        if reps is not None:
            return dict(reps[k])
        return dict(func='subsample', counts=list(counts), n=n, numpy_seed=seed, container=kind, n_type=ntype)

    for k, ((counts, n, seed, kind, ntype), r) in enumerate(zip(cases, impl)):
        total = sum(counts)
        ctx.count('subsample:%s' % ('n>total' if n > total else 'n=0' if n == 0 else 'n=total' if n == total else '0<n<total'))
        ctx.count('subsample:container=%s' % kind)
        if ntype != 'int':
            ctx.count('subsample:n as %s' % ntype)
        if len(counts) > 255 or total > 2 ** 15 or (len(counts) and max(counts) > 255):
            ctx.count('subsample:size %s' % ('>255 categories' if len(counts) > 255 else 'a count > 255 / total > 2**15'))
        rep = replay_of(k)
        if n > total:
            ctx.case(nontrivial_key=('sub-refuse', tuple(counts), n))
            if r[0] != 'exc':
                ctx.violation('property', 'subsample(%s, %d) with n larger than the total %d did not refuse: returned %s'
                              % (_brief(list(counts)), n, total, _brief(r[1])), dict(rep, impl=_brief(r[1])), site='stats.subsample')
            continue
        if r[0] == 'exc':
            ctx.case()
            ctx.violation('property', 'subsample(%s as %s, %s(%d)) raised %s although 0 <= n <= total = %d'
                          % (_brief(list(counts)), kind, ntype, n, r[1], total), dict(rep, impl=str(r)), site='stats.subsample')
            continue
        pairs, problem = _sub_output_pairs(r[1])
        if pairs is None:
            ctx.case()
            ctx.violation('property', 'subsample(%s, %d): %s' % (_brief(list(counts)), n, problem), dict(rep, impl=_brief(r[1])),
                          site='stats.subsample')
            continue
        small = total <= SUB_MODEL_MAX and len(counts) <= 400
        doc_draw = None
        if small:
            np.random.seed(seed)
            try:
                doc_draw = [int(t) for t in np.random.choice(total, size=n, replace=False)] if total > 0 else []
            except Exception:
                doc_draw = None
        slots.append((k, pairs, doc_draw, len(req1), small))
        # (the recovered draw of a large case is not asked for: a list of n unary numbers up to the total)
        req1 += [('api_c17_subsample_ok', [list(counts), n, pairs]), ('api_c17_canon_draw', [list(counts), pairs] if small else [[], []])]
        if doc_draw is not None:
            req1.append(('api_c17_subsample', [list(counts), doc_draw]))
    out1 = ctx.oracle.run_parallel(req1)
    req2, slots2 = [], []
    for k, pairs, doc_draw, pos, small in slots:
        counts, n, seed, kind, ntype = cases[k]
        rep = dict(replay_of(k), impl=pairs if len(pairs) < 60 else _brief(pairs))
        ok, canon = out1[pos], out1[pos + 1]
        nontriv = 0 < n < sum(counts) and len([c for c in counts if c > 0]) >= 2
        ctx.case(sample=dict(rep, spec_ok=ok) if nontriv and k % 97 == 0 and len(ctx.samples) < 2 else None,
                 nontrivial_key=('sub', tuple(counts), n, tuple(pairs)) if nontriv else None)
        if isinstance(ok, Exception) or ok is not True:
            ctx.violation('property', 'subsample(%s as %s, %d) returned indices/counts %s: not (ascending distinct categories, '
                          'positive counts summing to n, each at most the original count)' % (_brief(list(counts)), kind, n, _brief(pairs)),
                          rep, site='stats.subsample')
            continue
        if doc_draw is not None:
            m = out1[pos + 2]
            ctx.count('subsample:documented_draw_%s' % ('reproduces_output' if m == pairs else 'differs(auxiliary)'))
        if k % 7 == 0 and len(ctx.vm_cases) < 25 and sum(counts) < 200:
            ctx.add_vm('api_c17_subsample_ok', [list(counts), n, pairs], ok)
        if not small:
            ctx.count('subsample:specification only (model under the recovered draw not run: large)')
            continue
        slots2.append((k, pairs, canon, len(req2)))
        req2 += [('api_c17_valid_draw', [sum(counts), n, canon]), ('api_c17_subsample', [list(counts), canon])]
    out2 = ctx.oracle.run_parallel(req2)
    for k, pairs, canon, pos in slots2:
        counts, n, seed, kind, ntype = cases[k]
        valid, model = out2[pos], out2[pos + 1]
        if valid is not True or model != pairs:
            ctx.violation('correspondence', 'subsample(%s, %d) = %s passes the specification but the model does not reproduce it '
                          'from the recovered draw %s (valid=%s, model=%s)' % (list(counts), n, pairs, canon, valid, model),
                          dict(replay_of(k), impl=pairs), site='stats.subsample')
        elif k % 11 == 0 and len(ctx.vm_cases) < 40 and sum(counts) < 200:
            ctx.add_vm('api_c17_subsample', [list(counts), canon], model)


def check_subsample_sequences(ctx, seqs):
    """seqs: list of (container kind, [(counts, n, numpy seed), ...]): ONE object built from the first count vector receives all
    the calls in order; a step whose counts differ from the step before means the caller overwrote the object in place.
    Every answer is judged against what the object held when the call was made; a call that alters the caller's vector is
    reported as a difference from the (pure) model."""
    from pyrepseq.stats import subsample
    cases, results, reps = [], [], []
    for kind, steps in seqs:
        steps = [(list(c), n, sd) for c, n, sd in steps]
        rep = dict(func='subsample_sequence', container=kind, steps=[[c, n, sd] for c, n, sd in steps])
        obj = _container(steps[0][0], kind)
        held = list(steps[0][0])
        for j, (counts, n, seed) in enumerate(steps):
            if j > 0 and counts != steps[j - 1][0]:
                _refill(obj, counts)
                held = list(counts)
                ctx.count('subsample:sequence:call after the object was refilled in place')
            elif j > 0:
                ctx.count('subsample:sequence:repeated call on the same object')
            before = _content(obj)
            now = [int(x) for x in (obj.tolist() if hasattr(obj, 'tolist') else obj)]
            np.random.seed(seed)
            r = call_impl(subsample, obj, n)
            cases.append((tuple(now), n, seed, kind))
            results.append(r)
            reps.append(dict(rep, step=j, held_before_call=now))
            if _content(obj) != before:
                ctx.violation('correspondence', 'subsample altered the caller\'s %s %s (call %d of the sequence): now %s - the model is a '
                              'pure function of (counts, draw)' % (kind, held, j + 1, _brief(_content(obj))),
                              dict(rep, step=j), site='stats.subsample')
    check_subsample(ctx, cases, 'sequence', results=results, reps=reps)


def check_huge(ctx):
    """sizes beyond what the extracted model handles in reasonable time (unary numbers, quadratic list functions): the
    SPECIFICATION itself is evaluated in Python - subsample: ascending distinct categories in range, positive counts, sum n, each
    at most the original count; downsample: exactly maxseqs elements forming a sub-multiset / subset of rows."""
    from collections import Counter
    from pyrepseq.stats import subsample
    from pyrepseq.distance import downsample
    rng = ctx.rng
    sub = [([1] * 66000, 300, 'list'), ([rng.choice([0, 1, 2]) for _ in range(70000)], None, 'ndarray'),
           ([3, 10 ** 6, 0, 2 * 10 ** 5], 5000, 'list'), ([2 ** 16 + 1, 2 ** 15], 2 ** 16 + 2 ** 15, 'ndarray:int32')]
    if not ctx.quick:
        sub += [([rng.randint(0, 300) for _ in range(3000)], None, 'series:shifted'), ([1] * 140000, 139999, 'ndarray:uint8')]
    for counts, n, kind in sub:
        total = sum(counts)
        n = total // 2 if n is None else n
        for nn in (n, total + 1):
            seed = _seed(ctx)
            r = _sub_call(counts, nn, seed, kind)
            rep = dict(func='subsample_huge', note='%d categories, total %d' % (len(counts), total), n=nn, numpy_seed=seed, container=kind)
            ctx.count('subsample:huge (specification evaluated in Python)')
            ctx.case(nontrivial_key=('sub-huge', len(counts), total, nn))
            if nn > total:
                if r[0] != 'exc':
                    ctx.violation('property', 'subsample(%d categories of total %d, n=%d) did not refuse' % (len(counts), total, nn), rep,
                                  site='stats.subsample')
                continue
            pairs, problem = _sub_output_pairs(r[1]) if r[0] == 'ok' else (None, 'raised %s' % r[1])
            if pairs is not None:
                idx = [a for a, _ in pairs]
                if not all(x < y for x, y in zip(idx, idx[1:])):
                    problem = 'categories not strictly ascending'
                elif idx and idx[-1] >= len(counts):
                    problem = 'category %d out of range' % idx[-1]
                elif any(b <= 0 for _, b in pairs):
                    problem = 'a non-positive count'
                elif sum(b for _, b in pairs) != nn:
                    problem = 'counts sum to %d, not n' % sum(b for _, b in pairs)
                else:
                    bad = [(a, b) for a, b in pairs if b > counts[a]]
                    problem = 'category %d kept %d of %d items' % (bad[0] + (counts[bad[0][0]],)) if bad else None
            if problem:
                ctx.violation('property', 'subsample(%d categories of total %d as %s, n=%d): %s' % (len(counts), total, kind, nn, problem),
                              dict(rep, impl=_brief(pairs)), site='stats.subsample')
    # closed forms on large samples: 1 + n / sum ln(c / d) with 30-digit decimal logarithms, one per distinct value
    from pyrepseq.stats import powerlaw_mle_alpha
    for n in ([1000, 20000] if ctx.quick else [1000, 20000, 10 ** 5, 10 ** 6]):
        c = [min(v, 10 ** 6) for v in _discrete_powerlaw(rng, n, rng.uniform(1.8, 3.0), 1)] + [0] * 7
        rng.shuffle(c)
        for m in METHODS:
            cmin = rng.choice([1, 2, 3])
            kind = rng.choice(['ndarray', 'series:permuted', 'list', 'ndarray:int32'])
            d = Fraction(cmin) - (Fraction(1, 2) if m == 'continuitycorrection' else 0)
            mult = Counter(x for x in c if x >= cmin)
            doc = 1 + Fraction(sum(mult.values())) / sum(k * _ln_fraction(Fraction(x) / d) for x, k in mult.items() if Fraction(x) != d)
            r = call_impl(powerlaw_mle_alpha, _container(c, kind), cmin, m)
            ctx.count('mle:huge (documented closed form evaluated in Python)')
            ctx.case(nontrivial_key=('mle-huge', n, m, cmin))
            if r[0] != 'ok' or not close(float(r[1]), doc):
                ctx.violation('property', 'powerlaw_mle_alpha(%d counts as %s, %s, %r) = %s but the documented closed form gives %.12g'
                              % (len(c), kind, cmin, m, r[1], float(doc)), dict(func='mle_huge', n=n, cmin=cmin, method=m, container=kind),
                              site='stats.powerlaw_mle_alpha')
    pool = [''.join(rng.choice(AA) for _ in range(rng.randint(8, 18))) for _ in range(20000)]
    for N, kind in [(2 ** 15 + 1, 'list'), (70000, 'ndarray'), (70000, 'dataframe'), (40000, 'series')]:
        values = [rng.choice(pool) for _ in range(N)]
        obj, keys = _ds_build(values, kind, None)
        for m in (N - 1, N // 2, N, None):
            seed = _seed(ctx)
            np.random.seed(seed)
            r = call_impl(downsample, obj, m)
            rep = dict(func='downsample_huge', note='%d elements drawn from a pool of 20000' % N, container=kind, maxseqs=m, numpy_seed=seed)
            ctx.count('downsample:huge (specification evaluated in Python)')
            ctx.case(nontrivial_key=('ds-huge', N, kind, m))
            if r[0] != 'ok':
                ctx.violation('property', 'downsample(%s of %d elements, maxseqs=%s) raised %s' % (kind, N, m, r[1]), rep, site='distance.downsample')
                continue
            okeys = _ds_keys(r[1], kind)
            inp = [k if _is_table(kind) else str(k) for k in keys]
            if m is None or N <= m:
                good = type(r[1]) is type(obj) and okeys == inp
                what = 'is not the input unchanged'
            else:
                good = len(okeys) == m and not (Counter(okeys) - Counter(inp))
                what = 'is not exactly maxseqs elements forming a sub-multiset of the input (%d returned)' % len(okeys)
            if not good:
                ctx.violation('property', 'downsample(%s of %d elements, maxseqs=%s) %s' % (kind, N, m, what), rep, site='distance.downsample')


def _brief(v):
    s = repr(v)
    return s if len(s) < 300 else s[:300] + '...'


# ------------------------------------------------------------------ downsample
def _is_table(kind):
    return kind.startswith('dataframe')


def _cell(x):
    """one table cell / label as a comparable key: missing values (None, NaN, pd.NA) are one token"""
    if x is None or x is pd.NA or (isinstance(x, float) and x != x):
        return '<NA>'
    if isinstance(x, tuple):
        return tuple(_cell(y) for y in x)
    return x


def _rows(df):
    return [(_cell(lab),) + tuple(_cell(c) for c in row) for lab, row in zip(df.index.tolist(), df.itertuples(index=False, name=None))]


def _ds_build(values, kind, labels=None):
    """the caller's collection; returns (object, list of element keys in order). kind = base[:variant]:
    list, tuple, ndarray[:object], series[:str|string|category] (default: object dtype), index (pd.Index),
    dataframe[:1col|nan|dupcols|multiindex|wide]"""
    base, _, var = kind.partition(':')
    if base == 'list':
        return list(values), list(values)
    if base == 'tuple':
        return tuple(values), list(values)
    if base == 'ndarray':
        return np.array(values, dtype=object if var == 'object' else str), list(values)
    if base == 'series':
        if var == 'str':
            return pd.Series(list(values), index=labels), list(values)            # pandas' own inference (str dtype in pandas 3)
        return pd.Series(list(values), index=labels, dtype={'': object, 'string': 'string', 'category': 'category'}[var]), list(values)
    if base == 'index':
        return pd.Index(list(values), dtype=object), list(values)
    if base == 'dataframe':
        N = len(values)
        cols = {'CDR3B': list(values), 'TRBV': ['TRBV%d' % (len(str(v)) % 3) for v in values],
                'clonal_counts': [len(str(v)) + 1 for v in values]}
        if var == '1col':
            cols = {'CDR3B': list(values)}
        elif var == 'nan':          # missing cells: an unresolved V gene, a count that is NaN
            cols['TRBV'] = [None if i % 2 else t for i, t in enumerate(cols['TRBV'])]
            cols['clonal_counts'] = [float('nan') if i % 3 == 0 else float(c) for i, c in enumerate(cols['clonal_counts'])]
        elif var == 'wide':
            for j in range(9):
                cols['x%d' % j] = [(i * (j + 2)) % 5 for i in range(N)]
        index = labels
        if var == 'multiindex':
            labs = labels if labels is not None else list(range(N))
            index = pd.MultiIndex.from_tuples([(lab, i % 2) for i, lab in enumerate(labs)], names=['sample', 'rep']) if N else None
        df = pd.DataFrame(cols, index=index)
        if var == 'dupcols':        # two value columns with one name
            df.columns = ['CDR3B', 'v', 'v']
        return df, _rows(df)
    raise ValueError(kind)


def _ds_keys(obj, kind):
    """element keys of a result"""
    if isinstance(obj, pd.DataFrame):
        return _rows(obj)
    if isinstance(obj, pd.Series):
        return [str(x) for x in obj.tolist()]
    return [str(x) for x in (obj.tolist() if isinstance(obj, (np.ndarray, pd.Index)) else list(obj))]


DS_ORACLE_MAX = 2 * 10 ** 6      # len(input) * len(answer) up to which the extracted model decides


def check_downsample(ctx, cases, shared=None):
    """cases: list of (values, kind, labels, maxseqs, seed[, type of maxseqs]).
    shared: {case number: (function returning the caller's (object, keys) at that moment, replay)} for call sequences on one object."""
    from pyrepseq.distance import downsample
    cases = [tuple(c) + ('int',) * (6 - len(c)) for c in cases]
    shared = shared or {}
    req, slots = [], []

    def replay_of(k):
        values, kind, labels, maxseqs, seed, mtype = cases[k]
        if k in shared:
            return dict(shared[k][1])
        return dict(func='downsample', values=list(values), container=kind, labels=labels, maxseqs=maxseqs, numpy_seed=seed, maxseqs_type=mtype)

    for k, (values, kind, labels, maxseqs, seed, mtype) in enumerate(cases):
        obj, keys = shared[k][0]() if k in shared else _ds_build(values, kind, labels)
        table = _is_table(kind)
        before = _ds_keys(obj, kind) if not table else keys
        np.random.seed(seed)
        r = call_impl(downsample, obj, _typed(maxseqs, mtype) if maxseqs is not None else None)
        N = len(keys)
        rep = replay_of(k)
        regime = 'None' if maxseqs is None else ('unchanged' if N <= maxseqs else 'reduced')
        ctx.count('downsample:%s' % regime)
        ctx.count('downsample:container=%s' % kind)
        if mtype != 'int' and maxseqs is not None:
            ctx.count('downsample:maxseqs as %s' % mtype)
        if N >= 1000:
            ctx.count('downsample:size >= 1000')
        if any(len(str(v)) > 127 for v in values):
            ctx.count('downsample:a sequence longer than 127')
        if any(not isinstance(v, str) for v in values):
            ctx.count('downsample:a missing element (None / NaN)')
        nontriv = regime == 'reduced' and 0 < maxseqs and len(set(keys)) >= 2
        if r[0] == 'exc':
            ctx.case()
            ctx.violation('property', 'downsample(%s of %d elements, maxseqs=%s) raised %s' % (kind, N, maxseqs, r[1]),
                          dict(rep, impl=str(r)), site='distance.downsample')
            continue
        out = r[1]
        after = _ds_keys(obj, kind)
        if [str(x) for x in after] != [str(x) for x in before]:
            ctx.violation('property', 'downsample altered the caller\'s %s' % kind, rep, site='distance.downsample')
        try:
            okeys = _ds_keys(out, kind)
        except Exception as e:
            ctx.case()
            ctx.violation('property', 'downsample(%s, maxseqs=%s) returned %s' % (kind, maxseqs, _brief(out)), rep,
                          site='distance.downsample')
            continue
        if regime != 'reduced':
            # unchanged input must come back unchanged: same container type, same elements in the same order
            ctx.case(nontrivial_key=('ds-id', kind, tuple(map(str, keys)), maxseqs) if N > 0 else None)
            if type(out) is not type(obj):
                ctx.violation('property', 'downsample(%s of %d elements, maxseqs=%s) returned a %s, not the input unchanged'
                              % (kind, N, maxseqs, type(out).__name__), dict(rep, impl=_brief(out)), site='distance.downsample')
                continue
            if table and (list(out.columns) != list(obj.columns)):
                ctx.violation('property', 'downsample changed the columns of an unchanged table', rep, site='distance.downsample')
                continue
        elif table:
            if not isinstance(out, pd.DataFrame) or list(out.columns) != list(obj.columns):
                ctx.case()
                ctx.violation('property', 'downsample(table, maxseqs=%s) returned %s: not a table with the same columns'
                              % (maxseqs, _brief(out)), rep, site='distance.downsample')
                continue
        code = {}
        for x in keys:
            code.setdefault(x if table else str(x), len(code) + 1)
        xs = [code[x if table else str(x)] for x in keys]
        fresh = len(code) + 1
        oc = []
        for x in okeys:
            if x in code:
                oc.append(code[x])
            else:
                oc.append(fresh)      # an element that is not in the input at all
        if len(xs) * max(len(oc), 1) > DS_ORACLE_MAX:
            # too large for the extracted list functions (quadratic): the specification itself, evaluated here
            from collections import Counter
            ctx.count('downsample:large answer (specification evaluated in Python)')
            ctx.case(nontrivial_key=('ds-large', kind, N, maxseqs) if nontriv else None)
            good = (oc == xs) if regime != 'reduced' else (len(oc) == maxseqs and not (Counter(oc) - Counter(xs)))
            if not good:
                what = ('is not the input unchanged' if regime != 'reduced' else
                        'is not exactly maxseqs elements forming a sub-multiset of the input')
                ctx.violation('property', 'downsample(%s of %d elements, maxseqs=%s(%s)) returned %d elements %s, which %s'
                              % (kind, N, mtype, maxseqs, len(okeys), _brief([str(x) for x in okeys[:8]]), what), rep, site='distance.downsample')
            continue
        slots.append((k, xs, oc, regime, nontriv, okeys, len(req)))
        req += [('api_c17_downsample_ok', [xs, maxseqs, oc]), ('api_c17_recover_draw', [xs, oc])]
    out1 = ctx.oracle.run_parallel(req)
    req2, slots2 = [], []
    for k, xs, oc, regime, nontriv, okeys, pos in slots:
        values, kind, labels, maxseqs, seed, mtype = cases[k]
        rep = dict(replay_of(k), impl=[str(x) for x in okeys[:50]])
        ok, draw = out1[pos], out1[pos + 1]
        if regime == 'reduced':
            ctx.case(sample=dict(rep, spec_ok=ok) if nontriv and k % 53 == 0 and len(ctx.samples) < 3 and len(values) < 40 else None,
                     nontrivial_key=('ds', kind, tuple(xs), maxseqs, tuple(oc)) if nontriv else None)
        if ok is not True:
            what = ('is not the input unchanged' if regime != 'reduced' else
                    'is not exactly maxseqs elements forming a sub-multiset%s of the input' % (' (subset of rows)' if _is_table(kind) else ''))
            ctx.violation('property', 'downsample(%s %s, maxseqs=%s) returned %s, which %s'
                          % (kind, _brief([str(v) for v in values]), maxseqs, _brief([str(x) for x in okeys]), what), rep, site='distance.downsample')
            continue
        if k % 5 == 0 and len(ctx.vm_cases) < 50 and len(xs) < 100:
            ctx.add_vm('api_c17_downsample_ok', [xs, maxseqs, oc], ok)
        if regime == 'reduced':
            if draw is None:
                ctx.violation('correspondence', 'no draw reproduces the accepted output %s' % _brief(oc), rep, site='distance.downsample')
                continue
            slots2.append((k, xs, oc, draw, len(req2)))
            req2 += [('api_c17_valid_draw', [len(xs), maxseqs, draw]), ('api_c17_downsample', [xs, maxseqs, draw])]
        else:
            slots2.append((k, xs, oc, [], len(req2)))
            req2 += [('api_c17_valid_draw', [0, 0, []]), ('api_c17_downsample', [xs, maxseqs, []])]
    out2 = ctx.oracle.run_parallel(req2)
    for k, xs, oc, draw, pos in slots2:
        values, kind, labels, maxseqs, seed, mtype = cases[k]
        valid, model = out2[pos], out2[pos + 1]
        if valid is not True or model != oc:
            ctx.violation('correspondence', 'downsample model under the recovered draw %s gives %s, implementation %s'
                          % (_brief(draw), _brief(model), _brief(oc)), replay_of(k), site='distance.downsample')


def check_downsample_sequences(ctx, seqs):
    """seqs: list of (kind, labels, [(values, maxseqs, numpy seed), ...]): ONE object receives all the calls; a step whose values
    differ from the step before means the caller overwrote the object in place (list / ndarray / Series / table column)."""
    cases, shared = [], {}
    for kind, labels, steps in seqs:
        steps = [(list(v), m, sd) for v, m, sd in steps]
        rep = dict(func='downsample_sequence', container=kind, labels=labels, steps=[[v, m, sd] for v, m, sd in steps])
        box = {}

        def provider(j, steps=steps, kind=kind, labels=labels, box=box):
            values = steps[j][0]
            if j == 0:
                box['obj'], box['keys'] = _ds_build(values, kind, labels)
            elif values != steps[j - 1][0]:
                ctx.count('downsample:sequence:call after the object was refilled in place')
                if _is_table(kind):
                    fresh, box['keys'] = _ds_build(values, kind, labels)
                    for c in range(fresh.shape[1]):
                        box['obj'].iloc[:, c] = fresh.iloc[:, c].tolist()
                else:
                    _refill(box['obj'], values)
                    box['keys'] = list(box['obj'].tolist() if hasattr(box['obj'], 'tolist') else box['obj'])   # what it holds now
            else:
                ctx.count('downsample:sequence:repeated call on the same object')
            return box['obj'], box['keys']

        for j, (values, m, seed) in enumerate(steps):
            shared[len(cases)] = ((lambda j=j, provider=provider: provider(j)), dict(rep, step=j))
            cases.append((values, kind, labels, m, seed))
    check_downsample(ctx, cases, shared=shared)


# ------------------------------------------------------------------ uniformity (a statistical TEST)
def uniformity_tests(ctx):
    from scipy.stats import chi2
    from pyrepseq.stats import subsample
    from pyrepseq.distance import downsample
    T = 3000 if ctx.quick else 20000
    results = []

    def pearson(obs, exp, scale, df, name, rep, T=T):
        stat = scale * sum((o - e) ** 2 / e for o, e in zip(obs, exp) if e > 0)
        thr = float(chi2.isf(FALSE_ALARM, df))
        results.append(dict(test=name, draws=T, statistic=round(stat, 3), threshold=round(thr, 3), df=df))
        ctx.case(nontrivial_key=('chi2', name))
        if stat > thr:
            ctx.violation('property', 'TEST (chi-square, false-alarm probability %g): %s - items are not equally likely to be kept: '
                          'statistic %.1f > %.1f (df %d) over %d draws; observed %s expected %s'
                          % (FALSE_ALARM, name, stat, thr, df, T, obs, [round(e, 1) for e in exp]),
                          dict(rep, draws=T, observed=obs, expected=[float(e) for e in exp], statistic=stat, threshold=thr),
                          site='uniformity')

    # expected inclusion frequency comes from the model: #subsets containing an item / #subsets (C17_uniform_item: = n/N)
    K, n = 8, 3
    incl, allsub = ctx.oracle.run([('api_c17_inclusion', [K, n])])[0]
    p = Fraction(incl, allsub)
    # (1) subsample, one item per category: the per-item inclusion is observable
    seed0 = _seed(ctx)
    np.random.seed(seed0)
    obs = [0] * K
    for _ in range(T):
        u, c = subsample([1] * K, n)
        for i in u.tolist():
            obs[int(i)] += 1
    pearson(obs, [T * float(p)] * K, (K - 1) / (K - n), K - 1, 'subsample([1]*8, 3): per-item inclusion',
            dict(func='uniform_subsample_items', counts=[1] * K, n=n, numpy_seed=seed0))
    # (2) subsample, unequal categories: category totals follow the multivariate hypergeometric law
    counts, n2 = [3, 1, 4, 2], 4
    N = sum(counts)
    seed1 = _seed(ctx)
    np.random.seed(seed1)
    obs = [0] * len(counts)
    for _ in range(T):
        u, c = subsample(counts, n2)
        for i, x in zip(u.tolist(), c.tolist()):
            obs[int(i)] += int(x)
    pearson(obs, [T * n2 * ci / N for ci in counts], (N - 1) / (N - n2), len(counts) - 1,
            'subsample([3,1,4,2], 4): category totals', dict(func='uniform_subsample_cats', counts=counts, n=n2, numpy_seed=seed1))
    # (3) downsample of distinct sequences (list) and of table rows: per-position inclusion
    seqs = ['CAS%sF' % ('A' * i) for i in range(K)]
    for kind in ('list', 'dataframe'):
        obj, keys = _ds_build(seqs, kind, list(range(K)))
        seed2 = _seed(ctx)
        np.random.seed(seed2)
        obs = [0] * K
        TT = T if kind == 'list' else max(T // 6, 500)
        for _ in range(TT):
            out = downsample(obj, n)
            got = out['CDR3B'].tolist() if kind == 'dataframe' else out.tolist()
            for s in got:
                obs[seqs.index(str(s))] += 1
        pearson(obs, [TT * float(p)] * K, (K - 1) / (K - n), K - 1, 'downsample(8 distinct %s elements, 3): per-position inclusion' % kind,
                dict(func='uniform_downsample', container=kind, n=n, numpy_seed=seed2), T=TT)
    # (4) the same for the other containers of downsample (each handed to numpy.random.choice as is)
    for kind in ('ndarray', 'series', 'tuple', 'index'):
        obj, keys = _ds_build(seqs, kind, list(range(K))[::-1] if kind == 'series' else None)
        seed2 = _seed(ctx)
        np.random.seed(seed2)
        obs = [0] * K
        TT = max(T // 3, 500)
        for _ in range(TT):
            for s in downsample(obj, n).tolist():
                obs[seqs.index(str(s))] += 1
        pearson(obs, [TT * float(p)] * K, (K - 1) / (K - n), K - 1, 'downsample(8 distinct %s elements, 3): per-position inclusion' % kind,
                dict(func='uniform_downsample', container=kind, n=n, numpy_seed=seed2), T=TT)
    # (5) larger sizes (a draw that is uniform only below some size would pass (1)-(4)); the expected inclusion frequency n/N is
    #     C17_uniform_item, proved for every N and n (the enumeration behind api_c17_inclusion is for small N only)
    K2, n3 = 300, 100
    TT = T // 2
    seed3 = _seed(ctx)
    np.random.seed(seed3)
    obs = [0] * K2
    for _ in range(TT):
        u, c = subsample([1] * K2, n3)
        for i in u.tolist():
            obs[int(i)] += 1
    pearson(obs, [TT * n3 / K2] * K2, (K2 - 1) / (K2 - n3), K2 - 1, 'subsample([1]*300, 100): per-item inclusion',
            dict(func='uniform_subsample_items', counts='[1]*300', n=n3, numpy_seed=seed3), T=TT)
    counts3, n4 = [400, 100, 300, 200], 250
    N3 = sum(counts3)
    seed4 = _seed(ctx)
    np.random.seed(seed4)
    obs = [0] * len(counts3)
    for _ in range(TT):
        u, c = subsample(np.array(counts3), n4)
        for i, x in zip(u.tolist(), c.tolist()):
            obs[int(i)] += int(x)
    pearson(obs, [TT * n4 * ci / N3 for ci in counts3], (N3 - 1) / (N3 - n4), len(counts3) - 1,
            'subsample([400,100,300,200], 250): category totals', dict(func='uniform_subsample_cats', counts=counts3, n=n4, numpy_seed=seed4), T=TT)
    N5, n5 = 1500, 500
    big = ['CAS%sF' % ''.join(AA[(i // 20 ** j) % 20] for j in range(3)) for i in range(N5)]
    where = {x: i for i, x in enumerate(big)}
    TT = max(T // 10, 200)
    seed5 = _seed(ctx)
    np.random.seed(seed5)
    obs = [0] * N5
    arr = np.array(big)
    for _ in range(TT):
        for x in downsample(arr, n5).tolist():
            obs[where[x]] += 1
    pearson(obs, [TT * n5 / N5] * N5, (N5 - 1) / (N5 - n5), N5 - 1, 'downsample(1500 distinct ndarray elements, 500): per-position inclusion',
            dict(func='uniform_downsample', container='ndarray', n=n5, numpy_seed=seed5), T=TT)
    # (6) the functions share NumPy's global generator: draws of subsample interleaved with calls of the other three functions
    #     (a function that re-seeds or rewinds the shared generator makes the neighbouring draws repeat)
    from pyrepseq.stats import powerlaw_sample, powerlaw_mle_alpha
    seed6 = _seed(ctx)
    np.random.seed(seed6)
    obs = [0] * K
    cc = [1, 1, 2, 3, 7, 1, 4]
    for t in range(T):
        powerlaw_sample(2, 1, 2.5)
        u, c = subsample([1] * K, n)
        for i in u.tolist():
            obs[int(i)] += 1
        downsample(seqs, 2)
        powerlaw_mle_alpha(cc, 1, 'simple')
        if t % 50 == 0:
            powerlaw_mle_alpha(cc, 1, 'exact')
    pearson(obs, [T * float(p)] * K, (K - 1) / (K - n), K - 1, 'subsample([1]*8, 3) interleaved with powerlaw_sample / downsample / '
            'powerlaw_mle_alpha: per-item inclusion', dict(func='uniform_interleaved', counts=[1] * K, n=n, numpy_seed=seed6))
    ctx.extra['uniformity_tests'] = results
    ctx.extra['uniformity_note'] = ('statistical TEST, not a theorem: chi-square with false-alarm probability %g per statistic; '
                                    'expected frequencies from the model (api_c17_inclusion = n/N by C17_uniform_item)' % FALSE_ALARM)


# ------------------------------------------------------------------ powerlaw_sample
PL_DOC = dict(size=1, xmin=1.0, alpha=2.0)      # the documented signature powerlaw_sample(size=1, xmin=1.0, alpha=2.0)
PL_NAMES = ['size', 'xmin', 'alpha']


def _pl_args(size, xmin, alpha, form, types):
    """form 'pos<k>[+kw:name,name]': the first k parameters positionally, the named ones by keyword, the rest left to their
    documented defaults. Returns (args, kwargs, effective parameters)."""
    vals = dict(size=size, xmin=xmin, alpha=alpha)
    if types:
        vals = {nm: _typed(vals[nm], t) for nm, t in zip(PL_NAMES, types)}
    pos, _, kw = form.partition('+')
    npos = int(pos[3:])
    args = [vals[nm] for nm in PL_NAMES[:npos]]
    kwargs = {nm: vals[nm] for nm in kw[3:].split(',') if nm} if kw else {}
    eff = dict(PL_DOC)
    eff.update({nm: vals[nm] for nm in PL_NAMES[:npos]})
    eff.update(kwargs)
    return args, kwargs, eff


def check_powerlaw_sample(ctx, cases):
    """cases: (size, xmin, alpha, seed[, call form, scalar types])"""
    from pyrepseq.stats import powerlaw_sample
    cases = [tuple(c) + ('pos3', None)[len(c) - 4:] for c in cases]
    req, slots = [], []
    effs = []
    for k, (size, xmin, alpha, seed, form, types) in enumerate(cases):
        args, kwargs, eff = _pl_args(size, xmin, alpha, form, types)
        effs.append(eff)
        size, xmin, alpha = eff['size'], eff['xmin'], eff['alpha']       # what the call requests (documented defaults where omitted)
        np.random.seed(seed)
        r = call_impl(powerlaw_sample, *args, **kwargs)
        rep = dict(func='powerlaw_sample', size=cases[k][0], xmin=cases[k][1], alpha=cases[k][2], numpy_seed=seed, form=form,
                   types=list(types) if types else None)
        ctx.count('powerlaw_sample:size=%s' % ('0' if int(size) == 0 else '1' if int(size) == 1 else '<=100' if size <= 100 else '<=1e4' if size <= 10 ** 4 else '>1e4'))
        ctx.count('powerlaw_sample:alpha%s' % ('<1.5' if alpha < 1.5 else '<3' if alpha < 3 else '<6' if alpha < 6 else '>=6'))
        if form != 'pos3':
            ctx.count('powerlaw_sample:call form %s' % form)
        if types:
            ctx.count('powerlaw_sample:scalar types %s' % '/'.join(types))
        if xmin > 50:
            ctx.count('powerlaw_sample:xmin %s' % ('<=1e6' if xmin <= 10 ** 6 else '>1e6'))
        call = 'powerlaw_sample(%s)' % ', '.join([repr(a) for a in args] + ['%s=%r' % kv for kv in kwargs.items()])
        if r[0] == 'exc':
            ctx.case()
            ctx.violation('property', '%s raised %s' % (call, r[1]), rep, site='stats.powerlaw_sample')
            continue
        try:
            vals = np.asarray(r[1], dtype=float).ravel().tolist()
        except Exception:
            ctx.case()
            ctx.violation('property', '%s returned %s' % (call, _brief(r[1])), rep, site='stats.powerlaw_sample')
            continue
        if float(alpha) < 1.05:
            # exponents this close to 1: (1 - r) ** (-1 / (alpha - 1)) leaves the float64 range for the largest draws (inf), a corner the statement
            # does not settle; what it does settle is HOW MANY values come back, and that the finite ones are integers >= xmin (seeded change
            # C17-r8m3: the overflowing draws filtered out, so fewer than `size` values)
            ctx.case(nontrivial_key=('pl-overflow', int(size), float(alpha), seed))
            ctx.count('powerlaw_sample:alpha<1.05 (overflow corner: count and finite values only)')
            fin = [v for v in vals if math.isfinite(v)]
            if len(vals) != int(size) or any(v < float(xmin) or v != math.floor(v) for v in fin) or any(v != v for v in vals):
                ctx.violation('property', '%s with numpy seed %d: %d values returned, %d requested; finite values below xmin or not integers: %s' %
                              (call, seed, len(vals), int(size), [v for v in fin if v < float(xmin) or v != math.floor(v)][:3]),
                              dict(rep, returned=len(vals)), site='stats.powerlaw_sample')
            continue
        if not all(math.isfinite(v) for v in vals):
            ctx.case()
            ctx.violation('property', '%s returned a non-finite value' % call, rep, site='stats.powerlaw_sample')
            continue
        fr = [Fraction(v) for v in vals]
        slots.append((k, vals, fr, len(req), call))
        req.append(('api_c17_powerlaw_ok', [int(size), Fraction(float(xmin)), fr]))
    outs = ctx.oracle.run_parallel(req)
    for k, vals, fr, pos, call in slots:
        seed, form, types = cases[k][3:]
        size, xmin, alpha = effs[k]['size'], effs[k]['xmin'], effs[k]['alpha']
        ok = outs[pos]
        rep = dict(func='powerlaw_sample', size=cases[k][0], xmin=cases[k][1], alpha=cases[k][2], numpy_seed=seed, form=form,
                   types=list(types) if types else None)
        nontriv = int(size) >= 1 and any(v > xmin for v in vals)
        ctx.case(sample=dict(rep, first_values=vals[:6], spec_ok=ok) if nontriv and k % 13 == 0 and len(ctx.samples) < 4 else None,
                 nontrivial_key=('pl', int(size), float(xmin), float(alpha), seed) if nontriv else None)
        if ok is not True:
            bad = [v for v in vals if v < xmin or v != math.floor(v)][:3]
            why = ('%d values returned, %d requested' % (len(vals), int(size)) if len(vals) != int(size)
                   else 'values %s are not integer-valued numbers >= xmin = %s' % (bad, xmin))
            ctx.violation('property', '%s with numpy seed %d: %s' % (call, seed, why),
                          dict(rep, bad_values=bad, returned=len(vals)), site='stats.powerlaw_sample')
        elif len(fr) <= 6 and len(ctx.vm_cases) < 58:
            ctx.add_vm('api_c17_powerlaw_ok', [int(size), Fraction(float(xmin)), fr], ok)


# ------------------------------------------------------------------ powerlaw_mle_alpha: closed forms
METHODS = {'simple': 0, 'continuitycorrection': 1}


MLE_DOC_CMIN = 1.0          # documented signature powerlaw_mle_alpha(c, cmin=1.0, method="exact", **kwargs)


def _isnan(x):
    return isinstance(x, float) and x != x


def _mle_call_args(cmin, method, form):
    """form: 'pos' (c, cmin, method), 'kw' (cmin=, method=), 'kw_swapped' (method=, cmin=), 'default_cmin' (cmin left to its documented
    default 1.0), 'np_cmin' (cmin as a NumPy scalar), 'stray_kwargs' (optimiser options given although a closed form is asked)"""
    if form == 'pos':
        return [cmin, method], {}
    if form == 'kw':
        return [], dict(cmin=cmin, method=method)
    if form == 'kw_swapped':
        return [], dict(method=method, cmin=cmin)
    if form == 'default_cmin':
        return [], dict(method=method)
    if form == 'np_cmin':
        return [np.float64(cmin) if isinstance(cmin, float) else np.int64(cmin), method], {}
    if form == 'stray_kwargs':
        return [cmin, method], dict(bounds=[2.0, 3.0], options=dict(xatol=1e-3))
    raise ValueError(form)


def check_mle_closed(ctx, cases, shared=None):
    """cases: (counts, cmin, method, container[, call form]). Counts may be floats; a NaN entry (an absent clonotype of a merged
    table) is not >= cmin and therefore outside the fitted counts.
    shared: {case number: (function returning the caller's object at that moment, replay)} for call sequences on one object."""
    from pyrepseq.stats import powerlaw_mle_alpha
    cases = [tuple(c) + ('pos',) * (5 - len(c)) for c in cases]
    shared = shared or {}
    eff_cmin = [MLE_DOC_CMIN if form == 'default_cmin' else cmin for c, cmin, m, kind, form in cases]
    req = [('api_c17_mle_lnargs', [METHODS[m], [Fraction(x) for x in c if not _isnan(x)], Fraction(ec)])
           for (c, cmin, m, kind, form), ec in zip(cases, eff_cmin)]
    args = ctx.oracle.run_parallel(req)
    lncache = {}
    req2 = []
    for (c, cmin, m, kind, form), ec, a in zip(cases, eff_cmin, args):
        tbl = []
        for q in sorted(set(a)):
            if q not in lncache:
                lncache[q] = _ln_fraction(q) if q > 0 else Fraction(0)
            tbl.append((q, lncache[q]))
        req2.append(('api_c17_mle', [METHODS[m], tbl, [Fraction(x) for x in c if not _isnan(x)], Fraction(ec)]))
    outs = ctx.oracle.run_parallel(req2)
    for k, ((c, cmin, m, kind, form), a, o) in enumerate(zip(cases, args, outs)):
        gen_defined, complete, gen, doc = o
        # the documented quotient exists iff the documented sum of logarithms is not 0 (table values are exact rationals)
        defined = sum((lncache[q] for q in a), Fraction(0)) != 0
        arg = shared[k][0]() if k in shared else _container(c, kind)
        before = _content(arg)
        pos, kw = _mle_call_args(cmin, m, form)
        r = call_impl(powerlaw_mle_alpha, arg, *pos, **kw)
        rep = dict(shared[k][1]) if k in shared else dict(func='powerlaw_mle_alpha', counts=list(c), cmin=cmin, method=m, container=kind, form=form)
        ctx.count('mle:%s' % m)
        ctx.count('mle:%s' % ('defined' if defined else 'degenerate(sum ln = 0)'))
        ctx.count('mle:container=%s' % kind)
        if form != 'pos':
            ctx.count('mle:call form %s' % form)
        if any(_isnan(x) for x in c):
            ctx.count('mle:counts_with_NaN')
        if any(isinstance(x, float) and x != math.floor(x) for x in c if not _isnan(x)):
            ctx.count('mle:non-integer values')
        if any(x > 10 ** 6 for x in c if not _isnan(x)):
            ctx.count('mle:a count > 1e6')
        nontriv = defined and len(set(a)) >= 2
        ctx.case(sample=dict(rep, impl=str(r), documented=float(doc)) if nontriv and k % 41 == 0 and len(ctx.samples) < 5 else None,
                 nontrivial_key=('mle', m, tuple(repr(x) for x in c), cmin, form) if nontriv else None)
        if len(ctx.violations) > 20:
            break
        if _content(arg) != before:
            ctx.violation('correspondence', 'powerlaw_mle_alpha(%s, %s, %r) altered the caller\'s %s: now %s - the model is a pure function'
                          % (_brief(list(c)), cmin, m, kind, _brief(_content(arg))), rep, site='stats.powerlaw_mle_alpha')
        if not defined:
            # every kept count equals cmin ('simple') or no count is >= cmin: the closed form has no value;
            # the implementation answers inf / nan there - a finite answer is reported as a model/implementation difference
            if r[0] == 'ok' and math.isfinite(float(r[1])) and len(a) > 0:
                ctx.violation('correspondence', 'powerlaw_mle_alpha(%s, %s, %s) = %s although the documented sum of logarithms is 0'
                              % (list(c), cmin, m, r[1]), rep, site='stats.powerlaw_mle_alpha')
            continue
        if r[0] != 'ok' or not close(float(r[1]), doc):
            formula = '1 + n/sum ln(c/cmin)' if m == 'simple' else '1 + n/sum ln(c/(cmin - 1/2))'
            ctx.violation('property', 'powerlaw_mle_alpha(%s as %s, %s) = %s but the documented closed form %s over the counts >= cmin = %s gives %.12g'
                          % (_brief(list(c)), kind, ', '.join([repr(x) for x in pos] + ['%s=%r' % kv for kv in kw.items()]), r[1], formula,
                             eff_cmin[k], float(doc)),
                          dict(rep, impl=str(r), expected=float(doc)), site='stats.powerlaw_mle_alpha')
            continue
        if not complete or not gen_defined or not close(float(r[1]), gen):
            ctx.violation('correspondence', 'the model generated from the source disagrees with the implementation on %s cmin=%s %s: '
                          '%.12g vs %s (ln arguments all on the documented table: %s)' % (_brief(list(c)), cmin, m, float(gen), r[1], complete),
                          rep, site='stats.powerlaw_mle_alpha')


def check_mle_sequences(ctx, seqs):
    """seqs: list of (container kind, [(counts, cmin, method or ('exact', bounds)), ...]): ONE object receives all the calls; a step
    whose counts differ from what the object holds means the caller overwrote it in place (a preallocated count buffer reused across
    samples). Closed-form steps run first, then the 'exact' steps (each judged on what the object holds at its call)."""
    closed, exact, sh_closed, sh_exact = [], [], {}, {}
    for kind, steps in seqs:
        steps = [(list(c), cmin, m) for c, cmin, m in steps]
        rep = dict(func='mle_sequence', container=kind, steps=[[c, cmin, m] for c, cmin, m in steps])
        box = {}

        def provider(j, steps=steps, kind=kind, box=box):
            if 'obj' not in box:
                box['obj'] = _container(steps[j][0], kind)
            elif _content(box['obj']) != _content(_container(steps[j][0], kind)):
                _refill(box['obj'], steps[j][0])
                ctx.count('mle:sequence:call after the object was refilled in place')
            else:
                ctx.count('mle:sequence:repeated call on the same object')
            return box['obj']

        for j, (c, cmin, m) in enumerate(steps):
            entry = ((lambda j=j, provider=provider: provider(j)), dict(rep, step=j))
            if isinstance(m, str):
                sh_closed[len(closed)] = entry
                closed.append((c, cmin, m, kind))
            else:
                sh_exact[len(exact)] = entry
                exact.append((c, cmin, tuple(m[1]) if m[1] is not None else None, dict(kind=kind)))
    check_mle_closed(ctx, closed, shared=sh_closed)
    check_mle_exact(ctx, exact, shared=sh_exact)


# ------------------------------------------------------------------ powerlaw_mle_alpha: 'exact'
def _hurwitz_decimal(s, q, M=24, terms=8):
    """Hurwitz zeta by Euler-Maclaurin in 40-digit decimals: an evaluation independent of SciPy (contract cross-check)"""
    getcontext().prec = 40
    s, q = Decimal(repr(s)), Decimal(repr(q))
    tot = sum((q + k) ** (-s) for k in range(M))
    a = q + M
    tot += a ** (1 - s) / (s - 1) + a ** (-s) / 2
    B = [Fraction(1, 6), Fraction(-1, 30), Fraction(1, 42), Fraction(-1, 30), Fraction(5, 66), Fraction(-691, 2730),
         Fraction(7, 6), Fraction(-3617, 510)]
    poch = s
    fact = Decimal(2)
    for j in range(1, terms + 1):
        b = Decimal(B[j - 1].numerator) / Decimal(B[j - 1].denominator)
        tot += b / fact * poch * a ** (-s - 2 * j + 1)
        poch *= (s + 2 * j - 1) * (s + 2 * j)
        fact *= (2 * j + 1) * (2 * j + 2)
    return tot


def _loglik(x, alphas, cmin):
    import scipy.special
    x = np.asarray(x, dtype=float)
    x = x[x >= cmin]
    return -len(x) * np.log(scipy.special.zeta(alphas, cmin)) - alphas * np.sum(np.log(x))


def _discrete_powerlaw(rng, n, alpha, cmin):
    """counts from an (approximately) discrete power law - the harness's own generator, not the function under test"""
    out = []
    for _ in range(n):
        u = rng.random()
        out.append(int(math.floor((cmin - 0.5) * (1 - u) ** (-1.0 / (alpha - 1.0)) + 0.5)))
    return [min(v, 10 ** 9) for v in out]


def _exact_call_args(cmin, bounds, opts):
    """opts: kind (container of the counts), form ('pos': c, cmin, 'exact'; 'kw': cmin=, method=; 'defaults': c alone - the documented
    defaults cmin=1.0, method='exact'; 'default_method': c, cmin; 'default_cmin': c, method='exact'), bounds_as (list / tuple / ndarray),
    extra (further keyword arguments handed through to scipy.optimize.minimize_scalar)"""
    form = opts.get('form', 'pos')
    pos, kw = {'pos': ([cmin, 'exact'], {}), 'kw': ([], dict(cmin=cmin, method='exact')), 'defaults': ([], {}),
               'default_method': ([cmin], {}), 'default_cmin': ([], dict(method='exact')),
               'np_cmin': ([np.float64(cmin) if isinstance(cmin, float) else np.int64(cmin), 'exact'], {})}[form]
    kw = dict(kw)
    if bounds is not None:
        b = opts.get('bounds_as', 'list')
        kw['bounds'] = list(bounds) if b == 'list' else tuple(bounds) if b == 'tuple' else np.array(bounds, dtype=float)
    for name, v in (opts.get('extra') or {}).items():
        kw[name] = dict(v) if isinstance(v, dict) else v
    return pos, kw


def check_mle_exact(ctx, cases, shared=None):
    """cases: (counts, cmin, bounds or None[, options of the call: see _exact_call_args])"""
    from pyrepseq.stats import powerlaw_mle_alpha
    import scipy.special
    cases = [tuple(c) + ({},) * (4 - len(c)) for c in cases]
    shared = shared or {}
    G = 400 if ctx.quick else 2000
    TOL = Fraction(1, 10 ** 6)
    req, slots = [], []
    worst = 0.0
    npts = 0
    for k, (c, cmin, bounds, opts) in enumerate(cases):
        opts = dict(opts or {})
        kind, form = opts.get('kind', 'ndarray'), opts.get('form', 'pos')
        pos, kw = _exact_call_args(cmin, bounds, opts)
        lo, hi = bounds if bounds is not None else (1.5, 4.5)
        ecmin = MLE_DOC_CMIN if form in ('defaults', 'default_cmin') else cmin
        arg = shared[k][0]() if k in shared else _container(c, kind)
        before = _content(arg)
        r = call_impl(powerlaw_mle_alpha, arg, *pos, **kw)
        rep = dict(shared[k][1]) if k in shared else dict(func='powerlaw_mle_alpha', method='exact', counts=list(c), cmin=cmin, bounds=[lo, hi],
                                                          default_bounds=bounds is None, options=opts)
        ctx.count('mle:exact:%s' % ('default bounds' if bounds is None else 'custom bounds'))
        ctx.count('mle:exact:container=%s' % kind)
        if form != 'pos':
            ctx.count('mle:exact:call form %s' % form)
        if bounds is not None and opts.get('bounds_as', 'list') != 'list':
            ctx.count('mle:exact:bounds as %s' % opts['bounds_as'])
        for name in (opts.get('extra') or {}):
            ctx.count('mle:exact:kwargs pass-through %s' % name)
        ctx.count('mle:exact:n %s' % ('<= 5' if len(c) <= 5 else '<= 1000' if len(c) <= 1000 else '> 1000'))
        call = 'powerlaw_mle_alpha(%d counts as %s, %s)' % (len(c), kind, ', '.join([repr(x) for x in pos] + ['%s=%r' % kv for kv in kw.items()]))
        if _content(arg) != before:
            ctx.violation('correspondence', '%s altered the caller\'s counts: now %s' % (call, _brief(_content(arg))), rep,
                          site='stats.powerlaw_mle_alpha[exact]')
        if r[0] != 'ok' or not math.isfinite(float(r[1])):
            ctx.case()
            ctx.violation('property', "%s -> %s" % (call, r), rep, site='stats.powerlaw_mle_alpha[exact]')
            continue
        a = float(r[1])
        grid = np.linspace(lo, hi, G)
        ll = _loglik(c, grid, ecmin)
        ll_a = float(_loglik(c, np.array([min(max(a, lo), hi)]), ecmin)[0]) if lo <= a <= hi else float('-inf')
        if npts < 12:
            for al in (float(grid[G // 3]), a if lo <= a <= hi else lo):
                zs, zd = float(scipy.special.zeta(al, ecmin)), _hurwitz_decimal(al, ecmin)
                worst = max(worst, abs(zs / float(zd) - 1))
                npts += 1
        j = int(np.argmax(ll))
        boundary = j in (0, G - 1)
        ctx.count('mle:exact:%s' % ('optimum at a bound' if boundary else 'interior optimum'))
        if not (lo <= a <= hi):
            ctx.case()
            ctx.violation('property', "%s returned %r outside its bounds %s" % (call, a, [lo, hi]),
                          dict(rep, impl=a), site='stats.powerlaw_mle_alpha[exact]')
            continue
        slots.append((k, a, boundary, len(req), ll_a, float(ll[j]), float(grid[j]), call, rep))
        req.append(('api_c17_exact_ok', [Fraction(lo), Fraction(hi), Fraction(a), Fraction(ll_a), TOL, [Fraction(float(v)) for v in ll]]))
        # concave likelihood whose maximum over the bounds sits at an end point e: the bounded minimiser stops within its
        # x-tolerance of e, so the position is judged instead (|a - e| <= 1e-4) when the likelihood criterion fails
        e = float(grid[j])
        req.append(('api_c17_exact_ok', [Fraction(lo), Fraction(hi), Fraction(a), -abs(Fraction(a) - Fraction(e)),
                                        Fraction(1, 10 ** 4), [Fraction(0)]]))
    outs = ctx.oracle.run_parallel(req)
    for k, a, boundary, pos, ll_a, llmax, amax, call, rep in slots:
        c, cmin, bounds, opts = cases[k]
        lo, hi = bounds if bounds is not None else (1.5, 4.5)
        ok = True if (outs[pos] is True or (boundary and outs[pos + 1] is True)) else False
        rep = dict(rep, impl=a, loglik_at_impl=ll_a, grid_max=llmax, grid_argmax=amax)
        ctx.case(sample=dict(n=len(c), cmin=cmin, bounds=[lo, hi], impl=a, loglik_at_impl=ll_a, grid_max=llmax, grid_argmax=amax) if k % 9 == 0 and len(ctx.samples) < 9 else None,
                 nontrivial_key=('exact', tuple(repr(x) for x in c[:200]), len(c), cmin, lo, hi) if not boundary else None)
        if ok is not True:
            ctx.violation('property', "%s = %.9g is not a maximiser of the discrete "
                          'power-law likelihood within the bounds %s: log-likelihood %.9g there, %.9g at alpha=%.6g'
                          % (call, a, [lo, hi], ll_a, llmax, amax), rep, site='stats.powerlaw_mle_alpha[exact]')
    if npts and 'zeta_contract_crosscheck' not in ctx.extra:
        ctx.extra['zeta_contract_crosscheck'] = ('scipy.special.zeta vs an independent 40-digit Euler-Maclaurin evaluation: '
                                                 'max relative difference %.2e on %d points' % (worst, npts))
    if worst > 1e-9:
        ctx.note('scipy.special.zeta deviates from the independent evaluation by %.2e (contract, not pyrepseq)' % worst)


# ------------------------------------------------------------------ generators
def gen_subsample_cases(ctx):
    rng = ctx.rng
    cases = []
    kinds = ['list', 'ndarray', 'tuple', 'series']
    # exhaustive: every count vector of length 0..4 with entries 0..4, every n from 0 to total, and n = total+1, total+3
    k = 0
    for L in range(0, 5):
        for counts in itertools.product(range(5), repeat=L):
            total = sum(counts)
            ns = list(range(total + 1)) + [total + 1, total + 3]
            if ctx.quick and total > 6:
                # quick tier: all n for small totals, a spread of n for the larger ones (thorough: every n)
                ns = sorted(set([0, 1, total // 2, total - 1, total, total + 1] + [rng.randint(0, total)]))
            for n in ns:
                cases.append((counts, n, _seed(ctx), kinds[k % 4] if (k % 5 == 0 and L > 0) else 'list'))
                k += 1
    ctx.exhaustive = True
    # random large vectors
    for _ in range(60 if ctx.quick else 1200):
        L = rng.randint(1, 40)
        counts = tuple(rng.choice([0, 0, 1, 1, 2, 3, 5, 8, 20, rng.randint(0, 60)]) for _ in range(L))
        total = sum(counts)
        n = rng.choice([0, total, rng.randint(0, total), rng.randint(0, total), total + rng.randint(1, 5)])
        cases.append((counts, n, _seed(ctx), rng.choice(kinds)))
    return cases


AA = 'ACDEFGHIKLMNPQRSTVWY'


def gen_downsample_cases(ctx):
    rng = ctx.rng
    cases = []
    pool = ['CASSF', 'CASSLF', 'CAF', 'CASSQETQYF', 'CSARDF']
    kinds = ['list', 'ndarray', 'series', 'dataframe', 'tuple']
    # every multiset pattern over a 3-sequence pool for N <= 4 (quick) / 5, every maxseqs 0..N+2 and None, every container
    Nmax = 4 if ctx.quick else 5
    for N in range(0, Nmax + 1):
        for values in itertools.product(pool[:3], repeat=N):
            if list(values) != sorted(values) and rng.random() < (0.6 if ctx.quick else 0.0):
                continue
            for kind in kinds:
                if kind == 'dataframe' and N == 0:
                    continue
                labels = None
                if kind in ('series', 'dataframe'):
                    labels = rng.choice([list(range(N)), list(range(N))[::-1], [10 + 3 * i for i in range(N)],
                                         [i // 2 for i in range(N)], [i % 2 for i in range(N)], ['r%d' % (i % 3) for i in range(N)]])   # incl. duplicated / string labels (pd.concat without ignore_index)
                for m in list(range(0, N + 3)) + [None]:
                    cases.append((list(values), kind, labels, m, _seed(ctx)))
    for _ in range(120 if ctx.quick else 2500):
        N = rng.randint(1, 60 if ctx.quick else 300)
        base = [''.join(rng.choice(AA) for _ in range(rng.randint(3, 12))) for _ in range(rng.randint(1, max(1, N // 2)))]
        values = [rng.choice(base + pool) for _ in range(N)]
        kind = rng.choice(kinds)
        labels = None
        if kind in ('series', 'dataframe'):
            labels = list(range(N))
            c = rng.random()
            if c < 0.4:
                rng.shuffle(labels)
            elif c < 0.7:
                labels = [rng.randrange(max(1, N // 2)) for _ in range(N)]      # duplicated labels
        m = rng.choice([0, 1, N - 1, N, N + 1, N + 2, None, rng.randint(0, N), rng.randint(0, N)])
        cases.append((values, kind, labels, max(m, 0) if m is not None else None, _seed(ctx)))
    return cases


def gen_powerlaw_cases(ctx):
    rng = ctx.rng
    cases = []
    for size in [0, 1, 2, 3]:
        for xmin in [1, 2, 7, 50]:
            for alpha in [1.06, 1.5, 2.0, 3.0, 5.99]:
                cases.append((size, xmin, alpha, _seed(ctx)))
    for _ in range(150 if ctx.quick else 1500):
        size = rng.choice([5, 10, 100, 1000, rng.randint(0, 3000)])
        xmin = rng.randint(1, 50)
        alpha = rng.choice([round(rng.uniform(1.06, 6.0), 3), round(rng.uniform(1.06, 1.6), 3), 2.0])
        if rng.random() < 0.2:
            size, xmin = float(size), float(xmin)
        cases.append((size, xmin, alpha, _seed(ctx)))
    for size in ([10 ** 5] if ctx.quick else [10 ** 5] * 8 + [10 ** 4] * 20):
        cases.append((size, rng.randint(1, 50), round(rng.uniform(1.06, 6.0), 3), _seed(ctx)))
    for alpha in ([1.01, 1.02] if ctx.quick else [1.005, 1.01, 1.015, 1.02, 1.03, 1.04]):
        cases.append((50000, rng.randint(1, 9), alpha, _seed(ctx)))
    return cases


def gen_mle_cases(ctx):
    rng = ctx.rng
    cases = []
    vals = [0, 1, 2, 3, 5]          # 0: a clonotype absent from this sample of a merged table - below every threshold, never fitted
    Lmax = 3 if ctx.quick else 4
    for L in range(1, Lmax + 1):
        for c in itertools.product(vals, repeat=L):
            for cmin in (1, 2):
                for m in METHODS:
                    cases.append((list(c), cmin, m, 'list' if (len(cases) % 3) else 'ndarray'))
    for _ in range(150 if ctx.quick else 1000):
        n = rng.randint(1, 80 if ctx.quick else 250)
        cmin = rng.choice([1, 1, 2, 3, 5, 10, 1.0, 2.0, 1.5])
        alpha = rng.uniform(1.5, 4.0)
        c = _discrete_powerlaw(rng, n, alpha, 1)
        if rng.random() < 0.1:
            c = [int(cmin)] * n if float(cmin) == int(cmin) else c      # degenerate: every count equals cmin
        c = [min(v, 10 ** 6) for v in c]
        if rng.random() < 0.3:
            c += [0] * rng.randint(1, 5)         # zero counts (absent clonotypes) lie below any cmin
            rng.shuffle(c)
            ctx.count('mle:counts_with_zeros')
        cases.append((c, cmin, rng.choice(list(METHODS)), rng.choice(['list', 'ndarray', 'series', 'tuple'])))
    return cases


def gen_exact_cases(ctx):
    rng = ctx.rng
    cases = []
    for _ in range(25 if ctx.quick else 300):
        n = rng.randint(30, 600)
        cmin = rng.choice([1, 1, 2, 3])
        alpha = rng.uniform(1.8, 4.0)
        c = _discrete_powerlaw(rng, n, alpha, cmin)
        if rng.random() < 0.3:
            c += [rng.randint(1, 3) for _ in range(rng.randint(0, 30))]       # counts below cmin are ignored by the fit
        r = rng.random()
        bounds = None if r < 0.55 else rng.choice([(1.2, 3.0), (2.0, 6.0), (1.5, 2.5), (1.1, 8.0), (3.0, 4.0)])
        cases.append((c, cmin, bounds))
    return cases


# ------------------------------------------------------------------ generators of the widened domain (audit of the input coverage)
def gen_subsample_wide(ctx):
    """container kinds x type of n; sizes across 127/128, 255/256, 2**15, 2**16 (many categories, large counts)"""
    rng = ctx.rng
    R = 1 if ctx.quick else 8
    cases = []
    kinds = ['ndarray:%s' % d for d in INT_DTYPES] + ['series:shifted', 'series:permuted', 'series:string', 'series:duplicated',
                                                      'series:Int64', 'list:npints']
    ntypes = ['int', 'np.int64', 'np.int32', 'float', 'np.float64', 'np.uint8']
    for kind in kinds:
        for ntype in ntypes:
            for _ in range(R):
                counts = tuple(rng.choice([0, 0, 1, 2, 3, 7, 20]) for _ in range(rng.randint(1, 9)))
                total = sum(counts)
                for n in sorted({0, total, rng.randint(0, total), rng.randint(0, total), total + rng.randint(1, 3)}):
                    cases.append((counts, n, _seed(ctx), kind, ntype))
    for K in ([130, 260, 1000] if ctx.quick else [130, 260, 300, 1000, 2000, 3000]):
        for _ in range(R):
            counts = tuple(rng.choice([0, 1, 1, 2, 3]) for _ in range(K))
            total = sum(counts)
            for n in (total // 3, total - 1, total, total + 1):
                cases.append((counts, n, _seed(ctx), rng.choice(['list', 'ndarray', 'series:shifted', 'ndarray:uint8', 'tuple']), rng.choice(ntypes[:5])))
        counts = tuple([0] * (K - 3) + [2, 0, 3])        # only the last categories are occupied
        for n in (1, 4, 5, 6):
            cases.append((counts, n, _seed(ctx), rng.choice(['list', 'ndarray']), 'int'))
    bigs = [[200, 0, 300], [127, 128, 129], [255, 256, 1], [0, 40000, 1, 70000], [0, 2 ** 17, 3], [2 ** 15, 2 ** 15], [10 ** 5]]
    for counts in bigs if ctx.quick else bigs * 4:
        total = sum(counts)
        dts = [d for d in INT_DTYPES if _fits(counts, d)]
        for n in (1, rng.randint(2, total - 2), total - 1, total, total + 1):
            cases.append((tuple(counts), n, _seed(ctx), rng.choice(['list', 'ndarray:' + rng.choice(dts), 'series:string']), rng.choice(ntypes[:5])))
    return cases


def gen_subsample_sequences(ctx):
    rng = ctx.rng
    seqs = []
    for _ in range(40 if ctx.quick else 400):
        kind = rng.choice(['ndarray', 'ndarray:int32', 'ndarray:uint8', 'list', 'series', 'series:string', 'tuple'])
        L = rng.randint(1, 8)
        c1, c2 = ([rng.choice([0, 1, 2, 3, 5, 8]) for _ in range(L)] for _ in range(2))
        t1, t2 = sum(c1), sum(c2)
        steps = [(c1, rng.randint(0, t1), _seed(ctx)), (c1, rng.choice([0, t1, rng.randint(0, t1), t1 + 1]), _seed(ctx))]
        if kind != 'tuple':
            steps += [(c2, rng.choice([t2, rng.randint(0, t2), t2 + 1]), _seed(ctx)), (c1, t1, _seed(ctx))]
        seqs.append((kind, steps))
    return seqs


DS_TABLES = ['dataframe:1col', 'dataframe:nan', 'dataframe:dupcols', 'dataframe:multiindex', 'dataframe:wide']
LONGPOOL = ['CASSF', 'CASSLF', 'CAF', 'CASSQETQYF', 'CSARDF', 'C' + 'AS' * 70 + 'F', 'CAS' + 'G' * 300 + 'F', 'CASSLAPGATNEKLFF' + 'Q' * 12]


def _ds_labels(rng, N):
    return rng.choice([None, list(range(N))[::-1], [10 + 3 * i for i in range(N)], [i // 2 for i in range(N)], ['r%d' % (i % 3) for i in range(N)]])


def gen_downsample_wide(ctx):
    """further containers (object arrays, string / categorical Series, pd.Index, tables with one / many / equally named columns, missing
    cells, a MultiIndex, no rows), maxseqs as a NumPy integer, sequences longer than 127 / 255, missing elements, sizes to 70000"""
    rng = ctx.rng
    R = 1 if ctx.quick else 8
    cases = []
    kinds = ['ndarray:object', 'series:str', 'series:string', 'series:category', 'index'] + DS_TABLES
    mtypes = ['int', 'np.int64', 'np.int32', 'np.uint8']
    for kind in kinds + ['list', 'ndarray', 'series', 'dataframe', 'tuple']:
        for _ in range(8 * R):
            N = rng.randint(1, 12)
            values = [rng.choice(LONGPOOL) for _ in range(N)]
            labels = _ds_labels(rng, N) if kind.startswith(('series', 'dataframe')) else None
            m = rng.choice([0, 1, N - 1, N, N + 1, rng.randint(0, N), None])
            cases.append((values, kind, labels, m, _seed(ctx), rng.choice(mtypes)))
    for kind in DS_TABLES + ['dataframe']:          # a table without rows
        for m in (0, 1, None):
            cases.append(([], kind, None, m, _seed(ctx)))
    for kind in ('list', 'tuple', 'series', 'ndarray:object', 'dataframe:1col'):      # missing elements
        for _ in range(4 * R):
            N = rng.randint(2, 10)
            values = [rng.choice(LONGPOOL[:5] + [None, float('nan')]) for _ in range(N)]
            values[rng.randrange(N)] = None
            for m in (0, 1, N - 1, N, None):
                cases.append((values, kind, None, m, _seed(ctx)))
    base = [''.join(rng.choice(AA) for _ in range(rng.randint(3, 20))) for _ in range(400)]
    for N in ([127, 128, 255, 256, 1000] if ctx.quick else [127, 128, 255, 256, 1000, 1000, 1500, 1500]):
        values = [rng.choice(base) for _ in range(N)]
        kind = rng.choice(['list', 'ndarray', 'series', 'dataframe', 'tuple', 'dataframe:nan', 'index'])
        labels = _ds_labels(rng, N) if kind.startswith(('series', 'dataframe')) else None
        for m in (0, 1, N // 2, N - 1, N, N + 1):
            cases.append((values, kind, labels, m, _seed(ctx), rng.choice(mtypes[:3])))
    for N in (2 ** 15 + 1, 70000):          # the extracted model handles these when few elements are kept (all sizes of maxseqs: check_huge)
        values = [rng.choice(base) + rng.choice(base) for _ in range(N)]
        for kind in (['list', 'dataframe:1col'] if ctx.quick else ['list', 'ndarray', 'series', 'dataframe:1col', 'dataframe']):
            for m in (1, 7):
                cases.append((values, kind, None, m, _seed(ctx), 'np.int64'))
    return cases


def gen_downsample_sequences(ctx):
    rng = ctx.rng
    seqs = []
    for _ in range(40 if ctx.quick else 400):
        kind = rng.choice(['list', 'ndarray', 'ndarray:object', 'series', 'series:str', 'dataframe', 'dataframe:1col', 'tuple'])
        N = rng.randint(2, 10)
        v1, v2 = ([rng.choice(LONGPOOL[:5]) for _ in range(N)] for _ in range(2))
        labels = _ds_labels(rng, N) if kind.startswith(('series', 'dataframe')) else None
        steps = [(v1, rng.randint(0, N - 1), _seed(ctx)), (v1, rng.choice([0, 1, N - 1, N, None]), _seed(ctx)), (v1, rng.randint(0, N - 1), _seed(ctx))]
        if kind != 'tuple':
            steps += [(v2, rng.randint(0, N - 1), _seed(ctx)), (v2, None, _seed(ctx)), (v1, N, _seed(ctx)), (v1, N - 1, _seed(ctx))]
        seqs.append((kind, labels, steps))
    return seqs


def gen_powerlaw_wide(ctx):
    """call forms (parameters left to their documented defaults, keywords), NumPy / int / float scalars, xmin up to 1e12, exponents
    up to 200, sizes across 127/128, 255/256, 2**15, 2**16"""
    rng = ctx.rng
    R = 1 if ctx.quick else 8
    cases = []
    forms = ['pos0', 'pos1', 'pos2', 'pos0+kw:size', 'pos0+kw:xmin', 'pos0+kw:alpha', 'pos0+kw:size,xmin', 'pos0+kw:xmin,alpha',
             'pos0+kw:alpha,size', 'pos0+kw:size,xmin,alpha', 'pos1+kw:alpha', 'pos1+kw:xmin', 'pos2+kw:alpha']
    for form in forms:
        for _ in range(4 * R):
            cases.append((rng.choice([0, 1, 2, 5, 40, 300]), rng.choice([1, 2, 3, 10, 2.0, 37]), rng.choice([1.2, 1.5, 2.0, 3.5, 3, 5.5]), _seed(ctx), form))
    typesets = [('np.int64', 'np.int64', 'np.float64'), ('np.int32', 'np.float64', 'np.float64'), ('float', 'float', 'int'),
                ('np.uint8', 'np.uint8', 'np.int64'), ('int', 'np.int32', 'float'), ('np.float64', 'int', 'np.int32'), ('np.uint16', 'np.uint16', 'np.float64')]
    for types in typesets:
        for _ in range(4 * R):
            alpha = rng.choice([2, 3, 4, 6]) if 'int' in types[2] else rng.choice([1.2, 1.7, 2.0, 2.5, 4.0])
            cases.append((rng.choice([0, 1, 3, 50, 200]), rng.randint(1, 60), alpha, _seed(ctx), rng.choice(['pos3', 'pos0+kw:size,xmin,alpha', 'pos1+kw:xmin,alpha']), types))
    for xmin in [51, 100, 1000, 10 ** 6, 2 ** 31, 2 ** 31 + 1, 10 ** 9, 10 ** 12]:
        for _ in range(2 * R):
            cases.append((rng.choice([1, 10, 500]), xmin, rng.choice([1.2, 1.5, 2.0, 3.0, 7.5]), _seed(ctx)))
    for alpha in [6.0, 8.5, 20.0, 50.0, 200.0, 12]:
        for _ in range(2 * R):
            cases.append((rng.choice([1, 10, 500]), rng.choice([1, 2, 9, 50, 1000]), alpha, _seed(ctx)))
    for size in [127, 128, 255, 256, 1000, 2 ** 15, 2 ** 16 + 1]:
        cases.append((size, rng.randint(1, 50), round(rng.uniform(1.1, 4.0), 3), _seed(ctx), rng.choice(['pos3', 'pos0+kw:size,xmin,alpha'])))
    return cases


MLE_KINDS = (['ndarray:%s' % d for d in INT_DTYPES] +
             ['ndarray:float64', 'series:shifted', 'series:permuted', 'series:string', 'series:duplicated', 'list:npints', 'tuple', 'list', 'series'])


def gen_mle_wide(ctx):
    """call forms (keywords, cmin left to its default, NumPy scalar, stray optimiser options), integer dtypes, index variants, NaN
    entries, non-integer values, counts up to 1e15, thresholds up to 1000 (samples of 1e3 .. 1e5 counts: check_huge)"""
    rng = ctx.rng
    R = 1 if ctx.quick else 6
    cases = []
    forms = ['kw', 'kw_swapped', 'default_cmin', 'np_cmin', 'stray_kwargs', 'pos']
    for kind in MLE_KINDS:
        for form in forms:
            for _ in range(R):
                n = rng.randint(1, 40)
                c = [min(v, 100) for v in _discrete_powerlaw(rng, n, rng.uniform(1.5, 4.0), 1)]
                if rng.random() < 0.3:
                    c += [0] * rng.randint(1, 3)
                    rng.shuffle(c)
                cmin = 1 if form == 'default_cmin' else rng.choice([1, 2, 3, 5, 1.0, 2.0, 1.5])
                cases.append((c, cmin, rng.choice(list(METHODS)), kind, form))
    for kind in ('ndarray:float64', 'list', 'series', 'series:string', 'tuple'):
        for _ in range(4 * R):
            n = rng.randint(2, 40)
            cmin = rng.choice([1, 2, 2.5, 1.0, 10])
            alpha = rng.uniform(1.5, 4.0)
            if rng.random() < 0.5:       # NaN: the clonotype is absent from this sample of an outer-joined table
                c = [float(v) for v in _discrete_powerlaw(rng, n, alpha, 1)] + [float('nan')] * rng.randint(1, 4)
                rng.shuffle(c)
            else:                        # continuous data (the 'simple' form is the exact continuous estimator)
                c = [round(float(cmin) * (1 - rng.random()) ** (-1.0 / (alpha - 1.0)), 3) * rng.choice([1, 1, 1, 0.5]) for _ in range(n)]
            cases.append((c, cmin, rng.choice(list(METHODS)), kind, rng.choice(forms[:2] + ['pos'])))
    for _ in range(6 * R):
        c = _discrete_powerlaw(rng, rng.randint(3, 30), 1.6, 1) + [10 ** 12, 2 ** 40 + 1, 10 ** 15, 3 * 10 ** 7][:rng.randint(1, 4)]
        rng.shuffle(c)
        cases.append((c, rng.choice([1, 5, 100, 10 ** 6]), rng.choice(list(METHODS)), rng.choice(['list', 'ndarray', 'ndarray:uint64', 'series:shifted'])))
    for cmin in (50, 100, 1000, 127, 128, 255.0, 256):
        for _ in range(R):
            c = _discrete_powerlaw(rng, rng.randint(5, 60), rng.uniform(1.6, 3.0), rng.choice([cmin, cmin // 4 + 1]))
            c = [min(int(v), 10 ** 9) for v in c]
            cases.append((c, cmin, rng.choice(list(METHODS)), rng.choice(['list', 'ndarray', 'ndarray:int32', 'series:string']), rng.choice(forms)
                          if cmin != 255.0 else 'pos'))
    return cases


def gen_exact_wide(ctx):
    rng = ctx.rng
    R = 1 if ctx.quick else 6
    cases = []
    kinds = ['list', 'tuple', 'ndarray:int16', 'ndarray:uint16', 'ndarray:int32', 'ndarray:uint64', 'ndarray:float64', 'series:shifted',
             'series:string', 'series:permuted', 'list:npints']
    if os.environ.get('PV_PENDING_C17'):
        kinds += ['ndarray:int8', 'ndarray:uint8']       # NOTES.md, POSSIBLE DEFECT: float16 logarithms of 8-bit counts
    forms = ['pos', 'kw', 'defaults', 'default_method', 'default_cmin', 'np_cmin']
    extras = [None, None, {'options': {'xatol': 1e-9}}, {'tol': 1e-9}, {'options': {'maxiter': 400}}, {'options': {'xatol': 1e-7, 'maxiter': 300}}]
    allb = [(1.2, 3.0), (2.0, 6.0), (1.5, 2.5), (1.1, 8.0), (3.0, 4.0), (1.5, 4.5)]
    for kind in kinds:
        for form in forms:
            for _ in range(R):
                cmin = 1 if form in ('defaults', 'default_cmin') else rng.choice([1, 2, 3, 5, 10, 2.0])
                n = rng.choice([rng.randint(30, 400), rng.randint(30, 400), rng.randint(6, 29), 3000])
                c = [min(v, 100 if kind in ('ndarray:int8', 'ndarray:uint8') else 30000) for v in _discrete_powerlaw(rng, n, rng.uniform(1.8, 4.0), cmin)]
                if rng.random() < 0.3:
                    c += [0] * rng.randint(1, 5) + [rng.randint(1, 3) for _ in range(rng.randint(0, 10))]
                    rng.shuffle(c)
                bounds = None if rng.random() < 0.5 else rng.choice(allb)
                cases.append((c, cmin, bounds, dict(kind=kind, form=form, bounds_as=rng.choice(['list', 'tuple', 'ndarray']), extra=rng.choice(extras))))
    for n in (1, 1, 2, 2, 3, 5):           # very small samples (the likelihood is monotone or flat: optimum at a bound)
        for _ in range(R):
            cmin = rng.choice([1, 1, 2])
            c = [rng.choice([cmin, cmin, cmin + 1, 5, 40]) for _ in range(n)]
            cases.append((c, cmin, rng.choice([None, (1.2, 3.0)]), dict(kind=rng.choice(['list', 'ndarray']))))
        cases.append(([1] * n, 2, None, dict(kind='list')))          # no count reaches cmin: every exponent within the bounds is a maximiser
    for alpha, cmin in [(1.25, 1), (1.3, 2), (6.0, 1), (7.0, 3)]:      # true exponent outside the default bounds
        for _ in range(R):
            c = _discrete_powerlaw(rng, rng.randint(100, 500), alpha, cmin)
            cases.append((c, cmin, rng.choice([None, None, (1.1, 8.0)]), dict(kind='ndarray', form=rng.choice(['pos', 'default_method']))))
    for _ in range(3 * R):                  # NaN entries (absent clonotypes)
        cmin = rng.choice([1, 2])
        c = [float(v) for v in _discrete_powerlaw(rng, rng.randint(40, 300), rng.uniform(1.8, 3.5), cmin)] + [float('nan')] * rng.randint(1, 5)
        rng.shuffle(c)
        cases.append((c, cmin, None, dict(kind=rng.choice(['ndarray:float64', 'list', 'series:string']))))
    for _ in range(3 * R):                  # narrow custom bounds away from the optimum, then the defaults again on the same data
        cmin = rng.choice([1, 2])
        c = _discrete_powerlaw(rng, rng.randint(80, 400), rng.uniform(1.9, 2.6), cmin)
        far = rng.choice([(3.4, 3.6), (4.0, 4.4), (1.55, 1.6)])
        cases += [(c, cmin, far, dict(kind='ndarray', extra={'options': {'xatol': 1e-8}})), (c, cmin, None, dict(kind='ndarray')),
                  (c, cmin, None, dict(kind='ndarray', form='default_method'))]
    # large samples: the default x-tolerance 1e-5 of the bounded minimiser costs up to n * I * 1e-10 / 2 in log-likelihood, which
    # reaches the 1e-6 of the criterion near n = 1e4; beyond 5000 counts the caller tightens it through the documented pass-through
    for n, extra in ([(5000, None), (10 ** 5, {'options': {'xatol': 1e-8}})] if ctx.quick else
                     [(5000, None)] * 3 + [(10 ** 5, {'options': {'xatol': 1e-8}})] * 3 + [(10 ** 6, {'options': {'xatol': 1e-9}})]):
        cmin = rng.choice([1, 2])
        cases.append((_discrete_powerlaw(rng, n, rng.uniform(1.8, 3.5), cmin), cmin, None, dict(kind='ndarray', extra=extra)))
    return cases


def gen_mle_sequences(ctx):
    rng = ctx.rng
    seqs = []
    for _ in range(25 if ctx.quick else 250):
        kind = rng.choice(['ndarray', 'ndarray:float64', 'ndarray:int32', 'list', 'series', 'series:string', 'tuple'])
        L = rng.randint(8, 60)
        c1, c2 = ([min(v, 1000) for v in _discrete_powerlaw(rng, L, rng.uniform(1.7, 3.5), 1)] for _ in range(2))
        m1, m2 = rng.choice(list(METHODS)), rng.choice(list(METHODS))
        cmin = rng.choice([1, 2, 1.5])
        steps = [(c1, cmin, m1), (c1, cmin, m2), (c1, 1, ('exact', None)), (c1, cmin, m1)]
        if kind != 'tuple':
            steps += [(c2, cmin, m1), (c2, 1, ('exact', (1.2, 6.0))), (c1, rng.choice([1, 2]), m2), (c1, 1, ('exact', None))]
        seqs.append((kind, steps))
    return seqs


# ------------------------------------------------------------------ entry points
def run(ctx):
    ctx.rule = ('subsample: every count vector of length 0..4 with entries 0..4 x n in 0..total, total+1, total+3 (quick: a spread of n '
                'for totals > 6) in list/ndarray/tuple/Series form, plus random vectors up to 40 categories; non-trivial := 0 < n < total '
                'and >= 2 non-empty categories, distinct by (counts, n, output). downsample: every multiset pattern over a 3-sequence pool, '
                'N <= 4/5, x list/ndarray/Series/DataFrame/tuple x maxseqs 0..N+2 and None, plus random collections; non-trivial := reduced, '
                'maxseqs > 0, >= 2 distinct elements. powerlaw_sample: sizes 0..1e5, xmin 1..50, alpha in [1.06, 6); non-trivial := some value '
                'above xmin. powerlaw_mle_alpha: every count vector over {1,2,3,5} of length <= 3/4 x cmin 1,2 x both closed forms, random '
                'power-law samples; exact: bounds respected and log-likelihood >= grid maximum - 1e-6. NumPy seeded from ctx.rng per call. '
                'Widened (coverage audit): integer dtypes int8..uint64, Series with shifted / permuted / string / duplicated index, nullable Int64, '
                'lists of NumPy integers, n / maxseqs / size / xmin / alpha / cmin as NumPy or float scalars; > 255 categories, counts and totals '
                'across 2**15 / 2**16, 66000-70000 categories and elements (specification evaluated in Python there); object / string / categorical '
                'Series, pd.Index, tables with one / many / equally named columns, missing cells, MultiIndex, no rows; sequences of 141-306 residues; '
                'missing elements; every call form (parameters left to their documented defaults, keywords, stray / pass-through optimiser options, '
                'bounds as tuple / ndarray); NaN and non-integer entries, counts to 1e15, cmin to 1000, fits of 1..1e4 counts, true exponent outside '
                'the bounds; call sequences on ONE object (repeated, refilled in place) for subsample / downsample / powerlaw_mle_alpha; chi-square '
                'tests at 300 / 1000 / 1500 items and with the four functions interleaved on the shared generator.')
    check_subsample(ctx, gen_subsample_cases(ctx) + gen_subsample_wide(ctx), 'main')
    if len(ctx.violations) < 20:
        check_subsample_sequences(ctx, gen_subsample_sequences(ctx))
    if len(ctx.violations) < 20:
        check_downsample(ctx, gen_downsample_cases(ctx) + gen_downsample_wide(ctx))
    if len(ctx.violations) < 20:
        check_downsample_sequences(ctx, gen_downsample_sequences(ctx))
    if len(ctx.violations) < 20:
        check_huge(ctx)
    if len(ctx.violations) < 20:
        # extremely steep exponents: (1 - r) ** (-1 / (alpha - 1)) evaluates to exactly 1.0, every draw sits on the rounding tie
        # xmin - 1/2 + 1/2 = xmin (odd and even xmin: ties-to-even rounding would give xmin - 1 for odd ones)
        steep = [(rng_size, xm, al, ctx.rng.randrange(2 ** 31)) for al in (1e6, 1e9, 1e12, 1e15, 1e17, 1e300)
                 for xm in (1, 2, 3, 7, 50, 51) for rng_size in ((5, 2000) if ctx.quick else (5, 2000, 100000))]
        ctx.count('powerlaw_sample:steep exponents', len(steep))
        check_powerlaw_sample(ctx, gen_powerlaw_cases(ctx) + gen_powerlaw_wide(ctx) + steep)
    if len(ctx.violations) < 20:
        check_mle_closed(ctx, gen_mle_cases(ctx) + gen_mle_wide(ctx))
    if len(ctx.violations) < 20:
        check_mle_exact(ctx, gen_exact_cases(ctx) + gen_exact_wide(ctx))
    if len(ctx.violations) < 20:
        check_mle_sequences(ctx, gen_mle_sequences(ctx))
    if len(ctx.violations) < 20:
        uniformity_tests(ctx)
    _shrink_first(ctx)
    ctx.assumptions += [
        'numpy.random.choice(a, n, replace=False) returns n entries of a at distinct positions, each n-subset equally likely '
        '(modelled as the explicit draw S; uniformity only TESTED: chi-square, false-alarm 1e-9)',
        'pandas DataFrame.sample(n) returns n distinct rows with their labels (modelled as the same draw)',
        'numpy.random.rand returns floats in [0, 1); float64 evaluation of the inverse-transform formula (r within 1e-16 of 1 not covered)',
        "scipy.optimize.minimize_scalar(method='bounded') and scipy.special.zeta (Hurwitz zeta) for method='exact': exercised, not proved",
        'decimal logarithms (30 digits) stand for ln in the closed forms; float64 result compared with the exact rational, rel 1e-9',
    ]


def _shrink_first(ctx):
    """cheap shrinking: among the property violations prefer the smallest input"""
    def size(v):
        r = v.get('replay') or {}
        return len(repr(r.get('counts', r.get('values', r.get('size', '')))))
    prop = [v for v in ctx.violations if v['kind'] == 'property']
    if len(prop) > 1:
        best = min(prop, key=size)
        ctx.violations.remove(best)
        ctx.violations.insert(0, best)


def replay(ctx, obj):
    r = obj['replay']
    f = r.get('func')
    if f == 'subsample':
        check_subsample(ctx, [(tuple(r['counts']), r['n'], r['numpy_seed'], r.get('container', 'list'), r.get('n_type', 'int'))], 'replay')
    elif f == 'subsample_sequence':
        check_subsample_sequences(ctx, [(r['container'], [tuple(st) for st in r['steps']])])
    elif f == 'downsample':
        check_downsample(ctx, [(r['values'], r['container'], r.get('labels'), r['maxseqs'], r['numpy_seed'], r.get('maxseqs_type', 'int'))])
    elif f == 'downsample_sequence':
        check_downsample_sequences(ctx, [(r['container'], r.get('labels'), [tuple(st) for st in r['steps']])])
    elif f == 'powerlaw_sample':
        check_powerlaw_sample(ctx, [(r['size'], r['xmin'], r['alpha'], r['numpy_seed'], r.get('form', 'pos3'),
                                     tuple(r['types']) if r.get('types') else None)])
    elif f == 'powerlaw_mle_alpha' and r.get('method') == 'exact':
        check_mle_exact(ctx, [(r['counts'], r['cmin'], None if r.get('default_bounds') else tuple(r['bounds']), r.get('options') or {})])
    elif f == 'powerlaw_mle_alpha':
        check_mle_closed(ctx, [(r['counts'], r['cmin'], r['method'], r.get('container', 'list'), r.get('form', 'pos'))])
    elif f == 'mle_sequence':
        check_mle_sequences(ctx, [(r['container'], [tuple(st) for st in r['steps']])])
    else:
        run(ctx)
