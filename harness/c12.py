"""C12 - one-edit neighbourhood generators and the set utilities on them are exact."""
import itertools
import numpy as np
import gens
from gens import all_strings
from core import call_impl


def run(ctx):
    import pyrepseq.distance as ds
    rng = ctx.rng
    ctx.rule = ('(a) levenshtein_neighbors / hamming_neighbors as yielded LISTS (order and duplicates visible) for every string of '
                'length 0..L over alphabets of 1, 2, 3 letters and 0..L-1 over 4 letters, plus random strings with long runs over 20 '
                'letters and explicit variable_positions; (b) next_nearest_neighbors maxdistance 1..3; (c) find_neighbor_pairs, '
                'find_neighbor_pairs_index, calculate_neighbor_numbers, isdist1, nndist_hamming on subsets of the short binary strings '
                'and random amino-acid sets. non-trivial := the string has a run of repeated letters (the duplicate-suppression case) '
                'or the reference set contains a neighbour')
    L = 4 if ctx.quick else 6
    strs = []
    for alpha in ('A', 'AC', 'ACD'):
        strs += [(alpha, s) for s in all_strings(alpha, L)]
    strs += [('ACDE', s) for s in all_strings('ACDE', L - 1)]
    for _ in range(150 if ctx.quick else 2000):
        s = ''.join(rng.choice('AACD' if rng.random() < 0.5 else gens.AA) * rng.randint(1, 3) for _ in range(rng.randint(0, 6)))
        strs.append((gens.AA, s))
    ctx.exhaustive = True
    reqs = [('api_lev_nbrs', [al, s]) for al, s in strs]
    outs = ctx.oracle.run_parallel(reqs)
    for n, ((al, s), o) in enumerate(zip(strs, outs)):
        g = call_impl(lambda: list(ds.levenshtein_neighbors(s, al)))
        run_ = any(a == b for a, b in zip(s, s[1:]))
        ctx.case(sample=dict(func='levenshtein_neighbors', x=s, alphabet=al, n_neighbours=len(o)) if run_ and n % 200 == 0 else None,
                 nontrivial_key=('lev', al, s) if run_ else None)
        if n % 40 == 0 and len(o) < 80:
            ctx.add_vm('api_lev_nbrs', [al, s], o)
        if g[0] != 'ok' or g[1] != o:
            detail = g[1] if g[0] != 'ok' else dict(missing=sorted(set(o) - set(g[1]))[:4], spurious=sorted(set(g[1]) - set(o))[:4],
                                                    duplicates=len(g[1]) - len(set(g[1])), order_differs=sorted(g[1]) == sorted(o))
            ctx.violation('property', 'levenshtein_neighbors(%r, %r) differs from the proved generator: %s' % (s, al, detail),
                          dict(func='levenshtein_neighbors', x=s, alphabet=al, detail=str(detail)), site='distance.levenshtein_neighbors')
            if len(ctx.violations) > 5:
                return
    # hamming_neighbors with all / explicit positions
    hreq, hcase = [], []
    for al, s in strs[::3]:
        pos = list(range(len(s)))
        mode = rng.choice(['all', 'subset', 'shuffled'])
        if mode == 'subset':
            pos = sorted(rng.sample(pos, rng.randint(0, len(pos)))) if pos else []
        elif mode == 'shuffled':
            rng.shuffle(pos)
        hcase.append((al, s, pos, mode))
        hreq.append(('api_ham_nbrs_pos', [al, pos, s]))
    outs = ctx.oracle.run_parallel(hreq)
    for (al, s, pos, mode), o in zip(hcase, outs):
        g = call_impl(lambda: list(ds.hamming_neighbors(s, al) if mode == 'all' else ds.hamming_neighbors(s, al, variable_positions=pos)))
        ctx.case(nontrivial_key=('ham', al, s, tuple(pos)) if s else None)
        if g[0] != 'ok' or g[1] != o:
            ctx.violation('property', 'hamming_neighbors(%r, %r, positions=%s) differs from the proved generator' % (s, al, pos),
                          dict(func='hamming_neighbors', x=s, alphabet=al, positions=pos, got=str(g)[:300]), site='distance.hamming_neighbors')
    # next_nearest_neighbors
    nreq, ncase = [], []
    for al, s in [(a, s) for a, s in strs if len(a) <= 3 and len(s) <= 3][::2] + [(a, s) for a, s in strs if len(a) == 20 and len(s) <= 2][:4]:
        for m in (1, 2, 3):
            if (len(al) == 20 and m >= 2) or (len(al) == 3 and len(s) == 3 and m == 3):
                continue
            ham = rng.random() < 0.4
            ncase.append((al, s, m, ham))
            nreq.append(('api_next_nearest', [ham, al, m, s]))
    outs = ctx.oracle.run_parallel(nreq)
    for (al, s, m, ham), o in zip(ncase, outs):
        nbf = (lambda x: ds.hamming_neighbors(x, al)) if ham else (lambda x: ds.levenshtein_neighbors(x, al))
        g = call_impl(lambda: ds.next_nearest_neighbors(s, nbf, maxdistance=m))
        ctx.case(nontrivial_key=('nnn', al, s, m, ham) if o else None)
        if g[0] != 'ok' or sorted(g[1]) != sorted(o):
            ctx.violation('property', 'next_nearest_neighbors(%r, %s over %r, maxdistance=%d) differs from the proved set' %
                          (s, 'hamming' if ham else 'levenshtein', al, m),
                          dict(func='next_nearest_neighbors', x=s, alphabet=al, m=m, hamming=ham, got=str(g)[:300]),
                          site='distance.next_nearest_neighbors')
    # set utilities
    uni = all_strings('AC', 3)
    sets = []
    for _ in range(60 if ctx.quick else 6000):
        sets.append(('AC', rng.sample(uni, rng.randint(0, min(8, len(uni))))))
    for _ in range(20 if ctx.quick else 1500):
        root = ''.join(rng.choice(gens.AA) for _ in range(rng.randint(2, 7)))
        ss = list({gens.mutate(rng, root, gens.AA, rng.randint(0, 3)) for _ in range(rng.randint(1, 8))})
        sets.append((gens.AA, ss))
    ureq = []
    for al, ss in sets:
        ham = len(al) == 20 and rng.random() < 0.5
        x = rng.choice(ss) if ss and rng.random() < 0.5 else ''.join(rng.choice(al) for _ in range(rng.randint(0, 4)))
        ureq.append((al, ss, ham, x))
    reqs = []
    for al, ss, ham, x in ureq:
        reqs += [('api_find_pairs', [ham, al, sorted(set(ss))]), ('api_neighbor_numbers', [ham, al, ss, sorted(set(ss))]),
                 ('api_isdist1', [ham, al, x, ss])]
    outs = ctx.oracle.run_parallel(reqs)
    # explicit reference argument: empty, a sub-collection, a different collection (one batched oracle call for all of them)
    refsets = [(set(), set(ss[:len(ss) // 2]), set(ss) | {x}) for al, ss, ham, x in ureq]
    refouts = ctx.oracle.run_parallel([('api_neighbor_numbers', [ham, al, ss, sorted(ref)])
                                       for (al, ss, ham, x), refs in zip(ureq, refsets) for ref in refs])
    for n, (al, ss, ham, x) in enumerate(ureq):
        fp, nnum, isd = outs[3 * n:3 * n + 3]
        nbf = (lambda s: ds.hamming_neighbors(s, al)) if ham else (lambda s: ds.levenshtein_neighbors(s, al))
        nt = bool(fp)
        ctx.case(sample=dict(func='find_neighbor_pairs', seqs=ss, hamming=ham, pairs=fp[:5]) if nt and n % 25 == 0 else None,
                 nontrivial_key=('util', al, tuple(ss), ham, x) if nt else None)
        # repeated sequences in the input must not repeat a pair (the statement: each unordered pair of DISTINCT sequences once)
        ss_fp = ss + [rng.choice(ss) for _ in range(rng.randint(1, 3))] if ss and n % 3 == 0 else ss
        if ss_fp is not ss:
            rng.shuffle(ss_fp)
            ctx.count('find_pairs_input_with_repeats')
        g = call_impl(lambda: ds.find_neighbor_pairs(ss_fp, neighborhood=nbf))
        # each unordered pair once: compare as a set of frozensets plus multiplicity
        ok = g[0] == 'ok' and sorted(tuple(sorted(p)) for p in g[1]) == sorted(tuple(sorted(p)) for p in fp)
        if not ok:
            ctx.violation('property', 'find_neighbor_pairs(%s) = %s, expected each unordered distance-1 pair once: %s' % (ss_fp, str(g)[:200], fp),
                          dict(func='find_neighbor_pairs', seqs=ss_fp, hamming=ham, alphabet=al), site='distance.find_neighbor_pairs')
        # the same collection object handed over again (a set of unique sequences is the natural argument; also a tuple): the second
        # answer is the same list of pairs, and the collection still holds what it held
        if ss and n % 2 == 1:
            cont = set(ss) if n % 4 == 1 else tuple(ss)
            ctx.count('find_pairs_same_%s_twice' % type(cont).__name__)
            g1 = call_impl(lambda: ds.find_neighbor_pairs(cont, neighborhood=nbf))
            g2 = call_impl(lambda: ds.find_neighbor_pairs(cont, neighborhood=nbf))
            want = sorted(tuple(sorted(p)) for p in fp)
            bad = [k for k, gg in (('first', g1), ('second', g2)) if gg[0] != 'ok' or sorted(tuple(sorted(p)) for p in gg[1]) != want]
            if bad or sorted(cont) != sorted(set(ss) if isinstance(cont, set) else ss):
                ctx.violation('property', 'find_neighbor_pairs on the same %s %s, called twice: %s; the collection holds %s afterwards; '
                              'expected each unordered distance-1 pair once both times: %s' % (
                                  type(cont).__name__, sorted(ss), '; '.join('%s call -> %s' % (k, str(gg)[:120]) for k, gg in (('first', g1), ('second', g2))),
                                  sorted(cont), fp),
                              dict(func='find_neighbor_pairs_twice', seqs=ss, container=type(cont).__name__, hamming=ham, alphabet=al),
                              site='distance.find_neighbor_pairs[same object twice]')
        g = call_impl(lambda: ds.find_neighbor_pairs_index(ss, neighborhood=nbf))
        exp_idx = sorted((i, j) for i in range(len(ss)) for j in range(len(ss))
                         if tuple(sorted((ss[i], ss[j]))) in {tuple(sorted(p)) for p in fp} and ss[i] != ss[j])
        if g[0] != 'ok' or sorted((int(a), int(b)) for a, b in g[1]) != exp_idx:
            ctx.violation('property', 'find_neighbor_pairs_index(%s) = %s, expected %s' % (ss, str(g)[:200], exp_idx),
                          dict(func='find_neighbor_pairs_index', seqs=ss, hamming=ham, alphabet=al), site='distance.find_neighbor_pairs_index')
        g = call_impl(lambda: ds.calculate_neighbor_numbers(ss, neighborhood=nbf))
        if g[0] != 'ok' or [int(v) for v in g[1]] != nnum:
            ctx.violation('property', 'calculate_neighbor_numbers(%s) = %s, expected %s' % (ss, str(g)[:200], nnum),
                          dict(func='calculate_neighbor_numbers', seqs=ss, hamming=ham, alphabet=al), site='distance.calculate_neighbor_numbers')
        # explicit reference argument: empty (set and list), a sub-collection, a different collection
        for r, ref in enumerate(refsets[n]):      # reference SETS (the stated domain; a list raises TypeError in set & list)
            o = refouts[3 * n + r]
            g = call_impl(lambda: ds.calculate_neighbor_numbers(ss, reference=set(ref), neighborhood=nbf))
            ctx.case(nontrivial_key=('nnum-ref', tuple(ss), tuple(sorted(ref))) if any(o) else None)
            ctx.count('neighbor_numbers_reference_' + ('empty' if not ref else 'given'))
            if g[0] != 'ok' or [int(v) for v in g[1]] != o:
                ctx.violation('property', 'calculate_neighbor_numbers(%s, reference=%r) = %s, expected %s' % (ss, ref, str(g)[:200], o),
                              dict(func='calculate_neighbor_numbers', seqs=ss, reference=sorted(ref), hamming=ham, alphabet=al),
                              site='distance.calculate_neighbor_numbers[reference]')
        g = call_impl(lambda: ds.isdist1(x, set(ss), neighborhood=nbf))
        if g[0] != 'ok' or bool(g[1]) != isd:
            ctx.violation('property', 'isdist1(%r, %s) = %s, expected %s' % (x, ss, g, isd),
                          dict(func='isdist1', x=x, ref=ss, hamming=ham, alphabet=al), site='distance.isdist1')
    # DENSE references over the 20-letter alphabet ("all reference sets"): a reference holding many (>= 128, >= 256, several hundred)
    # distance-1 partners of one query - complete one-edit balls, random sub-balls of every size, unions of balls, plus distractors
    # at distance 0 and 2.  Counts / indices must be exact whatever their magnitude (no narrow-integer wrap, no truncation).
    AA = gens.AA
    dcases = []                 # (ham, centre, seqs, reference or None, kind)
    lev_lens = [7, 8, rng.randint(9, 13), rng.randint(4, 6)] + ([] if ctx.quick else [rng.randint(7, 16) for _ in range(12)])
    ham_lens = [14, rng.randint(15, 19), rng.randint(7, 13)] + ([] if ctx.quick else [rng.randint(14, 24) for _ in range(8)])
    centres = [(False, ''.join(rng.choice(AA) for _ in range(n))) for n in lev_lens]
    centres.append((False, rng.choice(AA) * rng.randint(7, 10)))                                  # homopolymer
    centres.append((False, ''.join(rng.choice('AC') * rng.randint(2, 3) for _ in range(4))))      # runs of repeated letters
    centres += [(True, ''.join(rng.choice(AA) for _ in range(n))) for n in ham_lens]
    centres.append((True, rng.choice(AA) * rng.randint(14, 16)))
    balls = ctx.oracle.run_parallel([('api_ham_nbrs_pos', [AA, list(range(len(c))), c]) if ham else ('api_lev_nbrs', [AA, c]) for ham, c in centres])
    for k, ((ham, c), ball) in enumerate(zip(centres, balls)):
        ball = list(ball)
        far = [gens.mutate(rng, c, AA, 2) for _ in range(6)]                       # mostly distance 2, sometimes 0 / 1
        members = rng.sample(ball, min(4, len(ball)))
        seqs = list(dict.fromkeys([c] + members + far + ['', c[:-1] + 'W' if c[-1:] != 'W' else c[:-1] + 'Y']))
        rng.shuffle(seqs)
        sub = rng.sample(ball, rng.randint(0, len(ball)))
        sub_big = rng.sample(ball, rng.randint(min(len(ball), 256), len(ball)))
        c2 = rng.choice(ball)
        dcases.append((ham, c, seqs, set(ball), 'complete ball'))
        dcases.append((ham, c, seqs, set(ball) | {c} | set(far), 'complete ball + centre + distractors'))
        dcases.append((ham, c, seqs, set(sub) | set(far[:2]), 'random sub-ball of %d' % len(sub)))
        dcases.append((ham, c, seqs, set(sub_big), 'random sub-ball of %d' % len(sub_big)))
        if k % 3 == 0 or not ctx.quick:
            ball2 = ctx.oracle.run([('api_ham_nbrs_pos', [AA, list(range(len(c2))), c2]) if ham else ('api_lev_nbrs', [AA, c2])])[0]
            dcases.append((ham, c, list(dict.fromkeys(seqs + [c2])), set(ball) | set(ball2), 'union of the balls of two adjacent centres'))
        if k in (0, len(lev_lens) + 2) or (not ctx.quick and k % 4 == 1):
            # reference=None: the collection itself is the reference (duplicate-free: centre + its complete ball, > 256 sequences)
            own = [c] + ball
            rng.shuffle(own)
            dcases.append((ham, c, own, None, 'reference=None, seqs = centre + complete ball'))
    douts = ctx.oracle.run_parallel([('api_neighbor_numbers', [ham, AA, seqs, sorted(set(seqs) if ref is None else ref)])
                                     for ham, c, seqs, ref, kind in dcases])
    for (ham, c, seqs, ref, kind), o in zip(dcases, douts):
        nbf = ds.hamming_neighbors if ham else ds.levenshtein_neighbors
        mx = max(o) if o else 0
        ctx.case(sample=dict(func='calculate_neighbor_numbers', centre=c, hamming=ham, reference=kind, n_reference=len(seqs if ref is None else ref),
                             max_count=mx) if mx >= 256 and kind == 'complete ball' and len(c) in (7, 14) else None,
                 nontrivial_key=('nnum-dense', ham, c, kind) if mx >= 128 else None)
        ctx.count('neighbor_numbers_dense_max_count_' + ('>=256' if mx >= 256 else '128..255' if mx >= 128 else '<128'))
        if ref is None:
            g = call_impl(lambda: ds.calculate_neighbor_numbers(seqs, neighborhood=nbf))
        else:
            g = call_impl(lambda: ds.calculate_neighbor_numbers(seqs, reference=set(ref), neighborhood=nbf))
        got = [int(v) for v in g[1]] if g[0] == 'ok' else None
        if got != o:
            bad = [(s, a, b) for s, a, b in zip(seqs, got, o) if a != b][:3] if got is not None and len(got) == len(o) else str(g)[:200]
            ctx.violation('property', 'calculate_neighbor_numbers with a dense reference (%s of %r, %d sequences, %s neighbourhood): '
                          '(sequence, reported, true number of distance-1 partners) = %s' %
                          (kind, c, len(seqs if ref is None else ref), 'hamming' if ham else 'levenshtein', bad),
                          dict(func='calculate_neighbor_numbers', seqs=seqs, reference=None if ref is None else sorted(ref), hamming=ham,
                               alphabet=AA, centre=c, reference_kind=kind, expected=o, got=got if got is not None else str(g)[:200]),
                          site='distance.calculate_neighbor_numbers[dense reference]')
            if len(ctx.violations) > 5:
                return
        if ref is None:
            # the same dense collection through the pair utilities: > 256 sequences, so pair indices exceed 255
            fp = ctx.oracle.run([('api_find_pairs', [ham, AA, sorted(set(seqs))])])[0]
            pset = {tuple(sorted(p)) for p in fp}
            g = call_impl(lambda: ds.find_neighbor_pairs(seqs, neighborhood=nbf))
            if g[0] != 'ok' or sorted(tuple(sorted(p)) for p in g[1]) != sorted(pset) or len(fp) != len(pset):
                ctx.violation('property', 'find_neighbor_pairs(centre %r + its complete %s ball, %d sequences) returns %s pairs, expected each of the %d '
                              'unordered distance-1 pairs once' % (c, 'hamming' if ham else 'levenshtein', len(seqs),
                                                                  len(g[1]) if g[0] == 'ok' else str(g)[:200], len(pset)),
                              dict(func='find_neighbor_pairs', seqs=seqs, hamming=ham, alphabet=AA), site='distance.find_neighbor_pairs[dense]')
            pos = {s: i for i, s in enumerate(seqs)}
            exp_idx = sorted([(pos[a], pos[b]) for a, b in pset] + [(pos[b], pos[a]) for a, b in pset])
            g = call_impl(lambda: ds.find_neighbor_pairs_index(seqs, neighborhood=nbf))
            gi = sorted((int(a), int(b)) for a, b in g[1]) if g[0] == 'ok' else None
            if gi != exp_idx:
                diff = sorted(set(gi) ^ set(exp_idx))[:4] if gi is not None else str(g)[:200]
                ctx.violation('property', 'find_neighbor_pairs_index(centre %r + its complete %s ball, %d sequences): %s index pairs, expected %d; '
                              'first differing index pairs %s' % (c, 'hamming' if ham else 'levenshtein', len(seqs),
                                                                 len(gi) if gi is not None else '-', len(exp_idx), diff),
                              dict(func='find_neighbor_pairs_index', seqs=seqs, hamming=ham, alphabet=AA), site='distance.find_neighbor_pairs_index[dense]')
            ctx.case(nontrivial_key=('pairs-dense', ham, c) if len(seqs) > 256 else None)
    # nndist_hamming (alphabet is the amino acids)
    nreq, ncase = [], []
    for _ in range(60 if ctx.quick else 6000):
        Lx = rng.randint(1, 5)
        x = ''.join(rng.choice('ACD') for _ in range(Lx))
        ref = [''.join(rng.choice('ACDEF') for _ in range(rng.choice([Lx, Lx, Lx + 1]))) for _ in range(rng.randint(0, 5))]
        if rng.random() < 0.4 and Lx >= 2:
            # nearest reference at distance exactly 2 or 3 with the mismatches in the LAST positions (the loop bounds' corner)
            d = rng.choice([2, 3]) if Lx >= 3 else 2
            ref = [x[:Lx - d] + ''.join(rng.choice([c for c in 'ACDEF' if c != x[i]]) for i in range(Lx - d, Lx))] + \
                  [r for r in ref if len(r) != Lx][:2]
        md = rng.randint(1, 4)
        ncase.append((x, ref, md))
        nreq.append(('api_nndist_ham', [md, x, ref]))
    outs = ctx.oracle.run_parallel(nreq)
    # the algorithm-mirroring model of the loops (proved equal to the specification-level minimum: C12_nndist_is_spec_fold)
    outs_loops = ctx.oracle.run_parallel([('api_c12_nndist', [md, x, ref]) for x, ref, md in ncase])
    aux = ctx.oracle.run_parallel([('api_c12_isdist2', [x, ref]) for x, ref, md in ncase] + [('api_c12_isdist3', [x, ref]) for x, ref, md in ncase])
    for n, ((x, ref, md), o, ol) in enumerate(zip(ncase, outs, outs_loops)):
        g = call_impl(lambda: ds.nndist_hamming(x, set(ref), maxdist=md))
        ctx.case(nontrivial_key=('nndist', x, tuple(ref), md) if o < md else None)
        ctx.count('nndist=%d' % o)
        if ol != o:
            ctx.violation('correspondence', 'loop model %s and specification-level minimum %s differ on %r %s maxdist=%d' % (ol, o, x, ref, md),
                          dict(x=x, ref=ref, maxdist=md), site='model.nndist')
        for nm, exp in (('_isdist2_hamming', aux[n]), ('_isdist3_hamming', aux[len(ncase) + n])):
            if hasattr(ds, nm):        # private helpers: auxiliary localisation only
                h = call_impl(getattr(ds, nm), x, set(ref))
                if h[0] != 'ok' or bool(h[1]) != exp:
                    ctx.note('%s(%r, %s) = %s, loop model %s' % (nm, x, ref, h, exp))
        if n < 20:
            ctx.add_vm('api_c12_nndist', [md, x, ref], ol)
        if g[0] != 'ok' or int(g[1]) != o:
            ctx.violation('property', 'nndist_hamming(%r, %s, maxdist=%d) = %s, expected %d' % (x, ref, md, g, o),
                          dict(func='nndist_hamming', x=x, ref=ref, maxdist=md), site='distance.nndist_hamming')
    ctx.assumptions += ['find_neighbor_pairs_index / calculate_neighbor_numbers on duplicate-free input (docstring requirement)',
                        'nndist_hamming: the enumeration loops are modelled (subs2 / subs3) and proved equal to the capped minimum for references over the amino-acid letters']


def replay(ctx, obj):
    run(ctx)
