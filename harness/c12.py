"""C12 - one-edit neighbourhood generators and the set utilities on them are exact."""
import itertools
import numpy as np
import gens
from gens import all_strings
from core import call_impl


def run(ctx):
    _base(ctx)
    if len(ctx.violations) <= 5:
        _wide(ctx)


def _base(ctx):
    import pyrepseq.distance as ds
    rng = ctx.rng
    ctx.rule = ('(a) levenshtein_neighbors / hamming_neighbors as yielded LISTS (order and duplicates visible) for every string of '
                'length 0..L over alphabets of 1, 2, 3 letters and 0..L-1 over 4 letters, plus random strings with long runs over 20 '
                'letters and explicit variable_positions; (b) next_nearest_neighbors maxdistance 1..3; (c) find_neighbor_pairs, '
                'find_neighbor_pairs_index, calculate_neighbor_numbers, isdist1, nndist_hamming on subsets of the short binary strings '
                'and random amino-acid sets. non-trivial := the string has a run of repeated letters (the duplicate-suppression case) '
                'or the reference set contains a neighbour; (d) [audit widening] the same functions with omitted / positional / keyword '
                'arguments, other container kinds for alphabet, positions, sequences and references, long strings (127..300), letters '
                'outside the alphabet, repeated calls on objects modified in place, larger sparse collections, amino-acid '
                'next-nearest neighbourhoods and long / full-alphabet nndist_hamming cases')
    L = 4 if ctx.quick else 6
    strs = []
    for alpha in ('A', 'AC', 'ACD'):
        strs += [(alpha, s) for s in all_strings(alpha, L)]
    strs += [('ACDE', s) for s in all_strings('ACDE', L - 1)]
    for _ in range(150 if ctx.quick else 2000):
        s = ''.join(rng.choice('AACD' if rng.random() < 0.5 else gens.AA) * rng.randint(1, 3) for _ in range(rng.randint(0, 6)))
        strs.append((gens.AA, s))
    ctx.exhaustive = True
    reqs = [('api_lev_nbrs', [al, s]) for al, s in strs]
    outs = ctx.oracle.run_parallel(reqs)
    for n, ((al, s), o) in enumerate(zip(strs, outs)):
        g = call_impl(lambda: list(ds.levenshtein_neighbors(s, al)))
        run_ = any(a == b for a, b in zip(s, s[1:]))
        ctx.case(sample=dict(func='levenshtein_neighbors', x=s, alphabet=al, n_neighbours=len(o)) if run_ and n % 200 == 0 else None,
                 nontrivial_key=('lev', al, s) if run_ else None)
        if n % 40 == 0 and len(o) < 80:
            ctx.add_vm('api_lev_nbrs', [al, s], o)
        if g[0] != 'ok' or g[1] != o:
            detail = g[1] if g[0] != 'ok' else dict(missing=sorted(set(o) - set(g[1]))[:4], spurious=sorted(set(g[1]) - set(o))[:4],
                                                    duplicates=len(g[1]) - len(set(g[1])), order_differs=sorted(g[1]) == sorted(o))
            ctx.violation('property', 'levenshtein_neighbors(%r, %r) differs from the proved generator: %s' % (s, al, detail),
                          dict(func='levenshtein_neighbors', x=s, alphabet=al, detail=str(detail)), site='distance.levenshtein_neighbors')
            if len(ctx.violations) > 5:
                return
    # hamming_neighbors with all / explicit positions
    hreq, hcase = [], []
    for al, s in strs[::3]:
        pos = list(range(len(s)))
        mode = rng.choice(['all', 'subset', 'shuffled'])
        if mode == 'subset':
            pos = sorted(rng.sample(pos, rng.randint(0, len(pos)))) if pos else []
        elif mode == 'shuffled':
            rng.shuffle(pos)
        hcase.append((al, s, pos, mode))
        hreq.append(('api_ham_nbrs_pos', [al, pos, s]))
    outs = ctx.oracle.run_parallel(hreq)
    for (al, s, pos, mode), o in zip(hcase, outs):
        g = call_impl(lambda: list(ds.hamming_neighbors(s, al) if mode == 'all' else ds.hamming_neighbors(s, al, variable_positions=pos)))
        ctx.case(nontrivial_key=('ham', al, s, tuple(pos)) if s else None)
        if g[0] != 'ok' or g[1] != o:
            ctx.violation('property', 'hamming_neighbors(%r, %r, positions=%s) differs from the proved generator' % (s, al, pos),
                          dict(func='hamming_neighbors', x=s, alphabet=al, positions=pos, got=str(g)[:300]), site='distance.hamming_neighbors')
    # next_nearest_neighbors
    nreq, ncase = [], []
    for al, s in [(a, s) for a, s in strs if len(a) <= 3 and len(s) <= 3][::2] + [(a, s) for a, s in strs if len(a) == 20 and len(s) <= 2][:4]:
        for m in (1, 2, 3):
            if (len(al) == 20 and m >= 2) or (len(al) == 3 and len(s) == 3 and m == 3):
                continue
            ham = rng.random() < 0.4
            ncase.append((al, s, m, ham))
            nreq.append(('api_next_nearest', [ham, al, m, s]))
    outs = ctx.oracle.run_parallel(nreq)
    for (al, s, m, ham), o in zip(ncase, outs):
        nbf = (lambda x: ds.hamming_neighbors(x, al)) if ham else (lambda x: ds.levenshtein_neighbors(x, al))
        g = call_impl(lambda: ds.next_nearest_neighbors(s, nbf, maxdistance=m))
        ctx.case(nontrivial_key=('nnn', al, s, m, ham) if o else None)
        if g[0] != 'ok' or sorted(g[1]) != sorted(o):
            ctx.violation('property', 'next_nearest_neighbors(%r, %s over %r, maxdistance=%d) differs from the proved set' %
                          (s, 'hamming' if ham else 'levenshtein', al, m),
                          dict(func='next_nearest_neighbors', x=s, alphabet=al, m=m, hamming=ham, got=str(g)[:300]),
                          site='distance.next_nearest_neighbors')
    # set utilities
    uni = all_strings('AC', 3)
    sets = []
    for _ in range(60 if ctx.quick else 6000):
        sets.append(('AC', rng.sample(uni, rng.randint(0, min(8, len(uni))))))
    for _ in range(20 if ctx.quick else 1500):
        root = ''.join(rng.choice(gens.AA) for _ in range(rng.randint(2, 7)))
        ss = list({gens.mutate(rng, root, gens.AA, rng.randint(0, 3)) for _ in range(rng.randint(1, 8))})
        sets.append((gens.AA, ss))
    ureq = []
    for al, ss in sets:
        ham = len(al) == 20 and rng.random() < 0.5
        x = rng.choice(ss) if ss and rng.random() < 0.5 else ''.join(rng.choice(al) for _ in range(rng.randint(0, 4)))
        ureq.append((al, ss, ham, x))
    reqs = []
    for al, ss, ham, x in ureq:
        reqs += [('api_find_pairs', [ham, al, sorted(set(ss))]), ('api_neighbor_numbers', [ham, al, ss, sorted(set(ss))]),
                 ('api_isdist1', [ham, al, x, ss])]
    outs = ctx.oracle.run_parallel(reqs)
    # explicit reference argument: empty, a sub-collection, a different collection (one batched oracle call for all of them)
    refsets = [(set(), set(ss[:len(ss) // 2]), set(ss) | {x}) for al, ss, ham, x in ureq]
    refouts = ctx.oracle.run_parallel([('api_neighbor_numbers', [ham, al, ss, sorted(ref)])
                                       for (al, ss, ham, x), refs in zip(ureq, refsets) for ref in refs])
    for n, (al, ss, ham, x) in enumerate(ureq):
        fp, nnum, isd = outs[3 * n:3 * n + 3]
        nbf = (lambda s: ds.hamming_neighbors(s, al)) if ham else (lambda s: ds.levenshtein_neighbors(s, al))
        nt = bool(fp)
        ctx.case(sample=dict(func='find_neighbor_pairs', seqs=ss, hamming=ham, pairs=fp[:5]) if nt and n % 25 == 0 else None,
                 nontrivial_key=('util', al, tuple(ss), ham, x) if nt else None)
        # repeated sequences in the input must not repeat a pair (the statement: each unordered pair of DISTINCT sequences once)
        ss_fp = ss + [rng.choice(ss) for _ in range(rng.randint(1, 3))] if ss and n % 3 == 0 else ss
        if ss_fp is not ss:
            rng.shuffle(ss_fp)
            ctx.count('find_pairs_input_with_repeats')
        g = call_impl(lambda: ds.find_neighbor_pairs(ss_fp, neighborhood=nbf))
        # each unordered pair once: compare as a set of frozensets plus multiplicity
        ok = g[0] == 'ok' and sorted(tuple(sorted(p)) for p in g[1]) == sorted(tuple(sorted(p)) for p in fp)
        if not ok:
            ctx.violation('property', 'find_neighbor_pairs(%s) = %s, expected each unordered distance-1 pair once: %s' % (ss_fp, str(g)[:200], fp),
                          dict(func='find_neighbor_pairs', seqs=ss_fp, hamming=ham, alphabet=al), site='distance.find_neighbor_pairs')
        # the same collection object handed over again (a set of unique sequences is the natural argument; also a tuple): the second
        # answer is the same list of pairs, and the collection still holds what it held
        if ss and n % 2 == 1:
            cont = set(ss) if n % 4 == 1 else tuple(ss)
            ctx.count('find_pairs_same_%s_twice' % type(cont).__name__)
            g1 = call_impl(lambda: ds.find_neighbor_pairs(cont, neighborhood=nbf))
            g2 = call_impl(lambda: ds.find_neighbor_pairs(cont, neighborhood=nbf))
            want = sorted(tuple(sorted(p)) for p in fp)
            bad = [k for k, gg in (('first', g1), ('second', g2)) if gg[0] != 'ok' or sorted(tuple(sorted(p)) for p in gg[1]) != want]
            if bad or sorted(cont) != sorted(set(ss) if isinstance(cont, set) else ss):
                ctx.violation('property', 'find_neighbor_pairs on the same %s %s, called twice: %s; the collection holds %s afterwards; '
                              'expected each unordered distance-1 pair once both times: %s' % (
                                  type(cont).__name__, sorted(ss), '; '.join('%s call -> %s' % (k, str(gg)[:120]) for k, gg in (('first', g1), ('second', g2))),
                                  sorted(cont), fp),
                              dict(func='find_neighbor_pairs_twice', seqs=ss, container=type(cont).__name__, hamming=ham, alphabet=al),
                              site='distance.find_neighbor_pairs[same object twice]')
        g = call_impl(lambda: ds.find_neighbor_pairs_index(ss, neighborhood=nbf))
        exp_idx = sorted((i, j) for i in range(len(ss)) for j in range(len(ss))
                         if tuple(sorted((ss[i], ss[j]))) in {tuple(sorted(p)) for p in fp} and ss[i] != ss[j])
        if g[0] != 'ok' or sorted((int(a), int(b)) for a, b in g[1]) != exp_idx:
            ctx.violation('property', 'find_neighbor_pairs_index(%s) = %s, expected %s' % (ss, str(g)[:200], exp_idx),
                          dict(func='find_neighbor_pairs_index', seqs=ss, hamming=ham, alphabet=al), site='distance.find_neighbor_pairs_index')
        g = call_impl(lambda: ds.calculate_neighbor_numbers(ss, neighborhood=nbf))
        if g[0] != 'ok' or [int(v) for v in g[1]] != nnum:
            ctx.violation('property', 'calculate_neighbor_numbers(%s) = %s, expected %s' % (ss, str(g)[:200], nnum),
                          dict(func='calculate_neighbor_numbers', seqs=ss, hamming=ham, alphabet=al), site='distance.calculate_neighbor_numbers')
        # explicit reference argument: empty (set and list), a sub-collection, a different collection
        for r, ref in enumerate(refsets[n]):      # reference SETS (the stated domain; a list raises TypeError in set & list)
            o = refouts[3 * n + r]
            g = call_impl(lambda: ds.calculate_neighbor_numbers(ss, reference=set(ref), neighborhood=nbf))
            ctx.case(nontrivial_key=('nnum-ref', tuple(ss), tuple(sorted(ref))) if any(o) else None)
            ctx.count('neighbor_numbers_reference_' + ('empty' if not ref else 'given'))
            if g[0] != 'ok' or [int(v) for v in g[1]] != o:
                ctx.violation('property', 'calculate_neighbor_numbers(%s, reference=%r) = %s, expected %s' % (ss, ref, str(g)[:200], o),
                              dict(func='calculate_neighbor_numbers', seqs=ss, reference=sorted(ref), hamming=ham, alphabet=al),
                              site='distance.calculate_neighbor_numbers[reference]')
        g = call_impl(lambda: ds.isdist1(x, set(ss), neighborhood=nbf))
        if g[0] != 'ok' or bool(g[1]) != isd:
            ctx.violation('property', 'isdist1(%r, %s) = %s, expected %s' % (x, ss, g, isd),
                          dict(func='isdist1', x=x, ref=ss, hamming=ham, alphabet=al), site='distance.isdist1')
    # DENSE references over the 20-letter alphabet ("all reference sets"): a reference holding many (>= 128, >= 256, several hundred)
    # distance-1 partners of one query - complete one-edit balls, random sub-balls of every size, unions of balls, plus distractors
    # at distance 0 and 2.  Counts / indices must be exact whatever their magnitude (no narrow-integer wrap, no truncation).
    AA = gens.AA
    dcases = []                 # (ham, centre, seqs, reference or None, kind)
    lev_lens = [7, 8, rng.randint(9, 13), rng.randint(4, 6)] + ([] if ctx.quick else [rng.randint(7, 16) for _ in range(12)])
    ham_lens = [14, rng.randint(15, 19), rng.randint(7, 13)] + ([] if ctx.quick else [rng.randint(14, 24) for _ in range(8)])
    centres = [(False, ''.join(rng.choice(AA) for _ in range(n))) for n in lev_lens]
    centres.append((False, rng.choice(AA) * rng.randint(7, 10)))                                  # homopolymer
    centres.append((False, ''.join(rng.choice('AC') * rng.randint(2, 3) for _ in range(4))))      # runs of repeated letters
    centres += [(True, ''.join(rng.choice(AA) for _ in range(n))) for n in ham_lens]
    centres.append((True, rng.choice(AA) * rng.randint(14, 16)))
    balls = ctx.oracle.run_parallel([('api_ham_nbrs_pos', [AA, list(range(len(c))), c]) if ham else ('api_lev_nbrs', [AA, c]) for ham, c in centres])
    for k, ((ham, c), ball) in enumerate(zip(centres, balls)):
        ball = list(ball)
        far = [gens.mutate(rng, c, AA, 2) for _ in range(6)]                       # mostly distance 2, sometimes 0 / 1
        members = rng.sample(ball, min(4, len(ball)))
        seqs = list(dict.fromkeys([c] + members + far + ['', c[:-1] + 'W' if c[-1:] != 'W' else c[:-1] + 'Y']))
        rng.shuffle(seqs)
        sub = rng.sample(ball, rng.randint(0, len(ball)))
        sub_big = rng.sample(ball, rng.randint(min(len(ball), 256), len(ball)))
        c2 = rng.choice(ball)
        dcases.append((ham, c, seqs, set(ball), 'complete ball'))
        dcases.append((ham, c, seqs, set(ball) | {c} | set(far), 'complete ball + centre + distractors'))
        dcases.append((ham, c, seqs, set(sub) | set(far[:2]), 'random sub-ball of %d' % len(sub)))
        dcases.append((ham, c, seqs, set(sub_big), 'random sub-ball of %d' % len(sub_big)))
        if k % 3 == 0 or not ctx.quick:
            ball2 = ctx.oracle.run([('api_ham_nbrs_pos', [AA, list(range(len(c2))), c2]) if ham else ('api_lev_nbrs', [AA, c2])])[0]
            dcases.append((ham, c, list(dict.fromkeys(seqs + [c2])), set(ball) | set(ball2), 'union of the balls of two adjacent centres'))
        if k in (0, len(lev_lens) + 2) or (not ctx.quick and k % 4 == 1):
            # reference=None: the collection itself is the reference (duplicate-free: centre + its complete ball, > 256 sequences)
            own = [c] + ball
            rng.shuffle(own)
            dcases.append((ham, c, own, None, 'reference=None, seqs = centre + complete ball'))
    douts = ctx.oracle.run_parallel([('api_neighbor_numbers', [ham, AA, seqs, sorted(set(seqs) if ref is None else ref)])
                                     for ham, c, seqs, ref, kind in dcases])
    for (ham, c, seqs, ref, kind), o in zip(dcases, douts):
        nbf = ds.hamming_neighbors if ham else ds.levenshtein_neighbors
        mx = max(o) if o else 0
        ctx.case(sample=dict(func='calculate_neighbor_numbers', centre=c, hamming=ham, reference=kind, n_reference=len(seqs if ref is None else ref),
                             max_count=mx) if mx >= 256 and kind == 'complete ball' and len(c) in (7, 14) else None,
                 nontrivial_key=('nnum-dense', ham, c, kind) if mx >= 128 else None)
        ctx.count('neighbor_numbers_dense_max_count_' + ('>=256' if mx >= 256 else '128..255' if mx >= 128 else '<128'))
        if ref is None:
            g = call_impl(lambda: ds.calculate_neighbor_numbers(seqs, neighborhood=nbf))
        else:
            g = call_impl(lambda: ds.calculate_neighbor_numbers(seqs, reference=set(ref), neighborhood=nbf))
        got = [int(v) for v in g[1]] if g[0] == 'ok' else None
        if got != o:
            bad = [(s, a, b) for s, a, b in zip(seqs, got, o) if a != b][:3] if got is not None and len(got) == len(o) else str(g)[:200]
            ctx.violation('property', 'calculate_neighbor_numbers with a dense reference (%s of %r, %d sequences, %s neighbourhood): '
                          '(sequence, reported, true number of distance-1 partners) = %s' %
                          (kind, c, len(seqs if ref is None else ref), 'hamming' if ham else 'levenshtein', bad),
                          dict(func='calculate_neighbor_numbers', seqs=seqs, reference=None if ref is None else sorted(ref), hamming=ham,
                               alphabet=AA, centre=c, reference_kind=kind, expected=o, got=got if got is not None else str(g)[:200]),
                          site='distance.calculate_neighbor_numbers[dense reference]')
            if len(ctx.violations) > 5:
                return
        if ref is None:
            # the same dense collection through the pair utilities: > 256 sequences, so pair indices exceed 255
            fp = ctx.oracle.run([('api_find_pairs', [ham, AA, sorted(set(seqs))])])[0]
            pset = {tuple(sorted(p)) for p in fp}
            g = call_impl(lambda: ds.find_neighbor_pairs(seqs, neighborhood=nbf))
            if g[0] != 'ok' or sorted(tuple(sorted(p)) for p in g[1]) != sorted(pset) or len(fp) != len(pset):
                ctx.violation('property', 'find_neighbor_pairs(centre %r + its complete %s ball, %d sequences) returns %s pairs, expected each of the %d '
                              'unordered distance-1 pairs once' % (c, 'hamming' if ham else 'levenshtein', len(seqs),
                                                                  len(g[1]) if g[0] == 'ok' else str(g)[:200], len(pset)),
                              dict(func='find_neighbor_pairs', seqs=seqs, hamming=ham, alphabet=AA), site='distance.find_neighbor_pairs[dense]')
            pos = {s: i for i, s in enumerate(seqs)}
            exp_idx = sorted([(pos[a], pos[b]) for a, b in pset] + [(pos[b], pos[a]) for a, b in pset])
            g = call_impl(lambda: ds.find_neighbor_pairs_index(seqs, neighborhood=nbf))
            gi = sorted((int(a), int(b)) for a, b in g[1]) if g[0] == 'ok' else None
            if gi != exp_idx:
                diff = sorted(set(gi) ^ set(exp_idx))[:4] if gi is not None else str(g)[:200]
                ctx.violation('property', 'find_neighbor_pairs_index(centre %r + its complete %s ball, %d sequences): %s index pairs, expected %d; '
                              'first differing index pairs %s' % (c, 'hamming' if ham else 'levenshtein', len(seqs),
                                                                 len(gi) if gi is not None else '-', len(exp_idx), diff),
                              dict(func='find_neighbor_pairs_index', seqs=seqs, hamming=ham, alphabet=AA), site='distance.find_neighbor_pairs_index[dense]')
            ctx.case(nontrivial_key=('pairs-dense', ham, c) if len(seqs) > 256 else None)
    # nndist_hamming (alphabet is the amino acids)
    nreq, ncase = [], []
    for _ in range(60 if ctx.quick else 6000):
        Lx = rng.randint(1, 5)
        x = ''.join(rng.choice('ACD') for _ in range(Lx))
        ref = [''.join(rng.choice('ACDEF') for _ in range(rng.choice([Lx, Lx, Lx + 1]))) for _ in range(rng.randint(0, 5))]
        if rng.random() < 0.4 and Lx >= 2:
            # nearest reference at distance exactly 2 or 3 with the mismatches in the LAST positions (the loop bounds' corner)
            d = rng.choice([2, 3]) if Lx >= 3 else 2
            ref = [x[:Lx - d] + ''.join(rng.choice([c for c in 'ACDEF' if c != x[i]]) for i in range(Lx - d, Lx))] + \
                  [r for r in ref if len(r) != Lx][:2]
        md = rng.randint(1, 4)
        ncase.append((x, ref, md))
        nreq.append(('api_nndist_ham', [md, x, ref]))
    outs = ctx.oracle.run_parallel(nreq)
    # the algorithm-mirroring model of the loops (proved equal to the specification-level minimum: C12_nndist_is_spec_fold)
    outs_loops = ctx.oracle.run_parallel([('api_c12_nndist', [md, x, ref]) for x, ref, md in ncase])
    aux = ctx.oracle.run_parallel([('api_c12_isdist2', [x, ref]) for x, ref, md in ncase] + [('api_c12_isdist3', [x, ref]) for x, ref, md in ncase])
    for n, ((x, ref, md), o, ol) in enumerate(zip(ncase, outs, outs_loops)):
        g = call_impl(lambda: ds.nndist_hamming(x, set(ref), maxdist=md))
        ctx.case(nontrivial_key=('nndist', x, tuple(ref), md) if o < md else None)
        ctx.count('nndist=%d' % o)
        if ol != o:
            ctx.violation('correspondence', 'loop model %s and specification-level minimum %s differ on %r %s maxdist=%d' % (ol, o, x, ref, md),
                          dict(x=x, ref=ref, maxdist=md), site='model.nndist')
        for nm, exp in (('_isdist2_hamming', aux[n]), ('_isdist3_hamming', aux[len(ncase) + n])):
            if hasattr(ds, nm):        # private helpers: auxiliary localisation only
                h = call_impl(getattr(ds, nm), x, set(ref))
                if h[0] != 'ok' or bool(h[1]) != exp:
                    ctx.note('%s(%r, %s) = %s, loop model %s' % (nm, x, ref, h, exp))
        if n < 20:
            ctx.add_vm('api_c12_nndist', [md, x, ref], ol)
        if g[0] != 'ok' or int(g[1]) != o:
            ctx.violation('property', 'nndist_hamming(%r, %s, maxdist=%d) = %s, expected %d' % (x, ref, md, g, o),
                          dict(func='nndist_hamming', x=x, ref=ref, maxdist=md), site='distance.nndist_hamming')
    ctx.assumptions += ['find_neighbor_pairs_index / calculate_neighbor_numbers on duplicate-free input (docstring requirement)',
                        'nndist_hamming: the enumeration loops are modelled (subs2 / subs3) and proved equal to the capped minimum for references over the amino-acid letters']


# ---------------------------------------------------------------------------------------------------------------------------------
# Audit widening: argument kinds, container kinds, sizes and call histories of the same functions that the base part never generated.
# Every expected value comes from the proved model (oracle) or from the stated specification computed with the proved one-step
# generators; nothing is taken from the implementation.
def _pc(ps):
    """canonical form of a list of sequence pairs: sorted list of sorted (str, str)"""
    return sorted(tuple(sorted((str(a), str(b)))) for a, b in ps)


def _mk_alphabet(kind, al):
    return {'str': lambda: al, 'kw': lambda: al, 'list': lambda: list(al), 'tuple': lambda: tuple(al),
            'ndarray': lambda: np.array(list(al)), 'dict': lambda: dict.fromkeys(al), 'set': lambda: set(al),
            'frozenset': lambda: frozenset(al)}[kind]()


def _mk_positions(kind, pos):
    return {'list': lambda: list(pos), 'kw_list': lambda: list(pos), 'positional': lambda: list(pos), 'tuple': lambda: tuple(pos),
            'ndarray': lambda: np.array(pos, dtype=np.int64), 'np_ints_in_list': lambda: [np.int64(i) for i in pos],
            'generator': lambda: (i for i in pos), 'iter': lambda: iter(list(pos)), 'dict': lambda: dict.fromkeys(pos),
            'set': lambda: set(pos), 'range': lambda: range(pos[0], pos[-1] + 1) if pos else range(0)}[kind]()


def _mk_container(kind, ss, rng):
    import pandas as pd
    ss = list(ss)
    if kind == 'list':
        return ss
    if kind == 'tuple':
        return tuple(ss)
    if kind == 'frozenset':
        return frozenset(ss)
    if kind == 'ndarray_U':
        return np.array(ss, dtype=str)
    if kind == 'ndarray_O':
        return np.array(ss, dtype=object)
    if kind == 'series_default':
        return pd.Series(ss) if ss else pd.Series(ss, dtype=object)
    if kind == 'series_object':
        return pd.Series(ss, dtype=object)
    if kind == 'series_shifted':
        return pd.Series(ss, index=range(7, 7 + len(ss)), dtype=object)
    if kind == 'series_permuted':
        idx = list(range(len(ss)))
        rng.shuffle(idx)
        return pd.Series(ss, index=idx, dtype=object)
    if kind == 'series_str':
        return pd.Series(ss, index=['r%d' % i for i in range(len(ss))], dtype=object)
    raise ValueError(kind)


def _call_generator(ds, c):
    """one call of levenshtein_neighbors / hamming_neighbors as described by the case dict c; returns the generator"""
    x = np.str_(c['x']) if c.get('xkind') == 'np.str_' else c['x']
    f = ds.levenshtein_neighbors if c['func'] == 'lev' else ds.hamming_neighbors
    args, kw = [x], {}
    ak, pk = c['al_kind'], c.get('pos_kind')
    if ak == 'kw':
        kw['alphabet'] = c['al']
    elif ak != 'omitted':
        args.append(_mk_alphabet(ak, c['al']))
    if pk is not None:
        if pk == 'positional':
            args.append(_mk_positions(pk, c['pos']))          # third positional argument (the alphabet is positional then)
        else:
            kw['variable_positions'] = _mk_positions(pk, c['pos'])
    return f(*args, **kw)


def _gen_request(c):
    if c['func'] == 'lev':
        return ('api_lev_nbrs', [c['al'], c['x']])
    return ('api_ham_nbrs_pos', [c['al'], list(range(len(c['x']))) if c.get('pos') is None else list(c['pos']), c['x']])


def _reach_spec(orc, ham, al, x, m, pos=None):
    """{y <> x : y is reached from x by 1..m steps of the PROVED one-step generator} - the right-hand side of C12_next_nearest,
    computed as a plain union over the oracle's lev_nbrs / ham_nbrs_pos lists"""
    seen, frontier, out = {x}, [x], set()
    for _ in range(m):
        if ham:
            reqs = [('api_ham_nbrs_pos', [al, list(range(len(y))) if pos is None else list(pos), y]) for y in frontier]
        else:
            reqs = [('api_lev_nbrs', [al, y]) for y in frontier]
        new = set()
        for o in orc.run_parallel(reqs):
            new.update(o)
        out |= new
        frontier = sorted(new - seen)          # strings seen before were expanded before: their neighbours are in `out` already
        seen |= new
    out.discard(x)
    return out


def _wide(ctx):
    import functools
    import itertools as it
    import pyrepseq.distance as ds
    rng = ctx.rng
    orc = ctx.oracle
    AA = gens.AA

    def rstr(al, n, runs=True):
        return ''.join(rng.choice(al) * (rng.randint(1, 3) if runs else 1) for _ in range(n))

    # ------------------------------------------------------------------------------------------------ W1: the two generators
    gc = []
    nrep = 1 if ctx.quick else 8
    for _ in range(10 * nrep):                     # alphabet omitted (the default amino-acid alphabet), all three call forms
        x = rstr(AA if rng.random() < 0.6 else 'ACY', rng.randint(0, 5))
        gc.append(dict(func='lev', x=x, al=AA, al_kind='omitted'))
        gc.append(dict(func='ham', x=x, al=AA, al_kind='omitted'))
        pos = sorted(rng.sample(range(len(x)), rng.randint(0, len(x))))
        gc.append(dict(func='ham', x=x, al=AA, al_kind='omitted', pos=pos, pos_kind='kw_list'))
    alphabets = ['A', 'AC', 'CA', 'ACD', 'ACDE', AA, AA[::-1], 'acgt', '01', 'A*-', '_Xx', 'αβγ', 'Aé中']
    for al in alphabets * nrep:                    # alphabet container kinds; letters of every sort; x with letters outside the alphabet
        for ak in ('kw', 'list', 'tuple', 'ndarray', 'dict', 'set', 'frozenset', 'str'):
            inside = rng.random() < 0.6
            x = rstr(al if inside else al + 'XZ', rng.randint(0, 5))
            if rng.random() < 0.15:
                x = rstr('XZ', rng.randint(1, 3))                          # no letter of x is in the alphabet
            xkind = 'np.str_' if rng.random() < 0.25 else 'str'
            if rng.random() < 0.5:
                gc.append(dict(func='lev', x=x, al=al, al_kind=ak, xkind=xkind))
            else:
                pos = sorted(rng.sample(range(len(x)), rng.randint(0, len(x))))
                pk = rng.choice([None, 'kw_list', 'tuple', 'ndarray', 'generator', 'iter', 'dict', 'set', 'range', 'np_ints_in_list'] +
                                (['positional'] if ak != 'kw' else []))
                if pk == 'range' and pos:
                    pos = list(range(pos[0], pos[-1] + 1))
                gc.append(dict(func='ham', x=x, al=al, al_kind=ak, xkind=xkind, pos=None if pk is None else pos, pos_kind=pk))
    for k, pk in enumerate(['kw_list', 'tuple', 'ndarray', 'generator', 'iter', 'dict', 'set', 'range', 'np_ints_in_list', 'positional']):
        # every positions kind at least once, with an EMPTY, a one-element and a shuffled several-element selection
        x = rstr(AA, 6, runs=False)
        for pos in ([], [rng.randrange(len(x))], rng.sample(range(len(x)), 4)):
            if pk == 'range' and pos:
                pos = list(range(min(pos), max(pos) + 1))
            gc.append(dict(func='ham', x=x, al=AA if k % 2 else 'ACDY', al_kind='str', pos=pos, pos_kind=pk))
    # long strings: lengths around 127/128 and 255/256 and beyond, runs of every length, homopolymers; positions beyond 127 / 255
    longs = [(al, n) for al in ('AC', 'ACD') for n in (127, 128, 129, 255, 256, 257, rng.randint(258, 320))] + \
            [('A', 256), ('AC', 'homopolymer'), (AA, rng.randint(128, 140))]
    if not ctx.quick:
        longs += [(AA, 255), (AA, 256), (AA, rng.randint(257, 300)), ('ACDE', 1000)]
    for al, n in longs:
        if n == 'homopolymer':
            x = 'A' * rng.randint(256, 300)
        else:
            x = rstr(al, n)[:n] if rng.random() < 0.7 else ''.join(rng.choice(al) for _ in range(n))
        gc.append(dict(func='lev', x=x, al=al, al_kind='str'))
        pos = sorted(set([0, len(x) - 1] + [p for p in (126, 127, 128, 254, 255, 256) if p < len(x)] + rng.sample(range(len(x)), 5)))
        gc.append(dict(func='ham', x=x, al=al, al_kind='str', pos=pos, pos_kind=rng.choice(['kw_list', 'ndarray', 'tuple'])))
        gc.append(dict(func='ham', x=x, al=al, al_kind='str', pos=None, pos_kind=None))
    outs = orc.run_parallel([_gen_request(c) for c in gc])
    for c, o in zip(gc, outs):
        unordered = c['al_kind'] in ('set', 'frozenset') or c.get('pos_kind') == 'set'
        g = call_impl(lambda: list(_call_generator(ds, c)))
        ctx.case(nontrivial_key=('wgen', repr(sorted(c.items(), key=str))) if c['x'] else None)
        ctx.count('W1_alphabet_' + c['al_kind'])
        if c['func'] == 'ham':
            ctx.count('W1_positions_%s' % c.get('pos_kind'))
        if len(c['x']) >= 127:
            ctx.count('W1_long_x_%s' % ('>=256' if len(c['x']) >= 256 else '127..255'))
        if any(ch not in c['al'] for ch in c['x']):
            ctx.count('W1_x_has_letters_outside_alphabet')
        ok = g[0] == 'ok' and ((sorted(g[1]) == sorted(o)) if unordered else (g[1] == o)) and all(isinstance(y, str) for y in g[1])
        if not ok:
            if g[0] != 'ok':
                detail = g[1]
            else:
                detail = dict(n_got=len(g[1]), n_expected=len(o), missing=sorted(set(o) - set(g[1]))[:3], spurious=sorted(set(g[1]) - set(o))[:3],
                              duplicates=len(g[1]) - len(set(g[1])), same_multiset=sorted(g[1]) == sorted(o))
            name = 'levenshtein_neighbors' if c['func'] == 'lev' else 'hamming_neighbors'
            xs = c['x'] if len(c['x']) <= 40 else c['x'][:20] + '...(%d letters)' % len(c['x'])
            ctx.violation('property', '%s(%r, alphabet %r given as %s%s) differs from the proved generator: %s' % (
                name, xs, c['al'], c['al_kind'], '' if c.get('pos_kind') is None else ', variable_positions=%s given as %s' % (c['pos'], c['pos_kind']),
                detail), dict(c, func=name, detail=str(detail)), site='distance.%s[argument kinds]' % name)
            if len(ctx.violations) > 5:
                return
    # two live generators advanced alternately, and a partly consumed generator next to a fresh one on the same arguments
    short = [(c, o) for c, o in zip(gc, outs) if len(c['x']) <= 12 and c['al_kind'] not in ('set', 'frozenset') and c.get('pos_kind') != 'set']
    for _ in range(20 * nrep):
        (c1, o1), (c2, o2) = rng.choice(short), rng.choice(short)
        if rng.random() < 0.3:
            c2, o2 = c1, o1

        def interleaved():
            g1, g2 = _call_generator(ds, c1), _call_generator(ds, c2)
            r1, r2 = [], []
            for a, b in it.zip_longest(g1, g2):
                if a is not None:
                    r1.append(a)
                if b is not None:
                    r2.append(b)
            return r1, r2

        def partly():
            g1 = _call_generator(ds, c1)
            head = list(it.islice(g1, 2))
            fresh = list(_call_generator(ds, c1))
            return head + list(g1), fresh
        g = call_impl(interleaved)
        h = call_impl(partly)
        ctx.case(nontrivial_key=('wgen-interleaved', repr(c1), repr(c2)) if o1 and o2 else None)
        ctx.count('W1_two_live_generators')
        if g[0] != 'ok' or list(g[1]) != [o1, o2] or h[0] != 'ok' or list(h[1]) != [o1, o1]:
            ctx.violation('property', 'two live neighbour generators (%s and %s) consumed alternately / a partly consumed one beside a fresh one '
                          'do not each yield their own neighbourhood' % (c1, c2), dict(func='generators_interleaved', first=c1, second=c2),
                          site='distance.generators[interleaved]')
            break

    # ------------------------------------------------------------------------------------------------ W2: next_nearest_neighbors
    nc = []
    nbkinds = ['generator', 'list', 'partial_positions', 'tuple', 'set', 'partial']
    for al in ('A', 'AC', 'ACD'):
        for x in [s for s in all_strings(al, 3)][::(2 if ctx.quick else 1)] + ['XA', 'X', 'ACAC']:
            mk = ['omitted', 'kw', 'positional', 'kw'][len(nc) % 4]
            m = 2 if mk == 'omitted' else rng.choice([1, 2, 3, 4, 4] if len(al) <= 2 or not ctx.quick else [1, 2, 3])
            nbk = nbkinds[(len(nc) // 2) % len(nbkinds)]
            if nbk == 'partial_positions' and len(x) < 2:
                nbk = 'partial'
            ham = nbk == 'partial_positions' or rng.random() < 0.4
            pos = rng.sample(range(len(x)), rng.randint(1, len(x))) if nbk == 'partial_positions' else None
            nc.append(dict(x=x, al=al, ham=ham, m=m, m_kind=mk, nb_kind=nbk, pos=pos))
    # the amino-acid alphabet through the library's own default neighbourhood functions (maxdistance 2 = the documented default)
    aa_cases = [('', False, 'omitted'), (rstr(AA, 1), False, 'omitted'), (rstr(AA, 2, False), False, 'omitted'), (rstr('AC', 1) * 2, False, 'positional'),
                (rstr(AA, 3, False), True, 'omitted'), (rstr(AA, 4, False), True, 'kw'), (rstr(AA, 1), True, 'omitted')]
    if not ctx.quick:
        aa_cases += [(rstr(AA, 3, False), False, 'omitted'), (rstr(AA, 4), False, 'kw'), (rstr(AA, 6), True, 'omitted')]
    for x, ham, mk in aa_cases:
        nc.append(dict(x=x, al=AA, ham=ham, m=2, m_kind=mk, nb_kind='library_default_alphabet', pos=None))
    if not ctx.quick:
        nc.append(dict(x=rng.choice(AA), al=AA, ham=False, m=3, m_kind='kw', nb_kind='library_default_alphabet', pos=None))
        nc.append(dict(x=rstr(AA, 3, False), al=AA, ham=True, m=3, m_kind='positional', nb_kind='library_default_alphabet', pos=None))
    for c in nc:
        al, ham, x, m = c['al'], c['ham'], c['x'], c['m']
        want = _reach_spec(orc, ham, al, x, m, c['pos'])
        base = ds.hamming_neighbors if ham else ds.levenshtein_neighbors
        nbk = c['nb_kind']
        if nbk == 'library_default_alphabet':
            nb = base
        elif nbk == 'partial':
            nb = functools.partial(base, alphabet=al)
        elif nbk == 'partial_positions':
            nb = functools.partial(base, alphabet=al, variable_positions=list(c['pos']))
        else:
            conv = dict(generator=iter, list=list, tuple=tuple, set=set)[nbk]
            nb = (lambda conv: lambda y: conv(list(base(y, al))))(conv)
        if c['m_kind'] == 'omitted':
            g = call_impl(lambda: ds.next_nearest_neighbors(x, nb))
        elif c['m_kind'] == 'positional':
            g = call_impl(lambda: ds.next_nearest_neighbors(x, nb, m))
        else:
            g = call_impl(lambda: ds.next_nearest_neighbors(x, neighborhood=nb, maxdistance=m))
        ctx.case(nontrivial_key=('wnnn', repr(sorted(c.items(), key=str))) if want else None)
        ctx.count('W2_maxdistance_%s' % c['m_kind'])
        ctx.count('W2_neighborhood_%s' % nbk)
        ctx.count('W2_maxdistance=%d' % m)
        got = list(g[1]) if g[0] == 'ok' else None
        if got is None or sorted(got) != sorted(want):
            detail = g[1] if got is None else dict(n_got=len(got), n_expected=len(want), missing=sorted(want - set(got))[:4],
                                                   spurious=sorted(set(got) - want)[:4], contains_x=x in got)
            ctx.violation('property', 'next_nearest_neighbors(%r, %s neighbourhood over %r [%s%s], maxdistance %s) is not the set of strings within '
                          '%d steps except x: %s' % (x, 'hamming' if ham else 'levenshtein', al, nbk, '' if c['pos'] is None else ' positions %s' % c['pos'],
                                                     'omitted (default 2)' if c['m_kind'] == 'omitted' else '%d (%s)' % (m, c['m_kind']), m, detail),
                          dict(c, func='next_nearest_neighbors', detail=str(detail)), site='distance.next_nearest_neighbors[argument kinds]')
            if len(ctx.violations) > 5:
                return

    # ------------------------------------------------------------------------------------------------ W3: the set utilities
    # (a) omitted / positional neighbourhood argument, (b) container kinds of the sequence collection, (c) frozenset references,
    # (e) repeated sequences for calculate_neighbor_numbers.  Default alphabet throughout (the functions themselves are the neighbourhoods).
    kinds = ['tuple', 'ndarray_U', 'ndarray_O', 'series_default', 'series_object', 'series_shifted', 'series_permuted', 'series_str', 'list', 'frozenset']
    uc = []
    for n in range(len(kinds) * (6 if ctx.quick else 40)):
        root = rstr(AA, rng.randint(1, 7))
        ss = list(dict.fromkeys(gens.mutate(rng, root, AA, rng.randint(0, 2)) for _ in range(rng.randint(1, 9))))
        if n % 7 == 3:
            ss = []
        rng.shuffle(ss)
        ham = (n // len(kinds) + n) % 2 == 0
        ref = set(gens.mutate(rng, rng.choice(ss), AA, rng.randint(0, 2)) for _ in range(rng.randint(0, 6))) | set(ss[:len(ss) // 2]) if ss else set()
        x = gens.mutate(rng, rng.choice(ss), AA, rng.randint(0, 2)) if ss else rstr(AA, 2)
        rep = ss + [rng.choice(ss) for _ in range(rng.randint(1, 3))] if ss else []
        rng.shuffle(rep)
        uc.append(dict(ss=ss, ham=ham, ref=sorted(ref), x=x, rep=rep, kind=kinds[n % len(kinds)], nb_form=['omitted', 'positional', 'kw'][(n // len(kinds)) % 3]))
    reqs = []
    for c in uc:
        ham, ss = c['ham'], c['ss']
        reqs += [('api_find_pairs', [ham, AA, sorted(set(ss))]), ('api_neighbor_numbers', [ham, AA, ss, sorted(set(ss))]),
                 ('api_neighbor_numbers', [ham, AA, ss, c['ref']]), ('api_neighbor_numbers', [ham, AA, c['rep'], c['ref']]),
                 ('api_neighbor_numbers', [ham, AA, c['rep'], sorted(set(ss))]), ('api_isdist1', [ham, AA, c['x'], c['ref']])]
    outs = orc.run_parallel(reqs)
    for n, c in enumerate(uc):
        fp, nn_self, nn_ref, nn_rep_ref, nn_rep_self, isd = outs[6 * n:6 * n + 6]
        ham, ss, kind, form = c['ham'], c['ss'], c['kind'], c['nb_form']
        nbf = ds.hamming_neighbors if ham else ds.levenshtein_neighbors
        dflt_pairs = form == 'omitted' and ham             # find_neighbor_pairs(_index): default neighbourhood is hamming_neighbors
        dflt_lev = form == 'omitted' and not ham           # calculate_neighbor_numbers / isdist1: default is levenshtein_neighbors

        def nb_args(default_applies, npos):
            """(args, kwargs) that hand the neighbourhood over: omitted where the default is the wanted one, else positional / keyword"""
            if form == 'omitted' and default_applies:
                return [], {}
            if form == 'positional':
                return [None] * npos + [nbf], {}
            return [], dict(neighborhood=nbf)
        cont = _mk_container(kind, ss, rng)
        ctx.case(nontrivial_key=('wutil', kind, tuple(ss), ham, form) if fp else None)
        ctx.count('W3_seqs_as_' + kind)
        ctx.count('W3_neighborhood_%s' % form)
        if not ss:
            ctx.count('W3_empty_collection')
        rp = dict(seqs=ss, container=kind, hamming=ham, alphabet=AA, neighborhood_argument=form)
        # find_neighbor_pairs
        a, k = nb_args(ham, 0)
        g = call_impl(lambda: ds.find_neighbor_pairs(cont, *a, **k))
        if g[0] != 'ok' or _pc(g[1]) != _pc(fp):
            ctx.violation('property', 'find_neighbor_pairs(%s of %s, neighbourhood %s [%s]) = %s, expected each unordered distance-1 pair once: %s' % (
                kind, ss, 'hamming' if ham else 'levenshtein', form if not (form == 'omitted' and not ham) else 'kw', str(g)[:200], fp),
                dict(rp, func='find_neighbor_pairs'), site='distance.find_neighbor_pairs[containers]')
        if kind != 'frozenset':
            order = [str(s) for s in ss]
            pset = set(_pc(fp))
            exp_idx = sorted((i, j) for i in range(len(order)) for j in range(len(order)) if i != j and tuple(sorted((order[i], order[j]))) in pset)
            g = call_impl(lambda: ds.find_neighbor_pairs_index(cont, *a, **k))
            gi = sorted((int(p), int(q)) for p, q in g[1]) if g[0] == 'ok' else None
            if gi != exp_idx:
                ctx.violation('property', 'find_neighbor_pairs_index(%s of %s, neighbourhood %s) = %s, expected the positions of the distance-1 partners %s' % (
                    kind, ss, 'hamming' if ham else 'levenshtein', str(g)[:200], exp_idx),
                    dict(rp, func='find_neighbor_pairs_index'), site='distance.find_neighbor_pairs_index[containers]')
            # calculate_neighbor_numbers: reference omitted / None positional; explicit frozenset or set; repeated sequences in seqs
            if form == 'positional':
                g = call_impl(lambda: ds.calculate_neighbor_numbers(cont, None, nbf))
            elif dflt_lev:
                g = call_impl(lambda: ds.calculate_neighbor_numbers(cont))
            else:
                g = call_impl(lambda: ds.calculate_neighbor_numbers(cont, neighborhood=nbf))
            if g[0] != 'ok' or [int(v) for v in g[1]] != nn_self:
                ctx.violation('property', 'calculate_neighbor_numbers(%s of %s, neighbourhood %s [%s]) = %s, expected %s' % (
                    kind, ss, 'hamming' if ham else 'levenshtein', form, str(g)[:200], nn_self),
                    dict(rp, func='calculate_neighbor_numbers'), site='distance.calculate_neighbor_numbers[containers]')
            rkind = 'frozenset' if rng.random() < 0.5 else 'set'
            ref = frozenset(c['ref']) if rkind == 'frozenset' else set(c['ref'])
            ctx.count('W3_reference_as_' + rkind)
            repc = _mk_container(kind, c['rep'], rng)
            for label, seqs_c, seqs_l, want in (('', cont, ss, nn_ref), (' with repeated sequences', repc, c['rep'], nn_rep_ref)):
                if form == 'positional':
                    g = call_impl(lambda: ds.calculate_neighbor_numbers(seqs_c, ref, nbf))
                elif dflt_lev:
                    g = call_impl(lambda: ds.calculate_neighbor_numbers(seqs_c, reference=ref))
                else:
                    g = call_impl(lambda: ds.calculate_neighbor_numbers(seqs_c, reference=ref, neighborhood=nbf))
                if g[0] != 'ok' or [int(v) for v in g[1]] != want or sorted(ref) != c['ref']:
                    ctx.violation('property', 'calculate_neighbor_numbers(%s of %s%s, reference=%s(%s), neighbourhood %s [%s]) = %s, expected %s; the '
                                  'reference holds %s afterwards' % (kind, seqs_l, label, rkind, c['ref'], 'hamming' if ham else 'levenshtein', form,
                                                                     str(g)[:200], want, sorted(ref)),
                                  dict(rp, func='calculate_neighbor_numbers', seqs=seqs_l, reference=c['ref'], reference_container=rkind),
                                  site='distance.calculate_neighbor_numbers[containers]')
            if c['rep']:
                ctx.count('W3_neighbor_numbers_repeated_seqs')
                g = call_impl(lambda: ds.calculate_neighbor_numbers(repc, neighborhood=nbf))
                if g[0] != 'ok' or [int(v) for v in g[1]] != nn_rep_self:
                    ctx.violation('property', 'calculate_neighbor_numbers(%s of %s with repeated sequences, neighbourhood %s) = %s, expected the number of '
                                  'distinct distance-1 partners %s' % (kind, c['rep'], 'hamming' if ham else 'levenshtein', str(g)[:200], nn_rep_self),
                                  dict(rp, func='calculate_neighbor_numbers', seqs=c['rep']), site='distance.calculate_neighbor_numbers[repeated seqs]')
        # isdist1: reference set / frozenset, x possibly a numpy string, neighbourhood omitted / positional / keyword
        ref = frozenset(c['ref']) if rng.random() < 0.5 else set(c['ref'])
        x = np.str_(c['x']) if rng.random() < 0.3 else c['x']
        a, k = nb_args(not ham, 0)
        g1 = call_impl(lambda: ds.isdist1(x, ref, *a, **k))
        g2 = call_impl(lambda: ds.isdist1(x, ref, *a, **k))
        for g in (g1, g2):
            if g[0] != 'ok' or bool(g[1]) != isd or sorted(ref) != c['ref']:
                ctx.violation('property', 'isdist1(%r, %s(%s), neighbourhood %s [%s]) = %s, expected %s' % (
                    c['x'], type(ref).__name__, c['ref'], 'hamming' if ham else 'levenshtein', form, g, isd),
                    dict(rp, func='isdist1', x=c['x'], reference=c['ref'], reference_container=type(ref).__name__), site='distance.isdist1[argument kinds]')
                break
        if len(ctx.violations) > 5:
            return

    # (d) ONE reference set / ONE sequence list modified in place between calls: every call must answer for what the object holds then
    hc = []
    for n in range(16 if ctx.quick else 160):
        ham = n % 2 == 1
        L = rng.randint(3, 6)
        root = rstr(AA, L, False)

        def mut(s, k=1, ham=ham):
            if not ham:
                return gens.mutate(rng, s, AA, k)
            idx = set(rng.sample(range(len(s)), min(k, len(s))))          # substitutions only: lengths stay equal
            return ''.join(rng.choice(AA) if i in idx else ch for i, ch in enumerate(s))
        ss = list(dict.fromkeys([root] + [mut(root, rng.randint(1, 2)) for _ in range(rng.randint(2, 5))]))
        x = mut(root, rng.randint(0, 2))
        hist, cur_ref, cur_ss = [], set(mut(root, 2) for _ in range(2)), list(ss)
        for step in range(5):
            op = ['none', 'ref.add', 'seqs.append', 'ref.discard', 'seqs[0]='][step]
            if op == 'ref.add':
                arg = mut(rng.choice(cur_ss + [x]), 1)
                cur_ref = cur_ref | {arg}
            elif op == 'ref.discard':
                arg = rng.choice(sorted(cur_ref))
                cur_ref = cur_ref - {arg}
            elif op == 'seqs.append':
                arg = mut(rng.choice(cur_ss), 1)
                while arg in cur_ss:
                    arg = arg + 'W'
                cur_ss = cur_ss + [arg]
            elif op == 'seqs[0]=':
                arg = mut(cur_ss[-1], 1)
                while arg in cur_ss:
                    arg = arg + 'Y'
                cur_ss = [arg] + cur_ss[1:]
            else:
                arg = None
            hist.append((op, arg, sorted(cur_ref), list(cur_ss)))
        hc.append(dict(ham=ham, x=x, ss=ss, hist=hist, seqs_kind='ndarray_O' if n % 4 == 3 else 'list'))
    reqs = []
    for c in hc:
        for op, arg, r, s in c['hist']:
            reqs += [('api_neighbor_numbers', [c['ham'], AA, s, r]), ('api_isdist1', [c['ham'], AA, c['x'], r]), ('api_nndist_ham', [4, c['x'], r]),
                     ('api_find_pairs', [c['ham'], AA, sorted(set(s))]), ('api_neighbor_numbers', [c['ham'], AA, s, sorted(set(s))])]
    outs = orc.run_parallel(reqs)
    k = 0
    for c in hc:
        ham, x = c['ham'], c['x']
        nbf = ds.hamming_neighbors if ham else ds.levenshtein_neighbors
        R = set(c['hist'][0][2])
        S = list(c['ss']) if c['seqs_kind'] == 'list' else np.array(c['ss'], dtype=object)
        trail = []
        for op, arg, r, s in c['hist']:
            nn_ref, isd, nnd, fp, nn_self = outs[k:k + 5]
            k += 5
            if op == 'ref.add':
                R.add(arg)
            elif op == 'ref.discard':
                R.discard(arg)
            elif op == 'seqs.append':
                if isinstance(S, list):
                    S.append(arg)
                else:
                    S = np.append(S, np.array([arg], dtype=object))       # arrays cannot grow in place: a new array object here
            elif op == 'seqs[0]=':
                S[0] = arg
            trail.append((op, arg))
            ctx.case(nontrivial_key=('whist', ham, x, tuple(s), tuple(r), op) if any(nn_ref) or fp else None)
            ctx.count('W3_call_after_in_place_' + op)
            res = [('calculate_neighbor_numbers(seqs, reference=R)', call_impl(lambda: [int(v) for v in ds.calculate_neighbor_numbers(S, reference=R, neighborhood=nbf)]), nn_ref),
                   ('isdist1(x, R)', call_impl(lambda: bool(ds.isdist1(x, R, neighborhood=nbf))), isd),
                   ('find_neighbor_pairs(seqs)', call_impl(lambda: _pc(ds.find_neighbor_pairs(S, neighborhood=nbf))), _pc(fp)),
                   ('calculate_neighbor_numbers(seqs)', call_impl(lambda: [int(v) for v in ds.calculate_neighbor_numbers(S, neighborhood=nbf)]), nn_self)]
            pset = set(_pc(fp))
            res.append(('find_neighbor_pairs_index(seqs)', call_impl(lambda: sorted((int(p), int(q)) for p, q in ds.find_neighbor_pairs_index(S, neighborhood=nbf))),
                        sorted((i, j) for i in range(len(s)) for j in range(len(s)) if i != j and tuple(sorted((s[i], s[j]))) in pset)))
            if ham:
                res.append(('nndist_hamming(x, R)', call_impl(lambda: int(ds.nndist_hamming(x, R))), nnd))
            for name, g, want in res:
                if g != ('ok', want) or sorted(R) != r or [str(v) for v in S] != s:
                    ctx.violation('property', '%s on ONE reference set R / ONE sequence %s modified in place between calls (history %s): now R = %s, '
                                  'seqs = %s, x = %r, %s neighbourhood; got %s, expected %s; afterwards R = %s, seqs = %s' % (
                                      name, c['seqs_kind'], trail, r, s, x, 'hamming' if ham else 'levenshtein', str(g)[:200], want, sorted(R), [str(v) for v in S]),
                                  dict(func='history', call=name, hamming=ham, x=x, initial_seqs=c['ss'], initial_reference=c['hist'][0][2], history=trail,
                                       seqs_container=c['seqs_kind'], alphabet=AA), site='distance.utilities[objects modified in place between calls]')
                    break
        if len(ctx.violations) > 5:
            return

    # (f) larger sparse collections (clonal families, a few hundred sequences), every utility on the same collection
    for ham in (False, True):
        nseq = 120 if ctx.quick else 450
        rep = list(dict.fromkeys(gens.repertoire(rng, nseq, AA, maxmut=2 if not ham else 1, minlen=4)))
        if ham:       # substitutions only keep the lengths equal inside a family: many Hamming pairs
            rep = list(dict.fromkeys(s[:3] + ''.join(rng.choice(AA) if rng.random() < 0.08 else ch for ch in s[3:]) for s in rep for _ in range(2)))[:nseq]
        rng.shuffle(rep)
        fp, nn = orc.run([('api_find_pairs', [ham, AA, sorted(rep)]), ('api_neighbor_numbers', [ham, AA, rep, sorted(rep)])])
        nbf = ds.hamming_neighbors if ham else ds.levenshtein_neighbors
        pset = set(_pc(fp))
        pos = {s: i for i, s in enumerate(rep)}
        ctx.case(nontrivial_key=('wlarge', ham, len(rep), len(fp)) if fp else None)
        ctx.count('W3_larger_collection_%s_pairs' % ('hamming' if ham else 'levenshtein'), len(fp))
        cont = rep if ham else np.array(rep, dtype=object)
        checks = [('find_neighbor_pairs', call_impl(lambda: _pc(ds.find_neighbor_pairs(cont, neighborhood=nbf))), sorted(pset)),
                  ('find_neighbor_pairs_index', call_impl(lambda: sorted((int(p), int(q)) for p, q in ds.find_neighbor_pairs_index(cont, neighborhood=nbf))),
                   sorted([(pos[a], pos[b]) for a, b in pset] + [(pos[b], pos[a]) for a, b in pset])),
                  ('calculate_neighbor_numbers', call_impl(lambda: [int(v) for v in ds.calculate_neighbor_numbers(cont, neighborhood=nbf)]), nn)]
        for name, g, want in checks:
            if g != ('ok', want):
                diff = str(g)[:200] if g[0] != 'ok' or len(g[1]) != len(want) else [(i, a, b) for i, (a, b) in enumerate(zip(g[1], want)) if a != b][:4]
                ctx.violation('property', '%s on %d sequences of clonal families (%s neighbourhood): differs from the model; first differences '
                              '(position, got, expected) %s' % (name, len(rep), 'hamming' if ham else 'levenshtein', diff),
                              dict(func=name, seqs=rep, hamming=ham, alphabet=AA), site='distance.%s[larger collection]' % name)
    # (g) isdist1 on a long query whose only distance-1 reference is the first / last / a middle string the neighbourhood yields
    for ham in (False, True):
        x = rstr(AA, rng.randint(20, 30), False)
        ball = orc.run([('api_ham_nbrs_pos', [AA, list(range(len(x))), x]) if ham else ('api_lev_nbrs', [AA, x])])[0]
        far = [gens.mutate(rng, x, AA, 3) for _ in range(4)]
        far = [f for f in far if f not in ball]
        nbf = ds.hamming_neighbors if ham else ds.levenshtein_neighbors
        picks = [('first yielded', ball[0]), ('last yielded', ball[-1]), ('middle', ball[len(ball) // 2]), ('beyond 256', ball[min(len(ball) - 1, 300)]), ('none', None)]
        wants = orc.run([('api_isdist1', [ham, AA, x, sorted(set(far) | ({b} if b else set()))]) for _, b in picks])
        for (label, b), want in zip(picks, wants):
            ref = set(far) | ({b} if b else set())
            g = call_impl(lambda: ds.isdist1(x, ref, nbf))
            ctx.case(nontrivial_key=('wisd-long', ham, x, label))
            ctx.count('W3_isdist1_long_query')
            if g[0] != 'ok' or bool(g[1]) != want:
                ctx.violation('property', 'isdist1(%r, %s, %s neighbourhood) = %s, expected %s (the only distance-1 reference is the %s neighbour)' % (
                    x, sorted(ref), 'hamming' if ham else 'levenshtein', g, want, label),
                    dict(func='isdist1', x=x, reference=sorted(ref), hamming=ham, alphabet=AA), site='distance.isdist1[long query]')

    # ------------------------------------------------------------------------------------------------ W4: nndist_hamming
    dc = []

    def planted(x, d, where):
        Lx = len(x)
        if where == 'first':
            idx = list(range(d))
        elif where == 'last':
            idx = list(range(Lx - d, Lx))
        elif where == 'ends':
            idx = set([0, Lx - 1][:d])
            while len(idx) < d:
                idx.add(rng.randrange(Lx))
        else:
            idx = rng.sample(range(Lx), d)
        # letters of the whole alphabet, in particular its first and last letter
        return ''.join((rng.choice([a for a in ('AY' if rng.random() < 0.4 else AA) if a != ch] or ['C']) if i in idx else ch) for i, ch in enumerate(x))

    for n in range(40 if ctx.quick else 600):
        md_kind = rng.choice(['omitted', 'kw', 'kw', 'positional'])
        md = 4 if md_kind == 'omitted' else rng.randint(1, 4)
        d = rng.choice([0, 1, 2, 2, 3, 3, 4, 5])
        heavy = d >= 3 and md == 4                      # the triple loop runs (to the end when d >= 4): keep those strings short
        Lx = rng.randint(max(d, 1), 8 if ctx.quick else 10) if heavy else rng.randint(max(d, 1), 16)
        if heavy and n % 4:
            Lx = rng.randint(max(d, 1), 6)
        x = rstr(AA, Lx, False) if rng.random() < 0.8 else rstr('AY', Lx, False)
        r0 = planted(x, d, rng.choice(['first', 'last', 'ends', 'random']))
        ref = {r0}
        for _ in range(rng.randint(0, 3)):               # farther equal-length references
            ref.add(planted(x, min(Lx, d + rng.randint(1, 3)), 'random'))
        # other lengths: proper prefixes / extensions of x and of the planted reference, the empty string
        ref |= set(rng.sample([x[:-1], x[1:], x + rng.choice(AA), rng.choice(AA) + x, r0[:-1], r0 + 'A', '', x + x], rng.randint(0, 4)))
        if d > 0:
            ref.discard(x)
        dc.append(dict(x=x, ref=sorted(ref), md=md, md_kind=md_kind, planted_distance=d, ref_kind='frozenset' if n % 3 == 0 else 'set',
                       xkind='np.str_' if n % 5 == 0 else 'str'))
    # the empty query, one-letter queries, the empty reference
    for x, ref in [('', ['']), ('', ['A']), ('', []), ('A', []), ('A', ['Y']), ('Y', ['', 'AA']), ('AY', ['YA']), ('AYA', ['YAY', 'AY', 'AYAA'])]:
        for md, mk in ((4, 'omitted'), (rng.randint(1, 3), 'kw')):
            dc.append(dict(x=x, ref=sorted(ref), md=md, md_kind=mk, planted_distance=None, ref_kind='set', xkind='str'))
    # a large reference (thousands of equal-length strings) with one planted near reference
    for d in (1, 2, 3) if ctx.quick else (1, 2, 2, 3, 3, 4):
        Lx = rng.randint(7, 9) if d >= 3 else rng.randint(10, 15)
        x = rstr(AA, Lx, False)
        big = set(''.join(rng.choice(AA) for _ in range(Lx)) for _ in range(3000))
        big = {r for r in big if sum(a != b for a, b in zip(r, x)) > d} | {planted(x, d, 'random')}
        dc.append(dict(x=x, ref=sorted(big), md=4, md_kind='omitted', planted_distance=d, ref_kind='set', xkind='str', large=True))
    wants = orc.run_parallel([('api_nndist_ham', [c['md'], c['x'], c['ref']]) for c in dc])
    for c, want in zip(dc, wants):
        x = np.str_(c['x']) if c['xkind'] == 'np.str_' else c['x']
        ref = frozenset(c['ref']) if c['ref_kind'] == 'frozenset' else set(c['ref'])
        if c['md_kind'] == 'omitted':
            f = lambda: ds.nndist_hamming(x, ref)
        elif c['md_kind'] == 'positional':
            f = lambda: ds.nndist_hamming(x, ref, c['md'])
        else:
            f = lambda: ds.nndist_hamming(seq=x, reference=ref, maxdist=c['md'])
        g1 = call_impl(f)
        g2 = call_impl(f) if not (c['planted_distance'] or 0) >= 3 else g1            # the same objects again (cheap cases only)
        ctx.case(nontrivial_key=('wnndist', c['x'], tuple(c['ref'][:8]), c['md'], c['md_kind']) if want < c['md'] else None)
        ctx.count('W4_maxdist_%s' % c['md_kind'])
        ctx.count('W4_nndist=%d' % want)
        ctx.count('W4_query_length_%s' % ('0' if not c['x'] else '1..5' if len(c['x']) <= 5 else '6..10' if len(c['x']) <= 10 else '11..16'))
        if c.get('large'):
            ctx.count('W4_large_reference')
        for g in (g1, g2):
            if g[0] != 'ok' or int(g[1]) != want or sorted(ref) != c['ref']:
                rshow = c['ref'] if len(c['ref']) <= 12 else '%d strings incl. %s' % (len(c['ref']), [r for r in c['ref'] if len(r) == len(c['x']) and
                                                                                                 sum(a != b for a, b in zip(r, c['x'])) <= 4][:3])
                ctx.violation('property', 'nndist_hamming(%r, %s(%s), maxdist %s) = %s, expected min(nearest equal-length Hamming distance, maxdist) = %d' % (
                    c['x'], c['ref_kind'], rshow, 'omitted (default 4)' if c['md_kind'] == 'omitted' else '%d (%s)' % (c['md'], c['md_kind']), g, want),
                    dict(func='nndist_hamming', x=c['x'], ref=c['ref'], maxdist=c['md'], maxdist_argument=c['md_kind'], reference_container=c['ref_kind'],
                         x_type=c['xkind']), site='distance.nndist_hamming[argument kinds]')
                break
        if len(ctx.violations) > 5:
            return
    ctx.assumptions += ['[widening] alphabets and variable_positions are re-iterable collections or (positions only) one-shot iterators; duplicate-free '
                        'alphabets / positions; references are set / frozenset objects; sequence collections are list, tuple, ndarray or pandas Series '
                        '(positions, not labels, are the indices); maxdistance >= 1; 1 <= maxdist <= 4']


def replay(ctx, obj):
    run(ctx)
