"""C15: oracle entry points defined in coq/extract/Api_c15.v."""
from proto import L, O, T, STRS

SIGS = {
    'api_c15_single_linkage': (['nat', L(L('nat'))], L(T(L('nat'), 'nat'))),
    'api_c15_sl_cut': (['nat', L(L('nat')), 'nat'], L('nat')),
    'api_c15_sl_cut_lev': (['nat', STRS], L('nat')),
    'api_c15_threshold_graph': (['nat', L(L('nat')), 'nat'], L(T('nat', 'nat'))),
}
