"""Oracle entry points of C20 (coq/extract/Api_c20.v)."""
from proto import L, O, T, STRS

SIGS = {
    'api_c20_size': (['bool'], 'nat'),
    'api_c20_entry': (['nat'], T('str', T('bool', 'bool', 'bool'), STRS, STRS, STRS, STRS, STRS, STRS, STRS)),
    'api_c20_table_pure': (['bool'], 'bool'),
    'api_c20_offenders': (['bool'], STRS),
    'api_c20_conflicts': (['bool'], STRS),
    'api_c20_may_write': (['nat'], L(T('nat', 'str'))),
}
